// Kani harnesses for C04 (heap selection), child module of src/algorithm/sort/heap_select.rs.
//
// HeapSelection::sort is `self.sorted = true; self.heap.sort_by(|a, b| b.partial_cmp(a).unwrap())` and HeapSelection::peek
// uses `max_by` with a closure: both outside the Verus subset.  The Verus unit specs/C04/heap_select.rs verifies `add`
// against the ASSUMED contract A-HEAPSELECT-SORT, stated there as
//     requires total_on(old(self).heap values)
//     ensures  final.sorted, final.heap is a permutation (equal multisets, equal length) of old.heap,
//              forall i <= j: ge(final.heap[i], final.heap[j])  (descending),  final.k == old.k, final.n == old.n
// This module discharges exactly that contract for every heap of length <= 4, and the obligation "peek returns a maximum".
//
// Elements are `Tagged { key, tag }` ordered and compared by `key` only (as KNNPoint is by distance); keys are arbitrary
// non-NaN f64 (sort and peek only compare and move), the tag is the original position, so "permutation" is checked
// exactly: the tags of the result are pairwise different and every element still carries the key it started with.
use super::*;

#[derive(Debug, Clone, Copy)]
struct Tagged {
    key: f64,
    tag: usize,
}

impl PartialOrd for Tagged {
    fn partial_cmp(&self, other: &Self) -> Option<Ordering> {
        self.key.partial_cmp(&other.key)
    }
}

impl PartialEq for Tagged {
    fn eq(&self, other: &Self) -> bool {
        self.key == other.key
    }
}

fn any_ordered() -> f64 {
    let v: f64 = kani::any();
    kani::assume(v == v); // total_on: no NaN
    v
}

fn any_heap<const K: usize>(keys: &mut [f64; K]) -> Vec<Tagged> {
    let mut heap: Vec<Tagged> = Vec::with_capacity(K);
    for i in 0..K {
        keys[i] = any_ordered();
        heap.push(Tagged { key: keys[i], tag: i });
    }
    heap
}

macro_rules! h_sort {
    ($name:ident, $k:expr, $unw:expr) => {
        #[kani::proof]
        #[kani::unwind($unw)]
        fn $name() {
            const K: usize = $k;
            let mut keys = [0.0f64; K];
            let heap = any_heap::<K>(&mut keys);
            // the contract relates no field to another: k, n and the old flag are arbitrary
            let k0: usize = kani::any();
            let n0: usize = kani::any();
            let sorted0: bool = kani::any();
            let mut h = HeapSelection { k: k0, n: n0, sorted: sorted0, heap };
            h.sort();
            assert!(h.sorted, "HeapSelection::sort: sets the sorted flag");
            assert!(h.k == k0 && h.n == n0, "HeapSelection::sort: k and n are unchanged");
            assert!(h.heap.len() == K, "HeapSelection::sort: the heap keeps its length");
            let mut seen = [false; K];
            for i in 0..K {
                let e = h.heap[i];
                assert!(e.tag < K && !seen[e.tag], "HeapSelection::sort: the heap afterwards is a permutation of the heap before (every element exactly once)");
                seen[e.tag] = true;
                assert!(e.key.to_bits() == keys[e.tag].to_bits(), "HeapSelection::sort: elements are moved, not altered");
            }
            for i in 0..K {
                for j in i..K {
                    assert!(h.heap[i].key >= h.heap[j].key, "HeapSelection::sort: the heap afterwards is in descending order (heap[i] >= heap[j] for i <= j)");
                }
            }
            kani::cover!(h.heap[0].tag == K - 1 && h.heap[K - 1].tag == 0);
        }
    };
}
h_sort!(c04_heap_sort_k1, 1, 8);
h_sort!(c04_heap_sort_k2, 2, 8);
h_sort!(c04_heap_sort_k3, 3, 8);
h_sort!(c04_heap_sort_k4, 4, 8);

// peek on a heap that is not flagged sorted (any arrangement), and on a heap that `sort` has just sorted
macro_rules! h_peek {
    ($name:ident, $k:expr, $unw:expr) => {
        #[kani::proof]
        #[kani::unwind($unw)]
        fn $name() {
            const K: usize = $k;
            let mut keys = [0.0f64; K];
            let heap = any_heap::<K>(&mut keys);
            let k0: usize = kani::any();
            let n0: usize = kani::any();
            let mut h = HeapSelection { k: k0, n: n0, sorted: false, heap };
            {
                let p = h.peek();
                assert!(p.tag < K && p.key.to_bits() == keys[p.tag].to_bits(), "HeapSelection::peek: returns an element of the heap");
                for i in 0..K {
                    assert!(keys[i] <= p.key, "HeapSelection::peek: returns a maximum of the heap (not flagged sorted: any arrangement)");
                }
                kani::cover!(p.tag == K - 1);
            }
            h.sort();
            {
                let p = h.peek();
                assert!(p.tag < K && p.key.to_bits() == keys[p.tag].to_bits(), "HeapSelection::peek: returns an element of the heap (after sort)");
                for i in 0..K {
                    assert!(keys[i] <= p.key, "HeapSelection::peek: returns a maximum of the heap (flagged sorted by sort)");
                }
                kani::cover!(p.tag == K - 1);
            }
        }
    };
}
h_peek!(c04_heap_peek_k1, 1, 8);
h_peek!(c04_heap_peek_k2, 2, 8);
h_peek!(c04_heap_peek_k3, 3, 8);
h_peek!(c04_heap_peek_k4, 4, 8);
