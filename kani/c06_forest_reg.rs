// Kani harnesses for C06, child module of src/ensemble/random_forest_regressor.rs: the REAL aggregation functions of the
// regressor forest (predict_for_row, predict_for_row_oob, predict, predict_oob) on forests built from HAND-MADE member trees.
// Paired with the Verus unit specs/C06/regressor_predict.rs (fallback_for): when somebody restructures one of these functions
// with constructs Verus cannot read (chunks_exact, iterator adapters, continue ...) the unit is inconclusive; these harnesses
// then decide small forests on the real code.
//
// Member trees come from kani/c06_tree_stump_reg.rs (injected into src/tree/decision_tree_regressor.rs via `also_inject`):
//   verif_stump(v)                 one leaf: predicts v for every row
//   verif_split(f, thr, lo, hi)    root split on feature f: predicts lo when x[row,f] <= thr, else hi
// The forest value is built field by field (this module sees the private fields).  Tree outputs are drawn by symbolic bytes from
// the constant set {6, 12, 24}: every sum of up to 3 of them and every mean over 1, 2 or 3 of them is an integer, so the expected
// mean is computed by the harness in INTEGER arithmetic and is exact in f64 whatever the order of the additions.
//
// Obligations read off the property ("A forest's prediction for a row is ... for the regressor, the arithmetic mean of its
// member trees' predictions for that row.  Out-of-bag prediction for a training row uses only the trees whose bootstrap sample
// did not contain that row"):
//   predict_for_row(x,row)      = (sum over ALL trees t of tree_t(x,row)) / n_trees           -- n_trees = 1, 2, 3 (odd sizes!)
//   predict_for_row_oob(x,row)  = (sum over the trees with samples[t][row] == false) / their number, for rows with >= 1 such tree
//   predict / predict_oob       = one entry per row of x, entry i = the above for row i (trees that DISTINGUISH the rows)
use super::*;
use crate::linalg::naive::dense_matrix::DenseMatrix;
use crate::linalg::BaseMatrix;

const VALS: [f64; 3] = [6.0, 12.0, 24.0];
const IVALS: [u32; 3] = [6, 12, 24];

fn verif_params(n_trees: usize, keep_samples: bool) -> RandomForestRegressorParameters {
    RandomForestRegressorParameters {
        max_depth: None,
        min_samples_leaf: 1,
        min_samples_split: 2,
        n_trees,
        m: None,
        keep_samples,
        seed: 0,
    }
}

// a selector 0..3 from one symbolic byte
fn verif_sel() -> usize {
    let b: u8 = kani::any();
    kani::assume(b < 3);
    b as usize
}

// ---------------------------------------------------------------------------------------------------------------
// predict_for_row: mean over ALL member trees
// ---------------------------------------------------------------------------------------------------------------
macro_rules! reg_mean_harness {
    ($name:ident, $n:expr, $unw:expr) => {
        #[kani::proof]
        #[kani::unwind($unw)]
        fn $name() {
            const N: usize = $n;
            let mut trees: Vec<DecisionTreeRegressor<f64>> = Vec::with_capacity(N);
            let mut isum = 0u32;
            let mut t = 0;
            while t < N {
                let s = verif_sel();
                trees.push(DecisionTreeRegressor::<f64>::verif_stump(VALS[s]));
                isum += IVALS[s];
                t += 1;
            }
            let forest = RandomForestRegressor {
                _parameters: verif_params(N, false),
                trees,
                samples: None,
            };
            let x: DenseMatrix<f64> = DenseMatrix::zeros(1, 1);
            let r = forest.predict_for_row(&x, 0);
            let expected = isum / (N as u32); // exact: all values are multiples of 6
            assert!(
                r == expected as f64,
                "predict_for_row (regressor): the arithmetic mean of ALL member trees' predictions for the row"
            );
            kani::cover!(r == 24.0);
        }
    };
}

reg_mean_harness!(c06_reg_mean_n1, 1, 4);
reg_mean_harness!(c06_reg_mean_n2, 2, 5);
reg_mean_harness!(c06_reg_mean_n3, 3, 6);

// ---------------------------------------------------------------------------------------------------------------
// predict_for_row_oob: mean over exactly the trees whose bootstrap sample did not contain the row
// ---------------------------------------------------------------------------------------------------------------
macro_rules! reg_oob_harness {
    ($name:ident, $n:expr, $unw:expr) => {
        #[kani::proof]
        #[kani::unwind($unw)]
        fn $name() {
            const N: usize = $n;
            const R: usize = 2; // training rows
            let mut trees: Vec<DecisionTreeRegressor<f64>> = Vec::with_capacity(N);
            let mut masks: Vec<Vec<bool>> = Vec::with_capacity(N);
            let mut isum = [0u32; R];
            let mut cnt = [0u32; R];
            let mut t = 0;
            while t < N {
                let s = verif_sel();
                trees.push(DecisionTreeRegressor::<f64>::verif_stump(VALS[s]));
                let mut m: Vec<bool> = Vec::with_capacity(R);
                let mut row = 0;
                while row < R {
                    let in_bag: bool = kani::any();
                    m.push(in_bag);
                    if !in_bag {
                        isum[row] += IVALS[s];
                        cnt[row] += 1;
                    }
                    row += 1;
                }
                masks.push(m);
                t += 1;
            }
            let forest = RandomForestRegressor {
                _parameters: verif_params(N, true),
                trees,
                samples: Some(masks),
            };
            let x: DenseMatrix<f64> = DenseMatrix::zeros(R, 1);
            let mut row = 0;
            while row < R {
                if cnt[row] > 0 {
                    let r = forest.predict_for_row_oob(&x, row);
                    let expected = isum[row] / cnt[row]; // exact: all values are multiples of 6, cnt is 1, 2 or 3
                    assert!(
                        r == expected as f64,
                        "predict_for_row_oob (regressor): the mean over exactly the trees whose bootstrap sample did not contain the row"
                    );
                }
                row += 1;
            }
            // some row is out of bag for every tree, and for only some of the trees
            kani::cover!(cnt[R - 1] == N as u32);
            kani::cover!(cnt[0] >= 1 && (cnt[0] as usize) < N || N == 1);
        }
    };
}

reg_oob_harness!(c06_reg_oob_n1, 1, 5);
reg_oob_harness!(c06_reg_oob_n2, 2, 5);
reg_oob_harness!(c06_reg_oob_n3, 3, 6);

// ---------------------------------------------------------------------------------------------------------------
// predict / predict_oob: one entry per row, entry i is the (OOB) mean for ROW i -- the member trees split on the row's feature
// ---------------------------------------------------------------------------------------------------------------
macro_rules! reg_predict_harness {
    ($name:ident, $n:expr, $unw:expr) => {
        #[kani::proof]
        #[kani::unwind($unw)]
        fn $name() {
            const N: usize = $n;
            const R: usize = 2;
            // row 0 has feature value 0, row 1 has feature value 1; every tree splits at 0.5
            let mut x: DenseMatrix<f64> = DenseMatrix::zeros(R, 1);
            x.set(1, 0, 1.0);
            let mut trees: Vec<DecisionTreeRegressor<f64>> = Vec::with_capacity(N);
            let mut isum = [0u32; R];
            let mut t = 0;
            while t < N {
                let lo = verif_sel();
                let hi = verif_sel();
                trees.push(DecisionTreeRegressor::<f64>::verif_split(0, 0.5, VALS[lo], VALS[hi]));
                isum[0] += IVALS[lo];
                isum[1] += IVALS[hi];
                t += 1;
            }
            let forest = RandomForestRegressor {
                _parameters: verif_params(N, false),
                trees,
                samples: None,
            };
            let res = forest.predict(&x);
            assert!(res.is_ok(), "predict (regressor): succeeds");
            let y = match res {
                Ok(y) => y,
                Err(_) => return,
            };
            assert!(y.len() == R, "predict (regressor): one prediction per row of x");
            let mut row = 0;
            while row < R {
                assert!(
                    y[row] == (isum[row] / (N as u32)) as f64,
                    "predict (regressor): entry i is the arithmetic mean of the member trees' predictions for ROW i"
                );
                row += 1;
            }
            kani::cover!(y.len() == R && y[0] == 6.0 && y[1] == 24.0);
        }
    };
}

reg_predict_harness!(c06_reg_predict_n3_r2, 3, 6);

macro_rules! reg_predict_oob_harness {
    ($name:ident, $n:expr, $unw:expr) => {
        #[kani::proof]
        #[kani::unwind($unw)]
        fn $name() {
            const N: usize = $n;
            const R: usize = 2;
            let mut x: DenseMatrix<f64> = DenseMatrix::zeros(R, 1);
            x.set(1, 0, 1.0);
            let mut trees: Vec<DecisionTreeRegressor<f64>> = Vec::with_capacity(N);
            let mut masks: Vec<Vec<bool>> = Vec::with_capacity(N);
            let mut isum = [0u32; R];
            let mut cnt = [0u32; R];
            let mut t = 0;
            while t < N {
                let lo = verif_sel();
                let hi = verif_sel();
                trees.push(DecisionTreeRegressor::<f64>::verif_split(0, 0.5, VALS[lo], VALS[hi]));
                let mut m: Vec<bool> = Vec::with_capacity(R);
                let mut row = 0;
                while row < R {
                    let in_bag: bool = kani::any();
                    m.push(in_bag);
                    if !in_bag {
                        isum[row] += if row == 0 { IVALS[lo] } else { IVALS[hi] };
                        cnt[row] += 1;
                    }
                    row += 1;
                }
                masks.push(m);
                t += 1;
            }
            // every row has at least one out-of-bag tree (otherwise the code divides 0 by 0; the property does not say what then)
            kani::assume(cnt[0] > 0 && cnt[1] > 0);
            let forest = RandomForestRegressor {
                _parameters: verif_params(N, true),
                trees,
                samples: Some(masks),
            };
            let res = forest.predict_oob(&x);
            assert!(
                res.is_ok(),
                "predict_oob (regressor): succeeds when the masks were kept and x has the training set's row count"
            );
            let y = match res {
                Ok(y) => y,
                Err(_) => return,
            };
            assert!(y.len() == R, "predict_oob (regressor): one prediction per row of x");
            let mut row = 0;
            while row < R {
                assert!(
                    y[row] == (isum[row] / cnt[row]) as f64,
                    "predict_oob (regressor): entry i is the mean over exactly the trees whose bootstrap sample did not contain ROW i"
                );
                row += 1;
            }
            kani::cover!(y.len() == R && cnt[0] == 1 && cnt[1] == N as u32);
        }
    };
}

reg_predict_oob_harness!(c06_reg_predict_oob_n2_r2, 2, 5);
