// STATUS: NOT ADMITTED, NOT REGISTERED in specs/C04/property.json.  Measured (loaded sandbox, <= 2 Kani runs at once):
//   c04_knncls_distance_dups_k3 (n=4)        no answer after 12.5 min, CBMC 5.1 GB and growing
//   c04_knncls_distance_dups_n3_k3 (n=3)     no answer after 15 min (timeout), CBMC 5 GB
//   c04_knncls_pfr_distance_dups_n3_k3       (predict_for_row alone, hand-built state) no answer after 9.5 min, 4.5 GB
//   c04_knnreg_distance_exact_k3 (n=4)       stopped after 5.5 min, CBMC 3.3 GB
//   the other harnesses were never run.  The modules compile against the tree (kani-compiler got through to CBMC).
// Seeded bug C04-F is therefore NOT shown detected by these harnesses.
// Kani harnesses for C04 sentence 2 (k-NN classifier), child module of src/neighbors/knn_classifier.rs.
// The REAL KNNClassifier::fit (label -> class index through unique() + position) and the REAL predict / predict_for_row
// run on a DenseMatrix<f64> with KNNAlgorithmName::LinearSearch (CoverTree::new uses ln/powf and does not terminate under
// CBMC - property.json not_decided - so the cover-tree configuration is NOT exercised here) and the Manhattan metric (no sqrt).
//
// The training matrix and the query are CONCRETE (one column), so every distance and every weight is a constant; the LABELS
// are symbolic, each drawn from the two non-contiguous values {5.0, 8.0} (so 1 or 2 classes, any assignment).  Obligation:
// "predict, for every query row, the uniform or inverse-distance weighted plurality class over the k nearest neighbours (an
// exact-match neighbour taking all the weight under distance weighting)".  k is odd and there are two label values, so the
// plurality is never tied in the exact-match / uniform harnesses.
use super::*;
use crate::linalg::naive::dense_matrix::DenseMatrix;
use crate::math::distance::manhattan::Manhattan;

const LA: f64 = 5.0;
const LB: f64 = 8.0;

fn pick_label() -> (bool, f64) {
    let b: bool = kani::any();
    (b, if b { LB } else { LA })
}

fn col(vals: &[f64]) -> DenseMatrix<f64> {
    // n x 1 matrix (one column: row-major and column-major storage coincide)
    let mut v: Vec<f64> = Vec::with_capacity(vals.len());
    let mut i = 0;
    while i < vals.len() {
        v.push(vals[i]);
        i += 1;
    }
    DenseMatrix::new(vals.len(), 1, v)
}

fn params(weight: KNNWeightFunction, k: usize) -> KNNClassifierParameters<f64, Manhattan> {
    KNNClassifierParameters {
        distance: Manhattan {},
        algorithm: KNNAlgorithmName::LinearSearch,
        weight,
        k,
        t: PhantomData,
    }
}

fn fit_predict_one(x: &[f64], y: Vec<f64>, weight: KNNWeightFunction, k: usize, q: f64) -> Option<f64> {
    let xm = col(x);
    let knn = match KNNClassifier::fit(&xm, &y, params(weight, k)) {
        Ok(m) => m,
        Err(_) => {
            assert!(false, "KNNClassifier::fit: succeeds for |x| = |y| and k > 1");
            return None;
        }
    };
    let qm = col(&[q]);
    let r: Vec<f64> = match knn.predict(&qm) {
        Ok(r) => r,
        Err(_) => {
            assert!(false, "KNNClassifier::predict: succeeds for 1 < k <= n");
            return None;
        }
    };
    assert!(r.len() == 1, "KNNClassifier::predict: one prediction per query row");
    Some(r[0])
}

/// majority of three labels drawn from {LA, LB}
fn maj3(a: bool, b: bool, c: bool) -> f64 {
    if (a && b) || (a && c) || (b && c) {
        LB
    } else {
        LA
    }
}

// x = [[1],[1],[1],[4]] (three duplicated rows), query [1], k = 3, distance weighting: the three exact matches take all the
// weight (1 each), so the prediction is the majority label of rows 0..2 whatever their order in the search result.
#[kani::proof]
#[kani::unwind(6)]
fn c04_knncls_distance_dups_k3() {
    let (b0, y0) = pick_label();
    let (b1, y1) = pick_label();
    let (b2, y2) = pick_label();
    let (_b3, y3) = pick_label();
    let y = vec![y0, y1, y2, y3];
    if let Some(p) = fit_predict_one(&[1.0, 1.0, 1.0, 4.0], y, KNNWeightFunction::Distance, 3, 1.0) {
        assert!(p == maj3(b0, b1, b2), "KNNClassifier::predict: the distance-weighted plurality class over the k nearest neighbours (exact matches take all the weight)");
        // the first exact match is in the minority
        kani::cover!(b0 != b1 && b1 == b2 && p == y1);
    }
}

// x = [[0],[1],[2],[10]], query [1.1], k = 3, uniform weighting: plurality of the labels of rows 0, 1, 2.
#[kani::proof]
#[kani::unwind(6)]
fn c04_knncls_uniform_k3() {
    let (b0, y0) = pick_label();
    let (b1, y1) = pick_label();
    let (b2, y2) = pick_label();
    let (_b3, y3) = pick_label();
    let y = vec![y0, y1, y2, y3];
    if let Some(p) = fit_predict_one(&[0.0, 1.0, 2.0, 10.0], y, KNNWeightFunction::Uniform, 3, 1.1) {
        assert!(p == maj3(b0, b1, b2), "KNNClassifier::predict: the uniform plurality class over the k nearest neighbours");
        kani::cover!(b1 != b0 && b0 == b2 && p == y0);
    }
}

// x = [[0],[3],[3.5]], query [0.5], k = 3, distance weighting, no exact match: the weights are 1/0.5 = 2, 1/2.5 = 0.4 and
// 1/3, so row 0 outweighs rows 1 and 2 together (0.733..) and the prediction is the label of row 0 - also when rows 1 and 2
// agree against it (where the uniform plurality would say otherwise).
#[kani::proof]
#[kani::unwind(5)]
fn c04_knncls_distance_inverse_k3() {
    let (b0, y0) = pick_label();
    let (b1, y1) = pick_label();
    let (b2, y2) = pick_label();
    let y = vec![y0, y1, y2];
    if let Some(p) = fit_predict_one(&[0.0, 3.0, 3.5], y, KNNWeightFunction::Distance, 3, 0.5) {
        assert!(p == y0, "KNNClassifier::predict: the inverse-distance weighted plurality class over the k nearest neighbours (no exact match)");
        kani::cover!(b0 != b1 && b1 == b2 && p == y0);
    }
}

// the same obligation on the smallest shape showing it: x = [[1],[1],[1]] (all rows duplicated), query [1], k = 3 = n.
#[kani::proof]
#[kani::unwind(4)]
fn c04_knncls_distance_dups_n3_k3() {
    let (b0, y0) = pick_label();
    let (b1, y1) = pick_label();
    let (b2, y2) = pick_label();
    let y = vec![y0, y1, y2];
    if let Some(p) = fit_predict_one(&[1.0, 1.0, 1.0], y, KNNWeightFunction::Distance, 3, 1.0) {
        assert!(p == maj3(b0, b1, b2), "KNNClassifier::predict: the distance-weighted plurality class over the k nearest neighbours (exact matches take all the weight)");
        let _ = y2;
        kani::cover!(b0 != b1 && b1 == b2 && p == y1);
    }
}

// predict_for_row ALONE on a hand-built fitted state (fit's label -> class-index step is NOT executed here): classes = [5, 8],
// the class index of each training row symbolic in {0, 1}, the search structure built by the real KNNAlgorithmName::fit
// (LinearSearch) over x = [[1],[1],[1]]; query [1], k = 3, distance weighting.  The size of the vote vector is then a constant.
#[kani::proof]
#[kani::unwind(4)]
fn c04_knncls_pfr_distance_dups_n3_k3() {
    let b0: bool = kani::any();
    let b1: bool = kani::any();
    let b2: bool = kani::any();
    let data: Vec<Vec<f64>> = vec![vec![1.0], vec![1.0], vec![1.0]];
    let alg = match KNNAlgorithmName::LinearSearch.fit(data, Manhattan {}) {
        Ok(a) => a,
        Err(_) => {
            assert!(false, "KNNAlgorithmName::fit: succeeds");
            return;
        }
    };
    let knn: KNNClassifier<f64, Manhattan> = KNNClassifier {
        classes: vec![LA, LB],
        y: vec![b0 as usize, b1 as usize, b2 as usize],
        knn_algorithm: alg,
        weight: KNNWeightFunction::Distance,
        k: 3,
    };
    match knn.predict_for_row(vec![1.0]) {
        Ok(ci) => {
            let want = if (b0 && b1) || (b0 && b2) || (b1 && b2) { 1 } else { 0 };
            assert!(ci == want, "KNNClassifier::predict_for_row: the distance-weighted plurality class over the k nearest neighbours (exact matches take all the weight)");
            kani::cover!(b0 != b1 && b1 == b2 && ci == b1 as usize);
        }
        Err(_) => assert!(false, "KNNClassifier::predict_for_row: succeeds for 1 <= k <= n"),
    }
}
