// Kani harnesses for C04 (k-NN classifier), child module of src/neighbors/knn_classifier.rs.
// KNNClassifier::predict_for_row: "the prediction is the class with the largest total weight among the k nearest
// neighbours (weighted plurality)".  The estimator is assembled field by field (fit is a whole-algorithm function and
// is not harnessed): n = 3 training points, two classes, the linear search over the harness metric below, fixed k.
//
// Points are one-element rows [id]; the metric is a symbolic symmetric table with entries from {0.0, 1.0, 2.0, 3.0}
// indexed by id; the query is the row [3.0], a point outside the training set.  Labels y[i] in {0, 1} are symbolic.
// The votes are recounted in integers over the neighbours that `find` (harnessed on its own in c04_linear_knn.rs)
// returns for the same query.
use super::*;
use crate::algorithm::neighbour::linear_search::LinearKNNSearch;

const IDS: usize = 4;

#[derive(Clone)]
struct TableMetricV {
    t: [[f64; IDS]; IDS],
}

impl Distance<Vec<f64>, f64> for TableMetricV {
    fn distance(&self, a: &Vec<f64>, b: &Vec<f64>) -> f64 {
        self.t[a[0] as usize][b[0] as usize]
    }
}

fn pick_d(lo: u8) -> f64 {
    let s: u8 = kani::any();
    kani::assume(s >= lo && s < 4);
    match s {
        0 => 0.0,
        1 => 1.0,
        2 => 2.0,
        _ => 3.0,
    }
}

/// symmetric, zero diagonal; `lo` = 1 excludes exact matches (distance 0) between different ids
fn any_table(lo: u8) -> TableMetricV {
    let mut t = [[0.0f64; IDS]; IDS];
    for a in 0..IDS {
        for b in (a + 1)..IDS {
            let d = pick_d(lo);
            t[a][b] = d;
            t[b][a] = d;
        }
    }
    TableMetricV { t }
}

fn training_rows() -> Vec<Vec<f64>> {
    vec![vec![0.0], vec![1.0], vec![2.0]]
}

fn any_labels() -> [usize; 3] {
    let y: [usize; 3] = kani::any();
    kani::assume(y[0] < 2 && y[1] < 2 && y[2] < 2);
    y
}

fn classifier(metric: TableMetricV, y: [usize; 3], weight: KNNWeightFunction, k: usize) -> KNNClassifier<f64, TableMetricV> {
    let search = match LinearKNNSearch::new(training_rows(), metric) {
        Ok(s) => s,
        Err(_) => {
            kani::assume(false);
            loop {}
        }
    };
    KNNClassifier {
        classes: vec![0.0, 1.0],
        y: vec![y[0], y[1], y[2]],
        knn_algorithm: KNNAlgorithm::LinearSearch(search),
        weight,
        k,
    }
}

// uniform weights: plurality of the labels of the k nearest neighbours (fit refuses k <= 1, so k = 2, 3)
macro_rules! h_classify_uniform {
    ($name:ident, $k:expr, $unw:expr) => {
        #[kani::proof]
        #[kani::unwind($unw)]
        fn $name() {
            const K: usize = $k;
            let metric = any_table(0);
            let y = any_labels();
            let knn = classifier(metric, y, KNNWeightFunction::Uniform, K);
            let mut votes = [0usize; 2];
            {
                let nb = match knn.knn_algorithm.find(&vec![3.0], K) {
                    Ok(nb) => nb,
                    Err(_) => {
                        assert!(false, "KNNClassifier::predict_for_row: the neighbour query succeeds for 1 <= k <= n");
                        return;
                    }
                };
                assert!(nb.len() == K, "KNNClassifier::predict_for_row: k neighbours are consulted");
                for e in 0..K {
                    votes[y[nb[e].0]] += 1;
                }
            }
            let c = match knn.predict_for_row(vec![3.0]) {
                Ok(c) => c,
                Err(_) => {
                    assert!(false, "KNNClassifier::predict_for_row: succeeds for 1 <= k <= n");
                    return;
                }
            };
            assert!(c < 2, "KNNClassifier::predict_for_row: the prediction is a class index");
            assert!(votes[c] >= votes[1 - c], "KNNClassifier::predict_for_row (uniform weights): no class has more of the k nearest neighbours than the predicted one");
            assert!(votes[c] >= 1, "KNNClassifier::predict_for_row (uniform weights): the predicted class occurs among the k nearest neighbours");
            kani::cover!(c == 1 && votes[0] + 1 == votes[1]);
            kani::cover!(c == 0 && votes[1] > 0);
        }
    };
}
h_classify_uniform!(c04_knn_classify_uniform_n3_k2, 2, 10);
h_classify_uniform!(c04_knn_classify_uniform_n3_k3, 3, 10);

// distance weights, an exact match (distance 0) of the query among the training points, k = n = 3:
// the exact matches take all the weight, so the prediction is a class of an exact match.
#[kani::proof]
#[kani::unwind(10)]
fn c04_knn_classify_exact_match_n3_k3() {
    let metric = any_table(0);
    let y = any_labels();
    let t = metric.t;
    kani::assume(t[3][0] == 0.0 || t[3][1] == 0.0 || t[3][2] == 0.0);
    let knn = classifier(metric, y, KNNWeightFunction::Distance, 3);
    let c = match knn.predict_for_row(vec![3.0]) {
        Ok(c) => c,
        Err(_) => {
            assert!(false, "KNNClassifier::predict_for_row: succeeds for 1 <= k <= n");
            return;
        }
    };
    let mut exact = [0usize; 2];
    for i in 0..3 {
        if t[3][i] == 0.0 {
            exact[y[i]] += 1;
        }
    }
    assert!(c < 2, "KNNClassifier::predict_for_row: the prediction is a class index");
    assert!(exact[c] >= 1 && exact[c] >= exact[1 - c], "KNNClassifier::predict_for_row (distance weights): exact-match neighbours take all the weight (the prediction is the plurality class of the exact matches)");
    kani::cover!(c == 1 && exact[0] == 0 && y[0] == 0 && y[1] == 0);
}
