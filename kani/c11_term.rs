// Shared by the C11 fit harness modules (textually included with `include!`): `Q`, a number type whose arithmetic is the FREE
// TERM ALGEBRA.  The naive Bayes `fit` functions are generic over `T: RealNumber`; instantiated with T = Q every value they
// compute IS the expression that computed it (which operations, on which operands, in which order), so a harness can compare a
// reported statistic with the formula the property names -- e.g. ln((count + alpha) / (class_count + n_categories * alpha)) --
// exactly, with integer reasoning only (CBMC does not terminate on symbolic float division, and has no exact ln).
// This is the bounded counterpart of assumption A-ABS of the Verus units (arithmetic uninterpreted; formula and evaluation
// order fixed, rounding not modelled).  Nothing is assumed about +,-,*,/,ln beyond "equal terms are equal".
//
// Representation: a complete binary tree of depth Q_DEPTH in heap layout (node i has children 2i+1, 2i+2); a node is
// (op, val) packed into one u32 (op << 16 | val as u16); 0 = empty.  Leaves: INT(v) (data values, conversions from integers, zero/one/two) and SYM(k) (named
// unknown non-negative constants such as alpha).  Building a term deeper than Q_DEPTH sets `ovf` (harnesses assert !ovf).
// Comparisons: INT leaves compare by value; SYM(k) is greater than every INT and ordered by k (alpha < 0 is false);
// anything else is incomparable (partial_cmp = None) and equal only if structurally identical.
// Q_DEPTH is defined by the including module (5 for the count-based variants, 6 for the Gaussian moments).
const Q_NODES: usize = (1 << Q_DEPTH) - 1;

const OP_NONE: u8 = 0;
const OP_INT: u8 = 1;
const OP_SYM: u8 = 2;
const OP_ADD: u8 = 3;
const OP_SUB: u8 = 4;
const OP_MUL: u8 = 5;
const OP_DIV: u8 = 6;
const OP_NEG: u8 = 7;
const OP_LN: u8 = 8;
const OP_EXP: u8 = 9;
const OP_POWI: u8 = 10; // val = exponent
const OP_POWF: u8 = 11;
const OP_SQRT: u8 = 12;
const OP_OTHER: u8 = 13; // any other function: val = function id

#[derive(Clone, Copy)]
pub(crate) struct Q {
    node: [u32; Q_NODES],
    ovf: bool,
}

const fn q_pack(op: u8, v: i32) -> u32 {
    ((op as u32) << 16) | ((v as i16) as u16 as u32)
}

impl Q {
    fn leaf(op: u8, v: i32) -> Q {
        let mut q = Q { node: [0u32; Q_NODES], ovf: false };
        q.node[0] = q_pack(op, v);
        q
    }
    pub(crate) fn int(v: i32) -> Q {
        Q::leaf(OP_INT, v)
    }
    pub(crate) fn sym(k: i32) -> Q {
        Q::leaf(OP_SYM, k)
    }
    fn op0(&self) -> u8 {
        (self.node[0] >> 16) as u8
    }
    fn val0(&self) -> i32 {
        (self.node[0] as u16) as i16 as i32
    }
    pub(crate) fn is_int(&self) -> bool {
        self.op0() == OP_INT
    }
    pub(crate) fn overflowed(&self) -> bool {
        self.ovf
    }
    // place `src` as the subtree rooted at node `root` (1 = left child of the root, 2 = right child)
    fn graft(&mut self, root: usize, src: &Q) {
        // level l of src (nodes 2^l-1 .. 2^(l+1)-2) goes to level l+1 of self, offset by the position of `root` in level 1
        let mut l = 0;
        while l + 1 < Q_DEPTH {
            let width = 1usize << l;
            let src_first = width - 1;
            let dst_first = (2 * width - 1) + (root - 1) * width;
            let mut k = 0;
            while k < width {
                self.node[dst_first + k] = src.node[src_first + k];
                k += 1;
            }
            l += 1;
        }
        // the last level of src does not fit
        let last_first = (1usize << (Q_DEPTH - 1)) - 1;
        let mut k = last_first;
        while k < Q_NODES {
            if src.node[k] != 0 {
                self.ovf = true;
            }
            k += 1;
        }
        if src.ovf {
            self.ovf = true;
        }
    }
    pub(crate) fn un(op: u8, v: i32, a: Q) -> Q {
        let mut q = Q::leaf(op, v);
        q.graft(1, &a);
        q
    }
    pub(crate) fn bin(op: u8, a: Q, b: Q) -> Q {
        let mut q = Q::leaf(op, 0);
        q.graft(1, &a);
        q.graft(2, &b);
        q
    }
    pub(crate) fn t_add(a: Q, b: Q) -> Q {
        Q::bin(OP_ADD, a, b)
    }
    pub(crate) fn t_sub(a: Q, b: Q) -> Q {
        Q::bin(OP_SUB, a, b)
    }
    pub(crate) fn t_mul(a: Q, b: Q) -> Q {
        Q::bin(OP_MUL, a, b)
    }
    pub(crate) fn t_div(a: Q, b: Q) -> Q {
        Q::bin(OP_DIV, a, b)
    }
    pub(crate) fn t_ln(a: Q) -> Q {
        Q::un(OP_LN, 0, a)
    }
    pub(crate) fn t_powi(a: Q, n: i32) -> Q {
        Q::un(OP_POWI, n, a)
    }
    fn other(id: i32, a: Q) -> Q {
        Q::un(OP_OTHER, id, a)
    }
}

// structural equality, written as an explicit loop (the derived array comparison is a memcmp over bytes: a longer unwinding)
impl PartialEq for Q {
    fn eq(&self, o: &Q) -> bool {
        let mut e = self.ovf == o.ovf;
        let mut i = 0;
        while i < Q_NODES {
            if self.node[i] != o.node[i] {
                e = false;
            }
            i += 1;
        }
        e
    }
}

impl std::fmt::Debug for Q {
    fn fmt(&self, f: &mut std::fmt::Formatter<'_>) -> std::fmt::Result {
        f.write_str("Q")
    }
}
impl std::fmt::Display for Q {
    fn fmt(&self, f: &mut std::fmt::Formatter<'_>) -> std::fmt::Result {
        f.write_str("Q")
    }
}

impl PartialOrd for Q {
    fn partial_cmp(&self, o: &Q) -> Option<std::cmp::Ordering> {
        let (a, b) = (self.op0(), o.op0());
        if a == OP_INT && b == OP_INT {
            self.val0().partial_cmp(&o.val0())
        } else if a == OP_SYM && b == OP_INT {
            Some(std::cmp::Ordering::Greater)
        } else if a == OP_INT && b == OP_SYM {
            Some(std::cmp::Ordering::Less)
        } else if a == OP_SYM && b == OP_SYM {
            self.val0().partial_cmp(&o.val0())
        } else if *self == *o {
            Some(std::cmp::Ordering::Equal)
        } else {
            None
        }
    }
}

macro_rules! q_binop {
    ($tr:ident, $m:ident, $atr:ident, $am:ident, $op:expr) => {
        impl std::ops::$tr for Q {
            type Output = Q;
            fn $m(self, o: Q) -> Q {
                Q::bin($op, self, o)
            }
        }
        impl std::ops::$atr for Q {
            fn $am(&mut self, o: Q) {
                *self = Q::bin($op, *self, o);
            }
        }
    };
}
q_binop!(Add, add, AddAssign, add_assign, OP_ADD);
q_binop!(Sub, sub, SubAssign, sub_assign, OP_SUB);
q_binop!(Mul, mul, MulAssign, mul_assign, OP_MUL);
q_binop!(Div, div, DivAssign, div_assign, OP_DIV);
impl std::ops::Rem for Q {
    type Output = Q;
    fn rem(self, o: Q) -> Q {
        Q::bin(OP_OTHER, self, o)
    }
}
impl std::ops::Neg for Q {
    type Output = Q;
    fn neg(self) -> Q {
        Q::un(OP_NEG, 0, self)
    }
}
impl std::iter::Sum for Q {
    fn sum<I: Iterator<Item = Q>>(iter: I) -> Q {
        let mut acc = Q::int(0);
        for x in iter {
            acc = acc + x;
        }
        acc
    }
}
impl std::iter::Product for Q {
    fn product<I: Iterator<Item = Q>>(iter: I) -> Q {
        let mut acc = Q::int(1);
        for x in iter {
            acc = acc * x;
        }
        acc
    }
}
impl num_traits::Zero for Q {
    fn zero() -> Q {
        Q::int(0)
    }
    fn is_zero(&self) -> bool {
        self.op0() == OP_INT && self.val0() == 0
    }
}
impl num_traits::One for Q {
    fn one() -> Q {
        Q::int(1)
    }
}
impl num_traits::Num for Q {
    type FromStrRadixErr = ();
    fn from_str_radix(_s: &str, _r: u32) -> Result<Q, ()> {
        Err(())
    }
}
impl num_traits::ToPrimitive for Q {
    fn to_i64(&self) -> Option<i64> {
        if self.op0() == OP_INT {
            Some(self.val0() as i64)
        } else {
            None
        }
    }
    fn to_u64(&self) -> Option<u64> {
        if self.op0() == OP_INT && self.val0() >= 0 {
            Some(self.val0() as u64)
        } else {
            None
        }
    }
}
impl num_traits::NumCast for Q {
    fn from<N: num_traits::ToPrimitive>(n: N) -> Option<Q> {
        match n.to_i64() {
            Some(v) => Some(Q::int(v as i32)),
            None => None,
        }
    }
}
impl num_traits::FromPrimitive for Q {
    fn from_i64(n: i64) -> Option<Q> {
        Some(Q::int(n as i32))
    }
    fn from_u64(n: u64) -> Option<Q> {
        Some(Q::int(n as i32))
    }
}

macro_rules! q_const {
    ($($m:ident => $id:expr),*) => { $(fn $m() -> Q { Q::sym($id) })* };
}
macro_rules! q_un {
    ($($m:ident => $id:expr),*) => { $(fn $m(self) -> Q { Q::other($id, self) })* };
}
macro_rules! q_bin {
    ($($m:ident => $id:expr),*) => { $(fn $m(self, o: Q) -> Q { let mut q = Q::bin(OP_OTHER, self, o); q.node[0] = q_pack(OP_OTHER, $id); q })* };
}
impl num_traits::Float for Q {
    q_const!(nan => 100, infinity => 101, neg_infinity => 102, neg_zero => 103, min_value => 104, min_positive_value => 105,
             max_value => 106, epsilon => 107);
    fn is_nan(self) -> bool {
        false
    }
    fn is_infinite(self) -> bool {
        false
    }
    fn is_finite(self) -> bool {
        true
    }
    fn is_normal(self) -> bool {
        true
    }
    fn classify(self) -> std::num::FpCategory {
        std::num::FpCategory::Normal
    }
    // data values and counts are integers: floor/ceil/round/trunc of an INT leaf is the leaf itself
    fn floor(self) -> Q {
        if self.op0() == OP_INT {
            self
        } else {
            Q::other(1, self)
        }
    }
    fn ceil(self) -> Q {
        if self.op0() == OP_INT {
            self
        } else {
            Q::other(2, self)
        }
    }
    fn round(self) -> Q {
        if self.op0() == OP_INT {
            self
        } else {
            Q::other(3, self)
        }
    }
    fn trunc(self) -> Q {
        if self.op0() == OP_INT {
            self
        } else {
            Q::other(4, self)
        }
    }
    q_un!(fract => 5, abs => 6, signum => 7, recip => 8, exp2 => 9, log2 => 10, log10 => 11, cbrt => 12, sin => 13, cos => 14,
          tan => 15, asin => 16, acos => 17, atan => 18, exp_m1 => 19, ln_1p => 20, sinh => 21, cosh => 22, tanh => 23,
          asinh => 24, acosh => 25, atanh => 26);
    q_bin!(log => 40, max => 41, min => 42, abs_sub => 43, hypot => 44, atan2 => 45);
    fn is_sign_positive(self) -> bool {
        !(self.op0() == OP_INT && self.val0() < 0)
    }
    fn is_sign_negative(self) -> bool {
        self.op0() == OP_INT && self.val0() < 0
    }
    fn mul_add(self, a: Q, b: Q) -> Q {
        Q::bin(OP_ADD, Q::bin(OP_MUL, self, a), b)
    }
    fn powi(self, n: i32) -> Q {
        Q::un(OP_POWI, n, self)
    }
    fn powf(self, n: Q) -> Q {
        Q::bin(OP_POWF, self, n)
    }
    fn sqrt(self) -> Q {
        Q::un(OP_SQRT, 0, self)
    }
    fn exp(self) -> Q {
        Q::un(OP_EXP, 0, self)
    }
    fn ln(self) -> Q {
        Q::un(OP_LN, 0, self)
    }
    fn sin_cos(self) -> (Q, Q) {
        (Q::other(13, self), Q::other(14, self))
    }
    fn integer_decode(self) -> (u64, i16, i8) {
        (0, 0, 1)
    }
}
impl crate::math::num::RealNumber for Q {
    fn copysign(self, sign: Q) -> Q {
        let mut q = Q::bin(OP_OTHER, self, sign);
        q.node[0] = q_pack(OP_OTHER, 46);
        q
    }
    fn ln_1pe(self) -> Q {
        Q::other(30, self)
    }
    fn sigmoid(self) -> Q {
        Q::other(31, self)
    }
    fn rand() -> Q {
        Q::sym(108)
    }
    fn two() -> Q {
        Q::int(2)
    }
    fn half() -> Q {
        Q::sym(109)
    }
    fn to_f32_bits(self) -> u32 {
        self.val0() as u32
    }
}
