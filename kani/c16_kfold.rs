// Kani harnesses for C16, child module of src/model_selection/kfold.rs.
// Obligation, read off the property: "For every n >= k >= 2, k-fold splitting yields exactly k (train, test) index pairs
// whose test sets partition 0..n-1, differ in size by at most one and are consecutive blocks when shuffling is off, each
// train set being exactly the complement of its test set".
// Concretely (shuffle = false), fold f (0-based, in the order the iterator yields them) must have
//     test  = [start_f, start_f + size_f)            size_f = n/k + (1 if f < n%k else 0)    start_f = sum_{g<f} size_g
//     train = 0..n without that block, increasing
// and after k folds start == n and the iterator is exhausted.
// k is part of the SHAPE (vec![n/k; k], k inner vectors): one harness per concrete (n, k), DESIGN.md section 2.
// The only inputs of the splitter are (n, k, shuffle); the matrix contents are irrelevant (one symbolic f64 fills it, so
// the harness also shows that the values are never looked at).  shuffle = true is NOT covered: the thread_rng stub
// diverges (thread_rng itself is an ICE in kani-compiler), see property.json not_decided.
use super::*;
use crate::linalg::naive::dense_matrix::DenseMatrix;
use crate::linalg::BaseMatrix;

#[allow(dead_code)]
fn verif_diverge_rng() -> rand::rngs::ThreadRng {
    kani::assume(false);
    loop {}
}

macro_rules! kfold_harness {
    ($name:ident, $n:expr, $k:expr, $unw:expr) => {
        #[kani::proof]
        #[kani::unwind($unw)]
        #[kani::stub(rand::thread_rng, verif_diverge_rng)]
        fn $name() {
            const N: usize = $n;
            const K: usize = $k;
            let fill: f64 = kani::any();
            let x: DenseMatrix<f64> = DenseMatrix::fill(N, 1, fill);
            let kf = KFold {
                n_splits: K,
                shuffle: false,
            };
            assert!(kf.n_splits() == K, "kfold: n_splits reports k");
            let mut it = kf.split(&x);
            let mut start = 0usize;
            let mut f = 0usize;
            while f < K {
                let pair = it.next();
                assert!(pair.is_some(), "kfold: split yields at least k (train, test) pairs");
                let (train, test) = pair.unwrap();
                let size = N / K + if f < N % K { 1 } else { 0 };
                assert!(
                    test.len() == size,
                    "kfold: test set sizes are n/k+1 for the first n%k folds and n/k for the rest (differ by at most one, larger first)"
                );
                let mut j = 0;
                while j < test.len() {
                    assert!(
                        test[j] == start + j,
                        "kfold: test sets are consecutive blocks, fold f starting where fold f-1 ended (concatenation is 0..n)"
                    );
                    j += 1;
                }
                assert!(train.len() == N - size, "kfold: train set has n - |test| indices");
                let mut j = 0;
                while j < train.len() {
                    let want = if j < start { j } else { j + size };
                    assert!(
                        train[j] == want,
                        "kfold: train set is exactly the complement of the test block, in increasing order"
                    );
                    j += 1;
                }
                start += size;
                f += 1;
            }
            assert!(start == N, "kfold: the k test blocks cover 0..n exactly");
            assert!(it.next().is_none(), "kfold: split yields exactly k pairs, not more");
            kani::cover!(start == N && f == K);
        }
    };
}

kfold_harness!(c16_kfold_n2_k2, 2, 2, 5);
kfold_harness!(c16_kfold_n3_k2, 3, 2, 6);
kfold_harness!(c16_kfold_n3_k3, 3, 3, 6);
kfold_harness!(c16_kfold_n4_k2, 4, 2, 7);
kfold_harness!(c16_kfold_n4_k3, 4, 3, 7);
kfold_harness!(c16_kfold_n4_k4, 4, 4, 7);
kfold_harness!(c16_kfold_n5_k2, 5, 2, 8);
kfold_harness!(c16_kfold_n5_k3, 5, 3, 8);
kfold_harness!(c16_kfold_n5_k4, 5, 4, 8);
kfold_harness!(c16_kfold_n5_k5, 5, 5, 8);
kfold_harness!(c16_kfold_n6_k2, 6, 2, 9);
kfold_harness!(c16_kfold_n6_k3, 6, 3, 9);
kfold_harness!(c16_kfold_n6_k4, 6, 4, 9);
kfold_harness!(c16_kfold_n6_k5, 6, 5, 9);
kfold_harness!(c16_kfold_n6_k6, 6, 6, 9);
kfold_harness!(c16_kfold_n7_k2, 7, 2, 10);
kfold_harness!(c16_kfold_n7_k3, 7, 3, 10);
kfold_harness!(c16_kfold_n7_k4, 7, 4, 10);
kfold_harness!(c16_kfold_n7_k5, 7, 5, 10);
kfold_harness!(c16_kfold_n7_k6, 7, 6, 10);
kfold_harness!(c16_kfold_n7_k7, 7, 7, 10);
kfold_harness!(c16_kfold_n8_k2, 8, 2, 11);
kfold_harness!(c16_kfold_n8_k3, 8, 3, 11);
kfold_harness!(c16_kfold_n8_k4, 8, 4, 11);
kfold_harness!(c16_kfold_n8_k5, 8, 5, 11);
kfold_harness!(c16_kfold_n8_k6, 8, 6, 11);
kfold_harness!(c16_kfold_n8_k7, 8, 7, 11);
kfold_harness!(c16_kfold_n8_k8, 8, 8, 11);
// spot shapes beyond the exhaustive bound n <= 8 (index vector > 64 bytes; n%k >= 2; the repo's own numpy-parity shape 10/3)
kfold_harness!(c16_kfold_n9_k2, 9, 2, 12);
kfold_harness!(c16_kfold_n10_k3, 10, 3, 13);
kfold_harness!(c16_kfold_n12_k5, 12, 5, 15);

// n_splits < 2 (outside the property's domain n >= k >= 2): the code refuses (panics) instead of producing a degenerate
// split.  Kani cannot catch a panic, so the obligation is #[kani::should_panic] - ANY panic satisfies it, and when the
// panic disappears Kani prints FAILED without a failed check, which vc reports as inconclusive (exit 2), not as a
// violation with a counterexample.  Pass-only guard, thorough tier.
#[kani::proof]
#[kani::unwind(5)]
#[kani::should_panic]
#[kani::stub(rand::thread_rng, verif_diverge_rng)]
fn c16_kfold_k1_refused() {
    let fill: f64 = kani::any();
    let x: DenseMatrix<f64> = DenseMatrix::fill(3, 1, fill);
    let kf = KFold {
        n_splits: 1,
        shuffle: false,
    };
    // nothing after the refusing call is reachable, so the vacuity guard sits immediately before it
    kani::cover!(kf.n_splits() < 2);
    let _ = kf.split(&x);
}
