// Kani harnesses for C04 (k-NN estimators: neighbour weights), child module of src/neighbors/mod.rs.
// KNNWeightFunction::calc_weights uses iterator closures (any / map / collect) and is not a Verus unit.
//   Uniform:  one weight per neighbour, every weight is 1 (whatever the distances, NaN included: nothing is computed).
//   Distance: if some neighbour is an exact match (distance 0) the exact matches weigh 1 and all others 0 ("an exact-match
//             neighbour takes all the weight"); otherwise the weight is 1 / distance (a closer neighbour weighs more).
// Distances are drawn from {0.0, 1.0, 2.0, 3.0} (the value set of the harness metric of c04_linear_knn.rs); the only
// arithmetic is 1 / d on such a value, and the expected quotient is written as a constant.
use super::*;

fn pick_d() -> (u8, f64) {
    let s: u8 = kani::any();
    kani::assume(s < 4);
    (
        s,
        match s {
            0 => 0.0,
            1 => 1.0,
            2 => 2.0,
            _ => 3.0,
        },
    )
}

macro_rules! h_weights_uniform {
    ($name:ident, $n:expr, $unw:expr) => {
        #[kani::proof]
        #[kani::unwind($unw)]
        fn $name() {
            const N: usize = $n;
            let d: [f64; N] = kani::any();
            let mut dv: Vec<f64> = Vec::with_capacity(N);
            for i in 0..N {
                dv.push(d[i]);
            }
            let w = KNNWeightFunction::Uniform.calc_weights(dv);
            assert!(w.len() == N, "calc_weights (uniform): one weight per neighbour");
            for i in 0..N {
                assert!(w[i] == 1.0, "calc_weights (uniform): every neighbour weighs 1");
            }
            kani::cover!(w.len() == N);
        }
    };
}
h_weights_uniform!(c04_weights_uniform_1, 1, 8);
h_weights_uniform!(c04_weights_uniform_3, 3, 8);

macro_rules! h_weights_distance {
    ($name:ident, $n:expr, $unw:expr) => {
        #[kani::proof]
        #[kani::unwind($unw)]
        fn $name() {
            const N: usize = $n;
            let mut sel = [0u8; N];
            let mut dv: Vec<f64> = Vec::with_capacity(N);
            let mut exact = false;
            for i in 0..N {
                let (s, d) = pick_d();
                sel[i] = s;
                dv.push(d);
                if s == 0 {
                    exact = true;
                }
            }
            let w = KNNWeightFunction::Distance.calc_weights(dv);
            assert!(w.len() == N, "calc_weights (distance): one weight per neighbour");
            for i in 0..N {
                if exact {
                    assert!(w[i] == if sel[i] == 0 { 1.0 } else { 0.0 }, "calc_weights (distance): with an exact match among the neighbours the exact matches weigh 1 and every other neighbour 0");
                } else {
                    let expect = match sel[i] {
                        1 => 1.0,
                        2 => 0.5,
                        _ => 1.0 / 3.0,
                    };
                    assert!(w[i] == expect, "calc_weights (distance): without an exact match the weight is 1 / distance");
                }
            }
            for i in 0..N {
                for j in 0..N {
                    if sel[i] < sel[j] {
                        assert!(w[i] >= w[j], "calc_weights (distance): a closer neighbour never weighs less than a farther one");
                    }
                }
            }
            kani::cover!(exact && w[N - 1] == 1.0);
            kani::cover!(!exact && w[N - 1] == 0.5);
        }
    };
}
h_weights_distance!(c04_weights_distance_1, 1, 8);
h_weights_distance!(c04_weights_distance_2, 2, 8);
h_weights_distance!(c04_weights_distance_3, 3, 8);
