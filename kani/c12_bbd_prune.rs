use super::*;
