// Kani harnesses for C12, child module of src/algorithm/neighbour/bbd_tree.rs: the REAL BBDTree::prune (the pruning test of the
// tree-accelerated assignment step) against its GEOMETRIC definition.  Paired with the Verus unit specs/C12/bbd_prune.rs
// (fallback_for): when somebody rewrites prune with constructs Verus cannot read (iterator adapters, closures, no loop where the
// unit expects one ...) the unit is inconclusive; these harnesses then decide small boxes on the real code.
//
// prune is an associated function (no BBDTree value is needed): prune(center, radius, centroids, best_index, test_index).
// The cell is the box  center +- radius  in dimension D; there are two centroids; best_index and test_index are symbolic in {0, 1}
// (the case best_index == test_index included).  Box centre and centroid coordinates are drawn by symbolic bytes from the constant
// set {0, 1, 2, 3}, half-widths from {1, 2}: all quantities prune computes are small integers, exact in f64, so the harness
// computes the expected answer in INTEGER arithmetic.
//
// Obligations (what specs/C12/bbd_prune.rs + prune_sound.rs prove about the unchanged code, stated geometrically so that the
// harness does not repeat the shape of the code):
//   best_index == test_index                       => false  (the best candidate is never pruned against itself)
//   otherwise: true  iff  EVERY vertex v of the box is at least as close to `best` as to `test`
//                         (|v - test|^2 >= |v - best|^2 for all 2^D vertices; equivalently, at the vertex that is extreme in
//                          direction test - best:  |test - best|^2 >= 2 (v - best).(test - best))
// "true although some vertex is closer to test" is the over-pruning that makes the assignment differ from exhaustive search;
// "false although no vertex is" is the contract of the unit (prune-is-the-extreme-vertex-comparison), a lost optimisation.
use super::*;

const COORD: [f64; 4] = [0.0, 1.0, 2.0, 3.0];
const HALF: [f64; 3] = [0.0, 1.0, 2.0];

// a coordinate 0..4 from one symbolic byte
fn verif_coord() -> usize {
    let b: u8 = kani::any();
    kani::assume(b < 4);
    b as usize
}

// a half-width 1..=2 from one symbolic byte
fn verif_half() -> usize {
    let b: u8 = kani::any();
    kani::assume(b == 1 || b == 2);
    b as usize
}

macro_rules! verif_each_vertex {
    ([$($i:expr),*], $v:ident, $body:block) => {
        $( { let $v: usize = $i; $body } )*
    };
}

macro_rules! prune_harness {
    ($name:ident, $d:expr, $unw:expr) => {
        #[kani::proof]
        #[kani::unwind($unw)]
        fn $name() {
            const D: usize = $d;
            let mut ic = [0i32; D]; // box centre
            let mut ir = [0i32; D]; // box half-widths
            let mut icent = [[0i32; D]; 2]; // the two centroids
            let mut center: Vec<f64> = Vec::with_capacity(D);
            let mut radius: Vec<f64> = Vec::with_capacity(D);
            let mut c0: Vec<f64> = Vec::with_capacity(D);
            let mut c1: Vec<f64> = Vec::with_capacity(D);
            let mut a = 0;
            while a < D {
                let c = verif_coord();
                let h = verif_half();
                let x0 = verif_coord();
                let x1 = verif_coord();
                ic[a] = c as i32;
                ir[a] = h as i32;
                icent[0][a] = x0 as i32;
                icent[1][a] = x1 as i32;
                center.push(COORD[c]);
                radius.push(HALF[h]);
                c0.push(COORD[x0]);
                c1.push(COORD[x1]);
                a += 1;
            }
            let mut centroids: Vec<Vec<f64>> = Vec::with_capacity(2);
            centroids.push(c0);
            centroids.push(c1);
            let best_index: usize = if kani::any() { 1 } else { 0 };
            let test_index: usize = if kani::any() { 1 } else { 0 };

            let r = BBDTree::<f64>::prune(&center, &radius, &centroids, best_index, test_index);

            if best_index == test_index {
                assert!(!r, "prune: the best candidate is never pruned against itself (best_index == test_index gives false)");
            } else {
                let best = icent[best_index];
                let test = icent[test_index];
                // every vertex of the box at least as close to best as to test?
                let mut all_vertices_best = true;
                // (straight-line over the vertex numbers: the unwinding bound of the harness stays d + 1, what prune itself needs)
                verif_each_vertex!([0, 1, 2, 3], mask, {
                    if mask < (1 << D) {
                        let mut to_best = 0i32;
                        let mut to_test = 0i32;
                        let mut a = 0;
                        while a < D {
                            let v = if (mask >> a) & 1 == 1 { ic[a] + ir[a] } else { ic[a] - ir[a] };
                            to_best += (v - best[a]) * (v - best[a]);
                            to_test += (v - test[a]) * (v - test[a]);
                            a += 1;
                        }
                        if to_test < to_best {
                            all_vertices_best = false;
                        }
                    }
                });
                assert!(
                    !r || all_vertices_best,
                    "prune: a candidate is pruned only if NO vertex of the cell is closer to it than to the best candidate (no over-pruning)"
                );
                assert!(
                    r || !all_vertices_best,
                    "prune: a candidate is pruned whenever every vertex of the cell is at least as close to the best candidate (extreme-vertex comparison)"
                );
            }
            // vacuity guard: a candidate at a different place than the best one is pruned
            kani::cover!(r && best_index != test_index && icent[0][0] != icent[1][0]);
        }
    };
}

//             name          d  unwind (prune loops d times; dropping the two centroids is a loop of 2 iterations)
prune_harness!(c12_prune_d1, 1, 3);
prune_harness!(c12_prune_d2, 2, 3);
