// Helper module for the C06 forest harnesses (kani/c06_forest_cls.rs), child module of src/tree/decision_tree_classifier.rs:
// constructors of HAND-MADE member trees.  The fields of DecisionTreeClassifier / Node are private to that file, and this module
// is itself a private child of it, so the constructors are inherent `pub(crate)` methods (reachable from
// src/ensemble/random_forest_classifier.rs as `DecisionTreeClassifier::<f64>::verif_stump(..)`, whatever the module privacy).
// It is injected through the `also_inject` key of the forest harness entries; it contains no harness of its own.
//
// A tree is what `DecisionTreeClassifier::predict_for_row` reads: `nodes[0]` is the root; a node with no children is a leaf and
// its `output` (a class INDEX) is the prediction; an inner node sends the row to `true_child` when
// x[row, split_feature] <= split_value.
use super::*;

impl DecisionTreeClassifier<f64> {
    fn verif_tree(nodes: Vec<Node<f64>>, num_classes: usize, depth: u16) -> Self {
        let mut classes: Vec<f64> = Vec::with_capacity(num_classes);
        let mut c = 0;
        while c < num_classes {
            classes.push(c as f64);
            c += 1;
        }
        DecisionTreeClassifier {
            nodes,
            parameters: DecisionTreeClassifierParameters {
                criterion: SplitCriterion::Gini,
                max_depth: None,
                min_samples_leaf: 1,
                min_samples_split: 2,
            },
            num_classes,
            classes,
            depth,
        }
    }

    // one-node tree (a leaf at the root): votes for class index `output` on every row
    pub(crate) fn verif_stump(output: usize, num_classes: usize) -> Self {
        let mut nodes: Vec<Node<f64>> = Vec::with_capacity(1);
        nodes.push(Node {
            _index: 0,
            output,
            split_feature: 0,
            split_value: None,
            split_score: None,
            true_child: None,
            false_child: None,
        });
        Self::verif_tree(nodes, num_classes, 0)
    }

    // three-node tree: votes `lo` for rows with x[row, feature] <= threshold, `hi` for the others
    pub(crate) fn verif_split(feature: usize, threshold: f64, lo: usize, hi: usize, num_classes: usize) -> Self {
        let mut nodes: Vec<Node<f64>> = Vec::with_capacity(3);
        nodes.push(Node {
            _index: 0,
            output: 0,
            split_feature: feature,
            split_value: Some(threshold),
            split_score: None,
            true_child: Some(1),
            false_child: Some(2),
        });
        nodes.push(Node {
            _index: 1,
            output: lo,
            split_feature: 0,
            split_value: None,
            split_score: None,
            true_child: None,
            false_child: None,
        });
        nodes.push(Node {
            _index: 2,
            output: hi,
            split_feature: 0,
            split_value: None,
            split_score: None,
            true_child: None,
            false_child: None,
        });
        Self::verif_tree(nodes, num_classes, 1)
    }
}
