// Kani harnesses for C06, child module of src/ensemble/random_forest_classifier.rs:
// RandomForestClassifier::sample_with_replacement (the STRATIFIED bootstrap of the classifier forest).
//
// The function is not a Verus unit (`n_samples as f64`, `.iter().enumerate().take(..)` are outside the subset), so the clause
//   "every bootstrap sample of the classifier contains at least one row of every class (the resampling is stratified)"
// is checked bounded: one harness per CONCRETE label vector y (shape = length, number of classes, class layout), for EVERY
// sequence of random draws.  Obligations read off the property (yi = class index per row, k classes, result = per-row multiplicities):
//   * one multiplicity per row;
//   * stratified: for every class l, the multiplicities of the rows of class l sum to the number n_l of rows of class l
//     (each class is resampled to its own size), hence
//   * every class that occurs in y keeps at least one row in the sample (the clause of the property), and
//   * the multiplicities sum to n.
//
// The random source.  rand 0.8 `gen_range(0..r)` (usize) draws v = next_u64() and accepts when the low word of v*r is <= zone(r),
// otherwise it draws again (rejection loop, unbounded).  The stand-in generator returns, for the d-th draw, an ARBITRARY v among the
// values rand ACCEPTS for the range r_d of that draw (kani::assume), so every outcome 0..r_d of every draw is covered and the
// rejection loop runs once.  r_d is computed here from y alone: classes in ascending order, class l contributes n_l draws of range
// n_l.  A change of the code that alters the number or the ranges of the draws can make a draw rejectable; the harness then ends with
// a failing unwinding assertion (= inconclusive, not a pass).
use super::*;
use rand::RngCore;

const MAXN: usize = 6;

struct VerifRng {
    ranges: [usize; MAXN], // range of the d-th draw (0 beyond the last scheduled draw)
    pos: usize,            // draws made so far
}

impl RngCore for VerifRng {
    fn next_u32(&mut self) -> u32 {
        self.next_u64() as u32
    }
    fn next_u64(&mut self) -> u64 {
        let r = if self.pos < MAXN { self.ranges[self.pos] } else { 0 };
        self.pos += 1;
        if r == 0 {
            return 0; // unscheduled draw: v = 0 is accepted for every range (outcome 0)
        }
        let v: u64 = kani::any();
        let lo = ((v as u128) * (r as u128)) as u64;
        let zone = ((r as u64) << (r as u64).leading_zeros()).wrapping_sub(1);
        kani::assume(lo <= zone); // v is one of the values rand accepts for range r
        v
    }
    fn fill_bytes(&mut self, dest: &mut [u8]) {
        let mut i = 0;
        while i < dest.len() {
            dest[i] = 0;
            i += 1;
        }
    }
    fn try_fill_bytes(&mut self, dest: &mut [u8]) -> Result<(), rand::Error> {
        self.fill_bytes(dest);
        Ok(())
    }
}

// The call goes through an adapter that accepts either calling convention of the bootstrap function, so that a change of its
// SIGNATURE does not turn every harness into "does not compile" (= inconclusive):
//   (y: &[usize], num_classes: usize, rng)   the stratified sampler of the unchanged tree: called exactly as before;
//   (nrows: usize, rng)                       a sampler that is not even told the labels (the regressor's convention): called
//                                             with y.len(); the obligations below are the same, so a sampler that ignores the
//                                             classes is a VIOLATION of "stratified", with a concrete draw sequence.
// The marker parameter only selects the impl from the function's own signature (no runtime behaviour).
trait VerifSampler<Marker> {
    fn verif_call(&self, y: &[usize], k: usize, rng: &mut VerifRng) -> Vec<usize>;
}
impl<F: Fn(&[usize], usize, &mut VerifRng) -> Vec<usize>> VerifSampler<(u8, u8, u8)> for F {
    fn verif_call(&self, y: &[usize], k: usize, rng: &mut VerifRng) -> Vec<usize> {
        self(y, k, rng)
    }
}
impl<F: Fn(usize, &mut VerifRng) -> Vec<usize>> VerifSampler<(u8, u8)> for F {
    fn verif_call(&self, y: &[usize], _k: usize, rng: &mut VerifRng) -> Vec<usize> {
        self(y.len(), rng)
    }
}
fn verif_draw<Marker, S: VerifSampler<Marker>>(s: S, y: &[usize], k: usize, rng: &mut VerifRng) -> Vec<usize> {
    s.verif_call(y, k, rng)
}

macro_rules! sample_harness {
    ($name:ident, $n:expr, $k:expr, $y:expr, $unw:expr) => {
        #[kani::proof]
        #[kani::unwind($unw)]
        fn $name() {
            const N: usize = $n;
            const K: usize = $k;
            let y: [usize; N] = $y;
            // class sizes and the schedule of draw ranges, from y alone
            let mut size = [0usize; K];
            let mut i = 0;
            while i < N {
                size[y[i]] += 1;
                i += 1;
            }
            let mut ranges = [0usize; MAXN];
            let mut d = 0;
            let mut l = 0;
            while l < K {
                let mut j = 0;
                while j < size[l] {
                    ranges[d] = size[l];
                    d += 1;
                    j += 1;
                }
                l += 1;
            }
            let mut rng = VerifRng { ranges, pos: 0 };

            let samples = verif_draw(RandomForestClassifier::<f64>::sample_with_replacement, &y, K, &mut rng);

            assert!(
                samples.len() == N,
                "sample_with_replacement: one multiplicity per training row"
            );
            let mut total = 0usize;
            let mut l = 0;
            while l < K {
                let mut in_class = 0usize;
                let mut present = false;
                let mut i = 0;
                while i < N {
                    if y[i] == l {
                        in_class += samples[i];
                        present = present || samples[i] > 0;
                    }
                    i += 1;
                }
                assert!(
                    in_class == size[l],
                    "sample_with_replacement: stratified - the rows of each class are resampled to the class's own size"
                );
                assert!(
                    size[l] == 0 || present,
                    "sample_with_replacement: every class that occurs in y keeps at least one row in the bootstrap sample"
                );
                total += in_class;
                l += 1;
            }
            assert!(
                total == N,
                "sample_with_replacement: the multiplicities sum to the number of rows"
            );
            assert!(
                rng.pos == N,
                "sample_with_replacement: exactly n draws are made"
            );
            // vacuity guard: some draw sequence reaches the end, and one in which the LAST row is drawn twice when its class allows it
            kani::cover!(samples.len() == N);
            kani::cover!(samples[N - 1] >= 1);
        }
    };
}

//               name                      n  k  y                    unwind
sample_harness!(c06_strat_n2_k2_01, 2, 2, [0, 1], 5);
sample_harness!(c06_strat_n3_k2_011, 3, 2, [0, 1, 1], 6);
sample_harness!(c06_strat_n4_k2_1010, 4, 2, [1, 0, 1, 0], 7);
sample_harness!(c06_strat_n4_k3_0121, 4, 3, [0, 1, 2, 1], 7);
sample_harness!(c06_strat_n5_k3_20120, 5, 3, [2, 0, 1, 2, 0], 8);
// a class index without rows (k larger than the labels present): gen_range is not reached for it
sample_harness!(c06_strat_n3_k3_002, 3, 3, [0, 0, 2], 6);
