// Kani harnesses for the assumed contract A-WHICH-MAX (specs/prelude/which_max.rs), child module of
// src/tree/decision_tree_classifier.rs.  `which_max` iterates with `x.iter().enumerate().skip(1)` (outside the Verus subset);
// callers are verified against
//     requires x.len() > 0
//     ensures  w < x.len(),  forall j: x[j] <= x[w],  forall j < w: x[j] < x[w]      (FIRST index of a maximal element)
// Discharged here for every slice of length 1..=4 (all usize values).
use super::*;

macro_rules! h_which_max {
    ($name:ident, $n:expr, $unw:expr) => {
        #[kani::proof]
        #[kani::unwind($unw)]
        fn $name() {
            const N: usize = $n;
            let x: [usize; N] = kani::any();
            let w = which_max(&x);
            assert!(w < N, "which_max: the result is an index of the slice");
            for j in 0..N {
                assert!(x[j] <= x[w], "which_max: the indexed element is a maximum");
                if j < w {
                    assert!(x[j] < x[w], "which_max: the result is the FIRST index of a maximal element");
                }
            }
            kani::cover!(w == N - 1);
            kani::cover!(w == 0 && x[0] == x[N - 1]);
        }
    };
}
h_which_max!(c04_which_max_1, 1, 6);
h_which_max!(c04_which_max_2, 2, 6);
h_which_max!(c04_which_max_3, 3, 6);
h_which_max!(c04_which_max_4, 4, 8);
