// Kani harnesses for C04, child module of src/algorithm/neighbour/cover_tree.rs: the REAL CoverTree::find and
// CoverTree::find_radius on HAND-TRANSCRIBED trees.  Paired with the Verus units specs/C04/cover_knn.rs and cover_radius.rs
// (fallback_for): when somebody restructures the descent loop with constructs Verus cannot read (`continue`, iterator
// adapters ...) the unit is inconclusive; these harnesses then decide the queries of two small trees on the real code.
//
// CoverTree::new does not terminate under CBMC (ln / powf in get_scale / get_cover_radius; measured: no answer in 25 min on
// two concrete points), so the tree value is built field by field (this module sees the private fields).  The two trees
// below are NOT invented: they are the trees `CoverTree::new` builds at /repo HEAD for the data sets
//     set a:  [13, 5, 3, 8]          (the data set of seeded change C04-A)
//     set b:  [1, 9, 4, 4, 7, 2]     (six points, one duplicated)
// with the metric |a - b| (as f64), transcribed from the `{:?}` output of the real constructor run NATIVELY.
// To regenerate: in a scratch copy of /repo add to the test module of src/algorithm/neighbour/cover_tree.rs (whose
// SimpleDistance is |a - b| over i32)
//     #[test] fn verif_print_trees() {
//         println!("{:?}", CoverTree::new(vec![13, 5, 3, 8], SimpleDistance {}).unwrap());
//         println!("{:?}", CoverTree::new(vec![1, 9, 4, 4, 7, 2], SimpleDistance {}).unwrap());
//     }
// and run `cargo test --offline --lib verif_print_trees -- --nocapture`.  Printed at the time of writing:
//   a: root Node{idx 0, max_dist 10, parent_dist 0, _scale 0, children [
//          Node{idx 0, max_dist 8, parent_dist 0, _scale 2, children [
//              leaf 0 (parent_dist 0),
//              Node{idx 3, max_dist 3, parent_dist 5, _scale 4, children [leaf 3 (parent_dist 0), leaf 1 (parent_dist 3)]}]},
//          leaf 2 (parent_dist 10)]}
//   b: root Node{idx 0, max_dist 8, parent_dist 0, _scale 1, children [
//          Node{idx 0, max_dist 3, parent_dist 0, _scale 3, children [
//              Node{idx 0, max_dist 1, parent_dist 0, _scale 8, children [leaf 0 (parent_dist 0), leaf 5 (parent_dist 1)]},
//              Node{idx 3, max_dist 0, parent_dist 3, _scale 100, children [leaf 3 (parent_dist 0), leaf 2 (parent_dist 0)]}]},
//          Node{idx 4, max_dist 2, parent_dist 6, _scale 5, children [leaf 4 (parent_dist 0), leaf 1 (parent_dist 2)]}]}
//   (leaf i = Node{idx i, max_dist 0, children [], _scale 100}); base 1.3, inv_log_base 3.8114946867084014 (= 1/ln 1.3).
// A harness of this module says NOTHING about CoverTree::new (if construction changes, the transcription goes stale: it
// remains a well-formed cover tree of the data set, but no longer "the tree new builds").
//
// Points are u8, the query is a symbolic u8 in 0..=16 (data points and outside points, ties included).  The harness metric
// computes |a - b| on the integers and converts the result to f64 (exact); the expected answers are computed by the harness
// in INTEGER arithmetic.
//
// How the symbolic query reaches the code: by a CASE SPLIT in the harness (`if q == c { check(&tree, c) }` for c = 0..=16), so
// that each case calls the real function with a constant query and CBMC decides it by constant propagation; together the 17
// cases are every query in the range.  Measured alternatives (tree a, find_radius), none admitted:
//   * query passed on symbolically, unwind 6:  1.7 M steps, out of memory (20 GB) in propositional reduction;
//   * the same with `Vec::new` preallocated / `realloc_nonnull` asserted unreachable (the stubs of c13_dbscan_predict.rs), the tree
//     never dropped and every harness loop unrolled (unwind 4): 0.49 M steps, 21.9 M variables / 77.6 M clauses, out of memory:
//     the three nested loops of the descent have trip counts that depend on the query, each body pushes (f64, &Node) pairs at a
//     symbolic position and dereferences a &Node read back from such a buffer;
//   * case split WITHOUT `break` (cases merged into each other's path condition), 51 cases: passes, 908 s symex;
//   * case split with `break` (this file): 17 cases, 60 - 160 s symex, solver < 30 s.
// The stubs make no difference once the query is constant (2.3 s vs 3.7 s symex per call), so none are used: the real Vec
// growth path runs.  The radius is fixed per harness (1.0, 2.0, 5.0) to keep one harness at 17 cases.
//
// Obligations (property C04): "a k-nearest query returns exactly k entries whose distances are the k smallest distances
// from the query to the data (every returned distance <= every non-returned one), each entry carrying the true index,
// distance and point; a radius query returns exactly the points within the radius".
use super::*;

#[derive(Debug, Clone)]
struct VerifAbsDiff;

impl Distance<u8, f64> for VerifAbsDiff {
    fn distance(&self, a: &u8, b: &u8) -> f64 {
        let d: u8 = if *a >= *b { *a - *b } else { *b - *a };
        d as f64
    }
}

const QMAX: u8 = 16;

fn verif_leaf(idx: usize, parent_dist: f64) -> Node<f64> {
    Node {
        idx,
        max_dist: 0.0,
        parent_dist,
        children: Vec::new(),
        _scale: 100,
    }
}

fn verif_pair(idx: usize, max_dist: f64, parent_dist: f64, scale: i64, c0: Node<f64>, c1: Node<f64>) -> Node<f64> {
    let mut children: Vec<Node<f64>> = Vec::with_capacity(2);
    children.push(c0);
    children.push(c1);
    Node {
        idx,
        max_dist,
        parent_dist,
        children,
        _scale: scale,
    }
}

fn verif_tree(root: Node<f64>, data: Vec<u8>) -> CoverTree<u8, f64, VerifAbsDiff> {
    CoverTree {
        base: 1.3,
        inv_log_base: 3.8114946867084014,
        distance: VerifAbsDiff,
        root,
        data,
        identical_excluded: false,
    }
}

const DATA_A: [u8; 4] = [13, 5, 3, 8];
const DATA_B: [u8; 6] = [1, 9, 4, 4, 7, 2];

// Straight-line repetition (over the positions of the data vector, over the 17 queries): no harness loop contributes to the
// unwinding bound, which is n + 1 (no loop of a query over n points runs more than n times: tree depth, children per node,
// work-list lengths, the final sort_by of at most n candidates).
macro_rules! verif_each {
    ([$($i:expr),*], $v:ident, $body:block) => {
        $( { let $v: usize = $i; $body } )*
    };
}

// the tree CoverTree::new builds for [13, 5, 3, 8]
fn verif_tree_a() -> CoverTree<u8, f64, VerifAbsDiff> {
    let n3 = verif_pair(3, 3.0, 5.0, 4, verif_leaf(3, 0.0), verif_leaf(1, 3.0));
    let n0 = verif_pair(0, 8.0, 0.0, 2, verif_leaf(0, 0.0), n3);
    let root = verif_pair(0, 10.0, 0.0, 0, n0, verif_leaf(2, 10.0));
    verif_tree(root, vec![13, 5, 3, 8])
}

// the tree CoverTree::new builds for [1, 9, 4, 4, 7, 2]
fn verif_tree_b() -> CoverTree<u8, f64, VerifAbsDiff> {
    let n0b = verif_pair(0, 1.0, 0.0, 8, verif_leaf(0, 0.0), verif_leaf(5, 1.0));
    let n3 = verif_pair(3, 0.0, 3.0, 100, verif_leaf(3, 0.0), verif_leaf(2, 0.0));
    let n0a = verif_pair(0, 3.0, 0.0, 3, n0b, n3);
    let n4 = verif_pair(4, 2.0, 6.0, 5, verif_leaf(4, 0.0), verif_leaf(1, 2.0));
    let root = verif_pair(0, 8.0, 0.0, 1, n0a, n4);
    verif_tree(root, vec![1, 9, 4, 4, 7, 2])
}

fn verif_absdiff(a: u8, b: u8) -> u8 {
    if a >= b {
        a - b
    } else {
        b - a
    }
}

macro_rules! ct_find_harness {
    ($name:ident, $tree:ident, $data:ident, $n:expr, $idx:tt, $k:expr, $unw:expr) => {
        #[kani::proof]
        #[kani::unwind($unw)]
        fn $name() {
            const N: usize = $n;
            const K: usize = $k;
            // the obligations for ONE query; returns whether the nearest returned entry is at a positive distance
            fn check(tree: &CoverTree<u8, f64, VerifAbsDiff>, q: u8) -> bool {
                let r = match tree.find(&q, K) {
                    Ok(r) => core::mem::ManuallyDrop::new(r),
                    Err(_) => {
                        assert!(false, "CoverTree::find: succeeds for 1 <= k <= n");
                        return false;
                    }
                };
                assert!(r.len() == K, "CoverTree::find: returns exactly k entries");
                if r.len() != K {
                    return false;
                }
                let mut dist = [0u8; N];
                verif_each!($idx, i, {
                    dist[i] = verif_absdiff($data[i], q);
                });
                let mut returned = [false; N];
                let mut e = 0;
                while e < K {
                    let (idx, d, p) = r[e];
                    assert!(idx < N, "CoverTree::find: every returned index is a position of the data vector");
                    if idx >= N {
                        return false;
                    }
                    assert!(!returned[idx], "CoverTree::find: no position is returned twice");
                    returned[idx] = true;
                    assert!(d == dist[idx] as f64, "CoverTree::find: each entry carries the true distance from the query to the point at its index");
                    assert!(*p == $data[idx] && core::ptr::eq(p, &tree.data[idx]), "CoverTree::find: each entry carries the point stored at its index");
                    e += 1;
                }
                let mut e = 0;
                while e < K {
                    let de = dist[r[e].0];
                    verif_each!($idx, i, {
                        assert!(
                            returned[i] || de <= dist[i],
                            "CoverTree::find: every returned distance is <= every non-returned one (the k smallest distances)"
                        );
                    });
                    e += 1;
                }
                r[0].1 > 0.0
            }
            // never dropped: the recursive drop glue of Node is no part of the obligation
            let tree = core::mem::ManuallyDrop::new($tree());
            let q: u8 = kani::any();
            kani::assume(q <= QMAX);
            let mut outside = false;
            // case split on the query: every case calls the real function with a CONSTANT query, which CBMC decides by constant
            // propagation; `break` keeps the cases from being merged into each other's path condition
            'cases: {
                verif_each!(
                    [0, 1, 2, 3, 4, 5, 6, 7, 8, 9, 10, 11, 12, 13, 14, 15, 16],
                    c,
                    {
                        if q as usize == c {
                            outside = check(&tree, c as u8);
                            break 'cases;
                        }
                    }
                );
            }
            // vacuity guard: a query that is not a data point was answered
            kani::cover!(outside);
        }
    };
}

macro_rules! ct_radius_harness {
    ($name:ident, $tree:ident, $data:ident, $n:expr, $idx:tt, $radius:expr, $ri:expr, $unw:expr) => {
        #[kani::proof]
        #[kani::unwind($unw)]
        fn $name() {
            const N: usize = $n;
            // the obligations for ONE query; returns whether some but not all points lie within the radius
            fn check(tree: &CoverTree<u8, f64, VerifAbsDiff>, q: u8, radius: f64, ri: u8) -> bool {
                let r = match tree.find_radius(&q, radius) {
                    Ok(r) => core::mem::ManuallyDrop::new(r),
                    Err(_) => {
                        assert!(false, "CoverTree::find_radius: succeeds for a positive radius");
                        return false;
                    }
                };
                let mut dist = [0u8; N];
                let mut within = 0usize;
                verif_each!($idx, i, {
                    dist[i] = verif_absdiff($data[i], q);
                    if dist[i] <= ri {
                        within += 1;
                    }
                });
                assert!(r.len() <= N, "CoverTree::find_radius: no more entries than data points");
                if r.len() > N {
                    return false;
                }
                let mut returned = [false; N];
                verif_each!($idx, e, {
                    if e < r.len() {
                        let (idx, d, p) = r[e];
                        assert!(idx < N, "CoverTree::find_radius: every returned index is a position of the data vector");
                        if idx >= N {
                            return false;
                        }
                        assert!(!returned[idx], "CoverTree::find_radius: no position is returned twice");
                        returned[idx] = true;
                        assert!(dist[idx] <= ri, "CoverTree::find_radius: every returned point lies within the radius");
                        assert!(d == dist[idx] as f64, "CoverTree::find_radius: each entry carries the true distance from the query to the point at its index");
                        assert!(*p == $data[idx] && core::ptr::eq(p, &tree.data[idx]), "CoverTree::find_radius: each entry carries the point stored at its index");
                    }
                });
                // distinct in-range entries, all within the radius, and as many as there are points within the radius
                assert!(r.len() == within, "CoverTree::find_radius: every point within the radius is returned");
                r.len() > 0 && r.len() < N
            }
            // never dropped: the recursive drop glue of Node is no part of the obligation
            let tree = core::mem::ManuallyDrop::new($tree());
            let q: u8 = kani::any();
            kani::assume(q <= QMAX);
            let mut some_not_all = false;
            // case split on the query: every case calls the real function with a CONSTANT query, which CBMC decides by constant
            // propagation; `break` keeps the cases from being merged into each other's path condition
            'cases: {
                verif_each!(
                    [0, 1, 2, 3, 4, 5, 6, 7, 8, 9, 10, 11, 12, 13, 14, 15, 16],
                    c,
                    {
                        if q as usize == c {
                            some_not_all = check(&tree, c as u8, $radius, $ri);
                            break 'cases;
                        }
                    }
                );
            }
            // vacuity guard: some but not all points are within the radius
            kani::cover!(some_not_all);
        }
    };
}

//                name             tree          data    n  positions           k  unwind
ct_find_harness!(c04_ct_find_a_k1, verif_tree_a, DATA_A, 4, [0, 1, 2, 3], 1, 5);
ct_find_harness!(c04_ct_find_a_k2, verif_tree_a, DATA_A, 4, [0, 1, 2, 3], 2, 5);
ct_find_harness!(c04_ct_find_a_k3, verif_tree_a, DATA_A, 4, [0, 1, 2, 3], 3, 5);
ct_find_harness!(c04_ct_find_b_k1, verif_tree_b, DATA_B, 6, [0, 1, 2, 3, 4, 5], 1, 7);
ct_find_harness!(c04_ct_find_b_k2, verif_tree_b, DATA_B, 6, [0, 1, 2, 3, 4, 5], 2, 7);
ct_find_harness!(c04_ct_find_b_k3, verif_tree_b, DATA_B, 6, [0, 1, 2, 3, 4, 5], 3, 7);
//                  name                tree          data    n  positions           radius   unwind
ct_radius_harness!(c04_ct_radius_a_r1, verif_tree_a, DATA_A, 4, [0, 1, 2, 3], 1.0, 1, 5);
ct_radius_harness!(c04_ct_radius_a_r2, verif_tree_a, DATA_A, 4, [0, 1, 2, 3], 2.0, 2, 5);
ct_radius_harness!(c04_ct_radius_a_r5, verif_tree_a, DATA_A, 4, [0, 1, 2, 3], 5.0, 5, 5);
ct_radius_harness!(c04_ct_radius_b_r1, verif_tree_b, DATA_B, 6, [0, 1, 2, 3, 4, 5], 1.0, 1, 7);
ct_radius_harness!(c04_ct_radius_b_r2, verif_tree_b, DATA_B, 6, [0, 1, 2, 3, 4, 5], 2.0, 2, 7);
ct_radius_harness!(c04_ct_radius_b_r5, verif_tree_b, DATA_B, 6, [0, 1, 2, 3, 4, 5], 5.0, 5, 7);
