// Kani harnesses for C17 (distances), child module of src/math/distance/mod.rs.  PAIRED harnesses: each shadows Verus
// unit(s) of specs/C17 (key fallback_for) and decides, bounded, when a unit can no longer read a restructured function.
//
// (a) rejection (#[kani::should_panic], FIXED unequal lengths, entries chosen symbolically from {0.0, 1.0}):
//     "vectors of different length, a length different from the order of the covariance matrix, or an order p < 1 are
//     rejected (never return)".  Euclid (distance and squared_distance), Manhattan, Minkowski (lengths; p = 0 with equal
//     lengths), Hamming: 2 vs 3 and 3 vs 2.  Mahalanobis: a value built by the PUBLIC constructor new_from_covariance
//     from the fixed 2x2 identity covariance (LU + inverse on constants), then x/y of length (2,3), (3,2), (3,3), (1,2),
//     (2,1): the (2,3)/(2,1) shapes are the ones a check that looks at x only - or that demands BOTH lengths wrong - lets
//     through.
// (b) values, no float arithmetic on unconstrained symbolic floats; the reference is computed on INTEGERS in the harness
//     and the result compared with a constant selected by that integer:
//     Hamming    length 17 (two full blocks of 8 + a tail, for block-wise rewrites), entries from {0.0, 1.0} by
//                symbolic bits: result == (number of positions that differ) / 17;  also length 1..3
//     Euclid     length 2, x0,y0 from {0,3}, x1,y1 from {0,4}: squared distance in {0,9,16,25}, distance in {0,3,4,5}
//                (exact square roots: the correctly rounded sqrt of a perfect square is its root)
//     Manhattan  same inputs: distance in {0,3,4,7}
//     Minkowski  p = 1 only, same inputs: distance in {0,3,4,7} (CBMC evaluates powf(x, 1.0) exactly).  For p >= 2 there
//                is NO value harness: CBMC's powf is an approximation even on constants (kani/README.md; measured here:
//                p = 2 on these inputs is off by more than 1e-6), an exact comparison would report false violations.
use super::*;
use crate::linalg::naive::dense_matrix::DenseMatrix;
use crate::linalg::BaseMatrix;

fn bit(b: bool) -> f64 {
    if b {
        1.0
    } else {
        0.0
    }
}

fn sym_vec01<const N: usize>() -> Vec<f64> {
    let bits: [bool; N] = kani::any();
    let mut v: Vec<f64> = Vec::with_capacity(N);
    let mut i = 0;
    while i < N {
        v.push(bit(bits[i]));
        i += 1;
    }
    v
}

// ---------------------------------------------------------------------------------------------------------------
// (a) rejection
// ---------------------------------------------------------------------------------------------------------------
macro_rules! rejects {
    ($name:ident, $na:expr, $nb:expr, $call:expr) => {
        #[kani::proof]
        #[kani::unwind(6)]
        #[kani::should_panic]
        fn $name() {
            let a: Vec<f64> = sym_vec01::<$na>();
            let b: Vec<f64> = sym_vec01::<$nb>();
            let f = $call;
            let _r: f64 = f(&a, &b);
            // reaching this point = the distance returned normally on rejected input: should_panic then fails
        }
    };
}

rejects!(c17_euclid_rejects_2v3, 2, 3, |a: &Vec<f64>, b: &Vec<f64>| euclidian::Euclidian {}.distance(a, b));
rejects!(c17_euclid_rejects_3v2, 3, 2, |a: &Vec<f64>, b: &Vec<f64>| euclidian::Euclidian {}.distance(a, b));
rejects!(c17_sqeuclid_rejects_2v3, 2, 3, |a: &Vec<f64>, b: &Vec<f64>| euclidian::Euclidian::squared_distance(a, b));
rejects!(c17_sqeuclid_rejects_3v2, 3, 2, |a: &Vec<f64>, b: &Vec<f64>| euclidian::Euclidian::squared_distance(a, b));
rejects!(c17_manhattan_rejects_2v3, 2, 3, |a: &Vec<f64>, b: &Vec<f64>| manhattan::Manhattan {}.distance(a, b));
rejects!(c17_manhattan_rejects_3v2, 3, 2, |a: &Vec<f64>, b: &Vec<f64>| manhattan::Manhattan {}.distance(a, b));
rejects!(c17_minkowski_rejects_2v3, 2, 3, |a: &Vec<f64>, b: &Vec<f64>| minkowski::Minkowski { p: 2 }.distance(a, b));
rejects!(c17_minkowski_rejects_3v2, 3, 2, |a: &Vec<f64>, b: &Vec<f64>| minkowski::Minkowski { p: 2 }.distance(a, b));
rejects!(c17_minkowski_rejects_p0, 2, 2, |a: &Vec<f64>, b: &Vec<f64>| minkowski::Minkowski { p: 0 }.distance(a, b));
rejects!(c17_hamming_rejects_2v3, 2, 3, |a: &Vec<f64>, b: &Vec<f64>| hamming::Hamming {}.distance(a, b));
rejects!(c17_hamming_rejects_3v2, 3, 2, |a: &Vec<f64>, b: &Vec<f64>| hamming::Hamming {}.distance(a, b));

fn maha_identity2() -> mahalanobis::Mahalanobis<f64, DenseMatrix<f64>> {
    let cov: DenseMatrix<f64> = DenseMatrix::from_2d_array(&[&[1.0, 0.0], &[0.0, 1.0]]);
    mahalanobis::Mahalanobis::new_from_covariance(&cov)
}

macro_rules! maha_rejects {
    ($name:ident, $na:expr, $nb:expr) => {
        #[kani::proof]
        #[kani::unwind(6)]
        #[kani::should_panic]
        fn $name() {
            let m = maha_identity2();
            // the constructor must have succeeded and kept the 2x2 order, otherwise a panic below proves nothing
            if m.sigma.shape() != (2, 2) || m.sigmaInv.shape() != (2, 2) {
                return; // returning normally fails the should_panic harness
            }
            let a: Vec<f64> = sym_vec01::<$na>();
            let b: Vec<f64> = sym_vec01::<$nb>();
            let _r: f64 = m.distance(&a, &b);
        }
    };
}
maha_rejects!(c17_mahalanobis_rejects_2v3, 2, 3);
maha_rejects!(c17_mahalanobis_rejects_3v2, 3, 2);
maha_rejects!(c17_mahalanobis_rejects_3v3, 3, 3);
maha_rejects!(c17_mahalanobis_rejects_2v1, 2, 1);
maha_rejects!(c17_mahalanobis_rejects_1v2, 1, 2);

// the should_panic harnesses above are only meaningful if the constructor itself does not panic: shown here
#[kani::proof]
#[kani::unwind(6)]
fn c17_mahalanobis_ctor_identity2() {
    let m = maha_identity2();
    assert!(
        m.sigma.shape() == (2, 2) && m.sigmaInv.shape() == (2, 2),
        "Mahalanobis::new_from_covariance: keeps the order of the covariance matrix"
    );
    assert!(
        m.sigmaInv.get(0, 0) == 1.0 && m.sigmaInv.get(1, 1) == 1.0 && m.sigmaInv.get(0, 1) == 0.0 && m.sigmaInv.get(1, 0) == 0.0,
        "Mahalanobis::new_from_covariance: the inverse of the identity covariance is the identity"
    );
    kani::cover!(m.sigma.get(0, 0) == 1.0);
}

// ---------------------------------------------------------------------------------------------------------------
// (b) values
// ---------------------------------------------------------------------------------------------------------------
macro_rules! hamming_value {
    ($name:ident, $n:expr, $unw:expr) => {
        #[kani::proof]
        #[kani::unwind($unw)]
        fn $name() {
            const N: usize = $n;
            const TABLE: [f64; N + 1] = {
                let mut t = [0.0f64; N + 1];
                let mut k = 0;
                while k <= N {
                    t[k] = k as f64 / N as f64;
                    k += 1;
                }
                t
            };
            let xb: [bool; N] = kani::any();
            let yb: [bool; N] = kani::any();
            let mut x: Vec<f64> = Vec::with_capacity(N);
            let mut y: Vec<f64> = Vec::with_capacity(N);
            let mut diff = 0usize;
            let mut i = 0;
            while i < N {
                x.push(bit(xb[i]));
                y.push(bit(yb[i]));
                if xb[i] != yb[i] {
                    diff += 1;
                }
                i += 1;
            }
            let res: f64 = hamming::Hamming {}.distance(&x, &y);
            assert!(
                res == TABLE[diff],
                "Hamming::distance: the result is (number of positions where the vectors differ) / length"
            );
            kani::cover!(diff == N && res == 1.0);
        }
    };
}
hamming_value!(c17_hamming_value_n1, 1, 3);
hamming_value!(c17_hamming_value_n2, 2, 4);
hamming_value!(c17_hamming_value_n3, 3, 5);
hamming_value!(c17_hamming_value_n17, 17, 19);

// x = (x0, x1), y = (y0, y1) with x0, y0 in {0, 3} and x1, y1 in {0, 4}; integer reference d0 in {0, 3}, d1 in {0, 4}
macro_rules! l2_inputs {
    ($x:ident, $y:ident, $d0:ident, $d1:ident) => {
        let b: [bool; 4] = kani::any();
        let $x: Vec<f64> = vec![if b[0] { 3.0 } else { 0.0 }, if b[1] { 4.0 } else { 0.0 }];
        let $y: Vec<f64> = vec![if b[2] { 3.0 } else { 0.0 }, if b[3] { 4.0 } else { 0.0 }];
        let $d0: usize = if b[0] != b[2] { 3 } else { 0 };
        let $d1: usize = if b[1] != b[3] { 4 } else { 0 };
    };
}

#[kani::proof]
#[kani::unwind(6)]
fn c17_sqeuclid_value_n2() {
    l2_inputs!(x, y, d0, d1);
    let res: f64 = euclidian::Euclidian::squared_distance(&x, &y);
    const SQ: [f64; 26] = {
        let mut t = [0.0f64; 26];
        let mut k = 0;
        while k < 26 {
            t[k] = k as f64;
            k += 1;
        }
        t
    };
    assert!(
        res == SQ[d0 * d0 + d1 * d1],
        "Euclidian::squared_distance: the result is the sum of the squared coordinate differences"
    );
    kani::cover!(res == 25.0);
}

#[kani::proof]
#[kani::unwind(6)]
fn c17_euclid_value_n2() {
    l2_inputs!(x, y, d0, d1);
    let res: f64 = euclidian::Euclidian {}.distance(&x, &y);
    // d0*d0 + d1*d1 in {0, 9, 16, 25}: root in {0, 3, 4, 5}
    let root: f64 = if d0 == 0 && d1 == 0 {
        0.0
    } else if d1 == 0 {
        3.0
    } else if d0 == 0 {
        4.0
    } else {
        5.0
    };
    assert!(
        res == root,
        "Euclidian::distance: the result is the square root of the sum of the squared coordinate differences"
    );
    kani::cover!(res == 5.0);
}

#[kani::proof]
#[kani::unwind(6)]
fn c17_manhattan_value_n2() {
    l2_inputs!(x, y, d0, d1);
    let res: f64 = manhattan::Manhattan {}.distance(&x, &y);
    const L1: [f64; 8] = [0.0, 1.0, 2.0, 3.0, 4.0, 5.0, 6.0, 7.0];
    assert!(
        res == L1[d0 + d1],
        "Manhattan::distance: the result is the sum of the absolute coordinate differences"
    );
    kani::cover!(res == 7.0);
}

#[kani::proof]
#[kani::unwind(6)]
fn c17_minkowski_value_p1_n2() {
    l2_inputs!(x, y, d0, d1);
    let res: f64 = minkowski::Minkowski { p: 1 }.distance(&x, &y);
    const L1: [f64; 8] = [0.0, 1.0, 2.0, 3.0, 4.0, 5.0, 6.0, 7.0];
    assert!(
        res == L1[d0 + d1],
        "Minkowski::distance: for p = 1 the result is the sum of the absolute coordinate differences"
    );
    kani::cover!(res == 7.0);
}
