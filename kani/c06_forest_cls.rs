// Kani harnesses for C06, child module of src/ensemble/random_forest_classifier.rs: the REAL aggregation functions of the
// classifier forest (predict_for_row, predict_for_row_oob, predict, predict_oob) on forests built from HAND-MADE member trees.
// Paired with the Verus unit specs/C06/classifier_predict.rs (fallback_for): when somebody restructures one of these functions
// with constructs Verus cannot read, the unit is inconclusive; these harnesses then decide small forests on the real code.
//
// Member trees come from kani/c06_tree_stump_cls.rs (injected into src/tree/decision_tree_classifier.rs via `also_inject`):
//   verif_stump(c, k)                 one leaf: votes for class index c on every row
//   verif_split(f, thr, lo, hi, k)    root split on feature f: votes lo when x[row,f] <= thr, else hi
// The forest value is built field by field (this module sees the private fields).  The votes of the trees are symbolic class
// indices < k; the stored label values are non-contiguous ({-3, 0, 7}).
//
// Obligations read off the property ("A forest's prediction for a row is, for the classifier, a plurality class of its member
// trees' predictions for that row, reported as one of the original label values ... Out-of-bag prediction for a training row
// uses only the trees whose bootstrap sample did not contain that row") and off the contract of the Verus unit (ties go to the
// smallest class index):
//   predict_for_row(x,row)     = the FIRST class index w < k maximising votes(w) = #{t : tree_t(x,row) = w}
//   predict_for_row_oob(x,row) = the same over the trees with samples[t][row] == false
//   predict / predict_oob      = one entry per row of x, entry i = classes[the above for row i]
use super::*;
use crate::linalg::naive::dense_matrix::DenseMatrix;
use crate::linalg::BaseMatrix;

const LABELS: [f64; 3] = [-3.0, 0.0, 7.0];

fn verif_params(n_trees: usize, keep_samples: bool) -> RandomForestClassifierParameters {
    RandomForestClassifierParameters {
        criterion: SplitCriterion::Gini,
        max_depth: None,
        min_samples_leaf: 1,
        min_samples_split: 2,
        n_trees: n_trees as u16,
        m: None,
        keep_samples,
        seed: 0,
    }
}

fn verif_labels(k: usize) -> Vec<f64> {
    let mut classes: Vec<f64> = Vec::with_capacity(k);
    let mut c = 0;
    while c < k {
        classes.push(LABELS[c]);
        c += 1;
    }
    classes
}

// a class index < k from one symbolic byte
fn verif_class(k: usize) -> usize {
    let b: u8 = kani::any();
    kani::assume((b as usize) < k);
    b as usize
}

// the three clauses of "r is the first plurality class of `votes`"
macro_rules! assert_first_plurality {
    ($r:expr, $votes:expr, $k:expr, $what:expr) => {
        assert!($r < $k, concat!($what, ": the result is a class index < number of classes"));
        let mut w = 0;
        while w < $k {
            assert!(
                $votes[w] <= $votes[$r],
                concat!($what, ": the result is a plurality class (no class has more votes)")
            );
            assert!(
                w >= $r || $votes[w] < $votes[$r],
                concat!($what, ": among the classes with the most votes the result is the one with the smallest index")
            );
            w += 1;
        }
    };
}

// ---------------------------------------------------------------------------------------------------------------
// predict_for_row: first plurality class over ALL member trees
// ---------------------------------------------------------------------------------------------------------------
macro_rules! cls_vote_harness {
    ($name:ident, $n:expr, $k:expr, $unw:expr) => {
        #[kani::proof]
        #[kani::unwind($unw)]
        fn $name() {
            const N: usize = $n;
            const K: usize = $k;
            let mut trees: Vec<DecisionTreeClassifier<f64>> = Vec::with_capacity(N);
            let mut votes = [0usize; K];
            let mut t = 0;
            while t < N {
                let c = verif_class(K);
                trees.push(DecisionTreeClassifier::<f64>::verif_stump(c, K));
                votes[c] += 1;
                t += 1;
            }
            let forest = RandomForestClassifier {
                _parameters: verif_params(N, false),
                trees,
                classes: verif_labels(K),
                samples: None,
            };
            let x: DenseMatrix<f64> = DenseMatrix::zeros(1, 1);
            let r = forest.predict_for_row(&x, 0);
            assert_first_plurality!(r, votes, K, "predict_for_row (classifier)");
            // the last class wins outright
            kani::cover!(r == K - 1);
        }
    };
}

cls_vote_harness!(c06_cls_vote_n1_k2, 1, 2, 5);
cls_vote_harness!(c06_cls_vote_n2_k2, 2, 2, 5);
cls_vote_harness!(c06_cls_vote_n3_k3, 3, 3, 6);
cls_vote_harness!(c06_cls_vote_n4_k2, 4, 2, 7);
cls_vote_harness!(c06_cls_vote_n4_k3, 4, 3, 7);

// ---------------------------------------------------------------------------------------------------------------
// predict_for_row_oob: first plurality class over exactly the trees whose bootstrap sample did not contain the row
// ---------------------------------------------------------------------------------------------------------------
macro_rules! cls_oob_harness {
    ($name:ident, $n:expr, $k:expr, $unw:expr) => {
        #[kani::proof]
        #[kani::unwind($unw)]
        fn $name() {
            const N: usize = $n;
            const K: usize = $k;
            const R: usize = 2; // training rows
            let mut trees: Vec<DecisionTreeClassifier<f64>> = Vec::with_capacity(N);
            let mut masks: Vec<Vec<bool>> = Vec::with_capacity(N);
            let mut votes = [[0usize; K]; R];
            let mut cnt = [0usize; R];
            let mut t = 0;
            while t < N {
                let c = verif_class(K);
                trees.push(DecisionTreeClassifier::<f64>::verif_stump(c, K));
                let mut m: Vec<bool> = Vec::with_capacity(R);
                let mut row = 0;
                while row < R {
                    let in_bag: bool = kani::any();
                    m.push(in_bag);
                    if !in_bag {
                        votes[row][c] += 1;
                        cnt[row] += 1;
                    }
                    row += 1;
                }
                masks.push(m);
                t += 1;
            }
            let forest = RandomForestClassifier {
                _parameters: verif_params(N, true),
                trees,
                classes: verif_labels(K),
                samples: Some(masks),
            };
            let x: DenseMatrix<f64> = DenseMatrix::zeros(R, 1);
            let mut row = 0;
            while row < R {
                let r = forest.predict_for_row_oob(&x, row);
                assert_first_plurality!(r, votes[row], K, "predict_for_row_oob (classifier; votes of the out-of-bag trees only)");
                row += 1;
            }
            // a row that is out of bag for some but not all trees, with the last class winning its out-of-bag vote
            kani::cover!(cnt[1] >= 1 && (cnt[1] < N || N == 1) && votes[1][K - 1] == cnt[1]);
        }
    };
}

cls_oob_harness!(c06_cls_oob_n2_k2, 2, 2, 5);
cls_oob_harness!(c06_cls_oob_n3_k3, 3, 3, 6);

// ---------------------------------------------------------------------------------------------------------------
// predict / predict_oob: one entry per row, entry i is the LABEL VALUE of the plurality class for ROW i
// ---------------------------------------------------------------------------------------------------------------
macro_rules! cls_predict_harness {
    ($name:ident, $n:expr, $k:expr, $unw:expr) => {
        #[kani::proof]
        #[kani::unwind($unw)]
        fn $name() {
            const N: usize = $n;
            const K: usize = $k;
            const R: usize = 2;
            // row 0 has feature value 0, row 1 has feature value 1; every tree splits at 0.5
            let mut x: DenseMatrix<f64> = DenseMatrix::zeros(R, 1);
            x.set(1, 0, 1.0);
            let mut trees: Vec<DecisionTreeClassifier<f64>> = Vec::with_capacity(N);
            let mut votes = [[0usize; K]; R];
            let mut t = 0;
            while t < N {
                let lo = verif_class(K);
                let hi = verif_class(K);
                trees.push(DecisionTreeClassifier::<f64>::verif_split(0, 0.5, lo, hi, K));
                votes[0][lo] += 1;
                votes[1][hi] += 1;
                t += 1;
            }
            let forest = RandomForestClassifier {
                _parameters: verif_params(N, false),
                trees,
                classes: verif_labels(K),
                samples: None,
            };
            let res = forest.predict(&x);
            assert!(res.is_ok(), "predict (classifier): succeeds");
            let y = match res {
                Ok(y) => y,
                Err(_) => return,
            };
            assert!(y.len() == R, "predict (classifier): one prediction per row of x");
            let mut row = 0;
            while row < R {
                // first plurality class of row `row`, by the harness
                let mut best = 0;
                let mut w = 1;
                while w < K {
                    if votes[row][w] > votes[row][best] {
                        best = w;
                    }
                    w += 1;
                }
                assert!(
                    y[row] == LABELS[best],
                    "predict (classifier): entry i is the ORIGINAL LABEL VALUE of the first plurality class of the member trees' votes for ROW i"
                );
                row += 1;
            }
            kani::cover!(y.len() == R && y[0] == LABELS[K - 1] && y[1] == LABELS[0]);
        }
    };
}

cls_predict_harness!(c06_cls_predict_n3_k3_r2, 3, 3, 6);

macro_rules! cls_predict_oob_harness {
    ($name:ident, $n:expr, $k:expr, $unw:expr) => {
        #[kani::proof]
        #[kani::unwind($unw)]
        fn $name() {
            const N: usize = $n;
            const K: usize = $k;
            const R: usize = 2;
            let mut x: DenseMatrix<f64> = DenseMatrix::zeros(R, 1);
            x.set(1, 0, 1.0);
            let mut trees: Vec<DecisionTreeClassifier<f64>> = Vec::with_capacity(N);
            let mut masks: Vec<Vec<bool>> = Vec::with_capacity(N);
            let mut votes = [[0usize; K]; R];
            let mut t = 0;
            while t < N {
                let lo = verif_class(K);
                let hi = verif_class(K);
                trees.push(DecisionTreeClassifier::<f64>::verif_split(0, 0.5, lo, hi, K));
                let mut m: Vec<bool> = Vec::with_capacity(R);
                let mut row = 0;
                while row < R {
                    let in_bag: bool = kani::any();
                    m.push(in_bag);
                    if !in_bag {
                        votes[row][if row == 0 { lo } else { hi }] += 1;
                    }
                    row += 1;
                }
                masks.push(m);
                t += 1;
            }
            let forest = RandomForestClassifier {
                _parameters: verif_params(N, true),
                trees,
                classes: verif_labels(K),
                samples: Some(masks),
            };
            let res = forest.predict_oob(&x);
            assert!(
                res.is_ok(),
                "predict_oob (classifier): succeeds when the masks were kept and x has the training set's row count"
            );
            let y = match res {
                Ok(y) => y,
                Err(_) => return,
            };
            assert!(y.len() == R, "predict_oob (classifier): one prediction per row of x");
            let mut row = 0;
            while row < R {
                let mut best = 0;
                let mut w = 1;
                while w < K {
                    if votes[row][w] > votes[row][best] {
                        best = w;
                    }
                    w += 1;
                }
                assert!(
                    y[row] == LABELS[best],
                    "predict_oob (classifier): entry i is the ORIGINAL LABEL VALUE of the first plurality class among the trees whose bootstrap sample did not contain ROW i"
                );
                row += 1;
            }
            kani::cover!(y.len() == R && y[0] == LABELS[K - 1] && y[1] == LABELS[0]);
        }
    };
}

cls_predict_oob_harness!(c06_cls_predict_oob_n2_k2_r2, 2, 2, 5);
