// Kani harnesses for C11, child module of src/naive_bayes/multinomial.rs: the real MultinomialNBDistribution::fit with T = f64.
// Obligations, the ln stub (identity) and the bound are described in c11_nb_fit_body.rs.
// STATUS: NOT REGISTERED (not admitted).  Measured 2026-09-28 (Kani 0.68 / CBMC 6.11, machine shared with other Kani runs, default runner
// flags of vc): c11_mult_fit_f64_n3_f2_sym (symbolic cells): timeout after 1500 s, CBMC still in symbolic execution (memory growing,
// 2.9 GB); c11_mult_fit_f64_n3_f2_fix (ONE concrete matrix, symbolic alpha/priors): no verdict after 13 min on the unchanged tree
// (stopped by hand).  Cause as in c11_nb_multinomial.rs / c11_unique.rs: fit starts with unique_with_indices, whose std HashMap keeps
// CBMC in symbolic execution also for concrete labels with fixed SipHash keys.  The multinomial harnesses compile (all three stubs are accepted:
// RandomState::new, f64::ln, std::fmt::format); the Bernoulli module was neither compiled nor run.  README rule: < 10 min or not admitted.
use super::*;
include!("/verif/kani/c11_nb_fit_body.rs");

//               name                       type                      tag            mult  labels           classes     max sym    data (if !sym)            unwind
nb_fit_harness!(c11_mult_fit_f64_n3_f2_sym, MultinomialNBDistribution, "multinomial", true, [5.0, 2.0, 5.0], [2.0, 5.0], 2, true, [[0, 0], [0, 0], [0, 0]], 8);
nb_fit_harness!(c11_mult_fit_f64_n3_f2_fix, MultinomialNBDistribution, "multinomial", true, [5.0, 2.0, 5.0], [2.0, 5.0], 2, false, [[2, 0], [1, 1], [0, 2]], 8);
