// Shared body of the bounded fit harnesses of C11 (included by c11_nb_fit.rs -> src/naive_bayes/multinomial.rs and by
// c11_nb_fit_bernoulli.rs -> src/naive_bayes/bernoulli.rs).  The REAL `fit` is called with T = f64 on a DenseMatrix<f64>.
//
// Obligations read off the property ("class counts, priors and per-class feature statistics ... equal the sufficient statistics of
// the training data under the documented additive smoothing ... count-based log-probabilities are the smoothed relative
// frequencies"; "integer-valued class labels need not be contiguous or start at zero"):
//   class_labels = the distinct labels ascending; class_count[c] = #{i: y_i = label c}; class_priors[c] = class_count[c] / n, or the
//   user-supplied priors unchanged; feature_count[c][f] = sum of x[i][f] over the rows of class c; n_features = #columns;
//   multinomial: feature_log_prob[c][f] = ln((N_cf + alpha) / (N_c + alpha * n_features)),  N_c = sum_f N_cf;
//   Bernoulli:   feature_log_prob[c][f] = ln((N_cf + alpha) / (class_count[c] + alpha * 2)).
// The logarithm: CBMC has no exact ln.  `f64::ln` (the function RealNumber's `.ln()` resolves to for T = f64) is STUBBED BY THE
// IDENTITY, so the reported "log-probability" IS the smoothed ratio, an IEEE double, and is compared EXACTLY (==) with the ratio the
// harness computes from its own recount with the same operation order.  Rounding is therefore modelled (IEEE, round-to-nearest);
// what is not checked is that ln is applied at all (any function applied last to the ratio would pass) -- the Verus score units and
// the term-algebra harnesses of the categorical variant are the places where `ln` itself is named.
// Bound (every harness): 3 rows x 2 features, 2 classes, ONE CONCRETE label vector (non-contiguous, not starting at zero, not
// sorted); cells chosen by Kani per cell from {0..=MAXCELL}; alpha chosen by Kani from {0.5, 1.0, 2.0}; priors chosen by Kani:
// None or the user vector [0.25, 0.75].  Labels are concrete because fit starts with unique_with_indices, whose std HashMap does
// not leave CBMC's symbolic execution with symbolic keys (kani/c11_unique.rs); only the SipHash keys of the map are fixed.
use crate::linalg::naive::dense_matrix::DenseMatrix;
use crate::linalg::BaseMatrix;

#[allow(dead_code)]
fn c11_fixed_random_state() -> std::collections::hash_map::RandomState {
    unsafe { std::mem::transmute::<[u64; 2], std::collections::hash_map::RandomState>([0u64, 0u64]) }
}
#[allow(dead_code)]
fn c11_ln_identity(x: f64) -> f64 {
    x
}
#[allow(dead_code)]
fn verif_no_format(_args: core::fmt::Arguments<'_>) -> String {
    String::new()
}

macro_rules! nb_fit_harness {
    ($name:ident, $dist:ident, $tag:expr, $multinomial:expr, $labels:expr, $classes:expr, $maxcell:expr, $symcells:expr, $data:expr, $unw:expr) => {
        #[kani::proof]
        #[kani::unwind($unw)]
        #[kani::stub(std::collections::hash_map::RandomState::new, c11_fixed_random_state)]
        #[kani::stub(f64::ln, c11_ln_identity)]
        #[kani::stub(std::fmt::format, verif_no_format)]
        fn $name() {
            const N: usize = 3;
            const NF: usize = 2;
            const K: usize = 2;
            const LABELS: [f64; N] = $labels;
            const CLASSES: [f64; K] = $classes; // the distinct labels, ascending (written out by hand)
            const DATA: [[u8; NF]; N] = $data;
            const USER_PRIORS: [f64; K] = [0.25, 0.75];
            let alpha: f64 = if kani::any() {
                0.5
            } else if kani::any() {
                1.0
            } else {
                2.0
            };
            let user: bool = kani::any();
            let mut xu = [[0usize; NF]; N];
            let mut x: DenseMatrix<f64> = DenseMatrix::zeros(N, NF);
            let mut y: Vec<f64> = Vec::with_capacity(N);
            let mut i = 0;
            while i < N {
                y.push(LABELS[i]);
                let mut f = 0;
                while f < NF {
                    let k: u8 = if $symcells { kani::any() } else { DATA[i][f] };
                    kani::assume(k <= $maxcell);
                    let (cu, cf) = if k == 0 {
                        (0usize, 0.0f64)
                    } else if k == 1 {
                        (1usize, 1.0f64)
                    } else {
                        (2usize, 2.0f64)
                    };
                    xu[i][f] = cu;
                    x.set(i, f, cf);
                    f += 1;
                }
                i += 1;
            }
            let priors = if user { Some(vec![USER_PRIORS[0], USER_PRIORS[1]]) } else { None };
            let res = $dist::fit(&x, &y, alpha, priors);
            assert!(res.is_ok(), concat!($tag, " fit: accepts a non-empty training set of counts with alpha >= 0"));
            let d = match res {
                Ok(d) => d,
                Err(_) => return,
            };
            assert!(d.class_labels.len() == K, concat!($tag, " fit: one class per distinct label"));
            assert!(
                d.class_count.len() == K && d.class_priors.len() == K,
                concat!($tag, " fit: one count and one prior per class")
            );
            assert!(d.n_features == NF, concat!($tag, " fit: n_features is the number of columns"));
            assert!(
                d.feature_count.len() == K && d.feature_log_prob.len() == K,
                concat!($tag, " fit: one row of feature statistics per class")
            );
            let mut c = 0;
            while c < K {
                // sufficient statistics of class c, recounted by the harness
                let mut cc = 0usize;
                let mut fc = [0usize; NF];
                let mut n_c = 0usize;
                let mut i = 0;
                while i < N {
                    if LABELS[i] == CLASSES[c] {
                        cc += 1;
                        let mut f = 0;
                        while f < NF {
                            fc[f] += xu[i][f];
                            n_c += xu[i][f];
                            f += 1;
                        }
                    }
                    i += 1;
                }
                assert!(
                    d.class_labels[c] == CLASSES[c],
                    concat!($tag, " fit: class_labels are the sorted distinct labels of y (not contiguous, not starting at zero)")
                );
                assert!(d.class_count[c] == cc, concat!($tag, " fit: class_count[c] = number of training rows labelled c"));
                if user {
                    assert!(
                        d.class_priors[c] == USER_PRIORS[c],
                        concat!($tag, " fit: user-supplied priors are reported unchanged")
                    );
                } else {
                    assert!(
                        d.class_priors[c] == (cc as f64) / (N as f64),
                        concat!($tag, " fit: class_priors[c] = class_count[c] / n_samples")
                    );
                }
                assert!(
                    d.feature_count[c].len() == NF && d.feature_log_prob[c].len() == NF,
                    concat!($tag, " fit: one entry per feature")
                );
                let den: f64 = if $multinomial { (n_c as f64) + alpha * (NF as f64) } else { (cc as f64) + alpha * 2.0 };
                let mut f = 0;
                while f < NF {
                    assert!(
                        d.feature_count[c][f] == fc[f],
                        concat!($tag, " fit: feature_count[c][j] = sum of feature j over the rows of class c")
                    );
                    let want = ((fc[f] as f64) + alpha) / den;
                    if $multinomial {
                        assert!(
                            d.feature_log_prob[c][f] == want,
                            "multinomial fit: feature_log_prob[c][j] = ln((N_cj+alpha)/(N_c+alpha*n_features))"
                        );
                    } else {
                        assert!(
                            d.feature_log_prob[c][f] == want,
                            "bernoulli fit: feature_log_prob[c][j] = ln((N_cj+alpha)/(class_count[c]+alpha*2))"
                        );
                    }
                    f += 1;
                }
                c += 1;
            }
            assert!(
                d.class_count[0] + d.class_count[1] == N,
                concat!($tag, " fit: class counts add up to n_samples (frequency priors sum to one)")
            );
            kani::cover!(alpha != 1.0 && !user && d.class_count[K - 1] == 2 && d.feature_count[0][NF - 1] >= 1);
        }
    };
}
