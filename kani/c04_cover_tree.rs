// Kani harnesses for C04 (cover tree construction), child module of src/algorithm/neighbour/cover_tree.rs.
// "Construction and queries succeed for every such input, including duplicated points, a single point".
// The metric is a harness-defined Distance returning the constant 0 (all points identical) so that no floating-point
// arithmetic reaches CBMC; with one point no distance is computed at all, so that harness is complete for all
// single-point data sets.
use super::*;

#[derive(Debug, Clone)]
struct AllIdentical;
impl Distance<u8, f64> for AllIdentical {
    fn distance(&self, _a: &u8, _b: &u8) -> f64 {
        0.0
    }
}

#[kani::proof]
#[kani::unwind(6)]
fn c04_covertree_single_point() {
    let x: u8 = kani::any();
    let tree = CoverTree::new(vec![x], AllIdentical);
    assert!(tree.is_ok(), "CoverTree::new: construction succeeds for a single point");
    let tree = tree.unwrap();
    let q: u8 = kani::any();
    let r = tree.find_radius(&q, 1.0);
    assert!(r.is_ok(), "CoverTree::find_radius: succeeds on a single-point tree");
    let r = r.unwrap();
    assert!(r.len() == 1 && r[0].0 == 0, "CoverTree::find_radius: the single point (distance 0 <= r) is returned");
    kani::cover!(r.len() == 1);
}

macro_rules! identical_points {
    ($name:ident, $n:expr, $unw:expr) => {
        #[kani::proof]
        #[kani::unwind($unw)]
        fn $name() {
            let x: u8 = kani::any();
            let data: Vec<u8> = vec![x; $n];
            let tree = CoverTree::new(data, AllIdentical);
            assert!(tree.is_ok(), "CoverTree::new: construction succeeds when all points are identical");
            let tree = tree.unwrap();
            let r = tree.find_radius(&x, 1.0).unwrap();
            assert!(r.len() == $n, "CoverTree::find_radius: every duplicate (distance 0 <= r) is returned exactly once");
            let mut seen = [false; $n];
            let mut i = 0;
            while i < r.len() {
                assert!(r[i].0 < $n && !seen[r[i].0], "CoverTree::find_radius: indices are distinct and in range");
                seen[r[i].0] = true;
                i += 1;
            }
            kani::cover!(r.len() == $n);
        }
    };
}
identical_points!(c04_covertree_identical_n2, 2, 6);
identical_points!(c04_covertree_identical_n3, 3, 7);
