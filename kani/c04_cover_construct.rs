// Kani harnesses for C04 (cover tree CONSTRUCTION leaf functions), child module of src/algorithm/neighbour/cover_tree.rs:
// the REAL CoverTree::split, CoverTree::dist_split and CoverTree::max, which batch_insert uses to partition the point sets.
// "Cover tree construction must not lose points": a point whose last recorded distance is <= the cover radius of the scale
// (the boundary d == radius INCLUDED) stays in the near set; every other point goes to the far set; no entry is lost,
// duplicated, reordered or altered.
//
// What is real and what is a stand-in.
//   * get_cover_radius is base.powf(s); CBMC's powf is not exact even on constants (kani/README.md), so it is replaced
//     (kani::stub) by an inherent method of the same generic impl shape returning the constant RADIUS = 2.0.  The harnesses
//     therefore say nothing about get_cover_radius / get_scale; they decide what split / dist_split do WITH the radius.
//   * The CoverTree value is built field by field (private fields are visible here); CoverTree::new is not called.
//   * The metric of dist_split is a harness-defined Distance<u8, f64>: |a - b| on u8 points (integer arithmetic, exact).
//     split / max never evaluate the metric (a constant-table placeholder metric fills the field).
// Shapes are fixed per harness (kani/README.md): 3 DistanceSet entries, the length (1 or 2) of each dist vector is a macro
// parameter.  Values: `max` takes ANY non-NaN f64 >= 0 (symbolic, compared only).  split / dist_split draw the compared
// distance from representatives around the radius and reach the real code through a case split into constant calls (see
// the note above split_case: fully symbolic distances were measured and do not fit).
use super::*;

const RADIUS: f64 = 2.0;
const IDS: usize = 4;

#[derive(Clone)]
struct TableMetric {
    t: [[f64; IDS]; IDS],
}

impl Distance<u8, f64> for TableMetric {
    fn distance(&self, a: &u8, b: &u8) -> f64 {
        self.t[*a as usize][*b as usize]
    }
}

// same generic structure as the original (Kani matches stub signatures including the impl-level parameters)
impl<T: Debug + PartialEq, F: RealNumber, D: Distance<T, F>> CoverTree<T, F, D> {
    #[allow(dead_code)]
    fn verif_fixed_cover_radius(&self, _s: i64) -> F {
        F::two()
    }
}

fn any_real() -> f64 {
    let v: f64 = kani::any();
    kani::assume(!v.is_nan());
    v
}

fn tree_with(data: Vec<u8>, metric: TableMetric) -> CoverTree<u8, f64, TableMetric> {
    CoverTree {
        base: 2.0,
        inv_log_base: 1.0,
        distance: metric,
        root: Node {
            idx: 0,
            max_dist: 0.0,
            parent_dist: 0.0,
            children: Vec::new(),
            _scale: 0,
        },
        data,
        identical_excluded: false,
    }
}

/// dist vector of FIXED length `len` (1 or 2); returns the vector and a copy of its values (second unused when len == 1)
fn any_dist(len: usize) -> (Vec<f64>, [f64; 2]) {
    let a = any_real();
    if len == 1 {
        (vec![a], [a, 0.0])
    } else {
        let b = any_real();
        (vec![a, b], [a, b])
    }
}

fn same(a: f64, b: f64) -> bool {
    a.to_bits() == b.to_bits()
}

// -----------------------------------------------------------------------------------------------------------------
// split
//
// Measured: with the three last distances left as unconstrained symbolic f64 the harness does not fit (3 entries, lengths
// 1,1,1: > 14 GB after 5 min of CBMC, stopped): every push then lands at a symbolic position of one of two Vec<DistanceSet>
// and each entry owns a heap pointer.  split only COMPARES the last distance with the radius, so the harness draws each last
// distance from the three representatives {largest f64 below the radius, the radius itself, smallest f64 above it} and
// reaches the real function through a CASE SPLIT (27 cases, each a call with constant values, as c04_cover_tree_queries.rs).
// -----------------------------------------------------------------------------------------------------------------
const BELOW: f64 = 1.9999999999999998; // largest f64 < 2.0
const ABOVE: f64 = 2.0000000000000004; // smallest f64 > 2.0

fn class_value(c: u8) -> f64 {
    if c == 0 {
        BELOW
    } else if c == 1 {
        RADIUS
    } else {
        ABOVE
    }
}

/// dist vector of FIXED length `len` (1 or 2) ending in `last`; a 2-element vector starts with a decoy on the OTHER side of
/// the radius (a function looking at dist[0] instead of the last entry is caught)
fn dist_ending_in(len: usize, last: f64) -> Vec<f64> {
    if len == 1 {
        vec![last]
    } else if last <= RADIUS {
        vec![3.0, last]
    } else {
        vec![0.0, last]
    }
}

fn record_intact(e: &DistanceSet<f64>, len: usize, last: f64) -> bool {
    e.dist.len() == len && same(e.dist[len - 1], last) && (len == 1 || same(e.dist[0], if last <= RADIUS { 3.0 } else { 0.0 }))
}

fn split_case(tree: &CoverTree<u8, f64, TableMetric>, lens: [usize; 3], cls: [u8; 3], max_scale: i64) {
    const N: usize = 3;
    let ids: [usize; N] = [2, 0, 1];
    let vals: [f64; N] = [class_value(cls[0]), class_value(cls[1]), class_value(cls[2])];
    let mut point_set: Vec<DistanceSet<f64>> = vec![
        DistanceSet { idx: ids[0], dist: dist_ending_in(lens[0], vals[0]) },
        DistanceSet { idx: ids[1], dist: dist_ending_in(lens[1], vals[1]) },
        DistanceSet { idx: ids[2], dist: dist_ending_in(lens[2], vals[2]) },
    ];
    // the far set already holds one entry (idx 3), it must stay in front
    let mut far_set: Vec<DistanceSet<f64>> = vec![DistanceSet { idx: 3, dist: vec![7.0] }];

    tree.split(&mut point_set, &mut far_set, max_scale);

    // expected partition: class 0 (below) and class 1 (AT the radius) are near, class 2 is far
    let near: [bool; N] = [cls[0] <= 1, cls[1] <= 1, cls[2] <= 1];
    let n_near = near[0] as usize + near[1] as usize + near[2] as usize;
    assert!(point_set.len() == n_near, "split: point_set holds exactly the entries whose last distance is <= the cover radius (boundary included)");
    assert!(far_set.len() == 1 + (N - n_near), "split: far_set = old far_set plus exactly the entries whose last distance exceeds the cover radius");
    assert!(point_set.len() + far_set.len() == N + 1, "split: no entry is lost or duplicated");
    assert!(far_set[0].idx == 3 && far_set[0].dist.len() == 1 && same(far_set[0].dist[0], 7.0), "split: the entries already in far_set stay in front, unchanged");
    let mut pn = 0;
    let mut pf = 1;
    let mut j = 0;
    while j < N {
        if near[j] {
            assert!(pn < point_set.len() && point_set[pn].idx == ids[j], "split: near entries stay in point_set in their original order");
            assert!(record_intact(&point_set[pn], lens[j], vals[j]), "split: the distance record of a near entry is unchanged");
            pn += 1;
        } else {
            assert!(pf < far_set.len() && far_set[pf].idx == ids[j], "split: far entries are appended to far_set in their original order");
            assert!(record_intact(&far_set[pf], lens[j], vals[j]), "split: the distance record of a far entry is unchanged");
            pf += 1;
        }
        j += 1;
    }
}

macro_rules! split_harness {
    ($name:ident, $l0:expr, $l1:expr, $l2:expr, $unw:expr) => {
        #[kani::proof]
        #[kani::unwind($unw)]
        #[kani::stub(CoverTree::get_cover_radius, CoverTree::verif_fixed_cover_radius)]
        fn $name() {
            assert!(BELOW < RADIUS && RADIUS < ABOVE, "split: harness representatives straddle the radius");
            let tree = tree_with(vec![0, 1, 2, 3], TableMetric { t: [[0.0; IDS]; IDS] });
            let c0: u8 = kani::any();
            let c1: u8 = kani::any();
            let c2: u8 = kani::any();
            kani::assume(c0 < 3 && c1 < 3 && c2 < 3);
            let code = c0 * 9 + c1 * 3 + c2;
            let mut done = false;
            let mut k: u8 = 0;
            while k < 27 {
                if code == k {
                    split_case(&tree, [$l0, $l1, $l2], [k / 9, (k / 3) % 3, k % 3], 1);
                    done = true;
                    break;
                }
                k += 1;
            }
            assert!(done, "split: every class combination is exercised");
            // the boundary case: a point at distance exactly the cover radius (it must stay near) is among the cases
            kani::cover!(c1 == 1);
            kani::cover!(c0 == 2 && c1 == 2 && c2 == 2);
            kani::cover!(c0 == 0 && c1 == 2 && c2 == 1);
        }
    };
}
split_harness!(c04_split_l111, 1, 1, 1, 30);
split_harness!(c04_split_l212, 2, 1, 2, 30);

// quick-tier subset of the above: the boundary entry (distance == radius) in each of the three positions, one entry below
// and one above the radius next to it (3 of the 27 cases)
#[kani::proof]
#[kani::unwind(6)]
#[kani::stub(CoverTree::get_cover_radius, CoverTree::verif_fixed_cover_radius)]
fn c04_split_l111_boundary() {
    let tree = tree_with(vec![0, 1, 2, 3], TableMetric { t: [[0.0; IDS]; IDS] });
    let r: u8 = kani::any();
    kani::assume(r < 3);
    let mut done = false;
    let mut k: u8 = 0;
    while k < 3 {
        if r == k {
            // k = 0: (at, below, above); k = 1: (below, above, at); k = 2: (above, at, below)
            split_case(&tree, [1, 1, 1], [(1 + 2 * k) % 3, (2 * k) % 3, (2 + 2 * k) % 3], 1);
            done = true;
            break;
        }
        k += 1;
    }
    assert!(done, "split: every boundary position is exercised");
    kani::cover!(r == 1);
}

// -----------------------------------------------------------------------------------------------------------------
// dist_split: metric |a - b| on u8 points (computed on the integers, converted to f64: exact); the expected partition is
// computed by the harness in INTEGER arithmetic.  new_point is a symbolic u8 in 0..=8, case-split into 9 constant calls.
// data = [3, 9, 4, 5]; point_set holds positions 2, 0, 3 (points 4, 3, 5): new_point 4 moves all three, 0 none, 6 / 2 / 1 / 7
// have a point at distance EXACTLY the radius 2.
// -----------------------------------------------------------------------------------------------------------------
#[derive(Clone)]
struct AbsDiff;
impl Distance<u8, f64> for AbsDiff {
    fn distance(&self, a: &u8, b: &u8) -> f64 {
        (if *a > *b { *a - *b } else { *b - *a }) as f64
    }
}

fn dist_split_case(lens: [usize; 3], q: u8, max_scale: i64) -> usize {
    const N: usize = 3;
    let data: [u8; 4] = [3, 9, 4, 5];
    let ids: [usize; N] = [2, 0, 3];
    let olds: [f64; N] = [BELOW, ABOVE, RADIUS];
    let tree: CoverTree<u8, f64, AbsDiff> = CoverTree {
        base: 2.0,
        inv_log_base: 1.0,
        distance: AbsDiff,
        root: Node { idx: 0, max_dist: 0.0, parent_dist: 0.0, children: Vec::new(), _scale: 0 },
        data: vec![3, 9, 4, 5],
        identical_excluded: false,
    };
    let mut point_set: Vec<DistanceSet<f64>> = vec![
        DistanceSet { idx: ids[0], dist: dist_ending_in(lens[0], olds[0]) },
        DistanceSet { idx: ids[1], dist: dist_ending_in(lens[1], olds[1]) },
        DistanceSet { idx: ids[2], dist: dist_ending_in(lens[2], olds[2]) },
    ];
    // new_point_set already holds one entry (position 1), it must stay in front
    let mut new_point_set: Vec<DistanceSet<f64>> = vec![DistanceSet { idx: 1, dist: vec![7.0] }];

    tree.dist_split(&mut point_set, &mut new_point_set, &q, max_scale);

    let mut di: [u8; N] = [0; N];
    let mut near: [bool; N] = [false; N];
    let mut n_near = 0;
    let mut j = 0;
    while j < N {
        let p = data[ids[j]];
        di[j] = if q > p { q - p } else { p - q };
        near[j] = di[j] <= 2;
        if near[j] {
            n_near += 1;
        }
        j += 1;
    }
    assert!(new_point_set.len() == 1 + n_near, "dist_split: new_point_set gains exactly the entries with d(new_point, data[idx]) <= the cover radius (boundary included)");
    assert!(point_set.len() == N - n_near, "dist_split: point_set keeps exactly the entries with d(new_point, data[idx]) > the cover radius");
    assert!(point_set.len() + new_point_set.len() == N + 1, "dist_split: no entry is lost or duplicated");
    assert!(new_point_set[0].idx == 1 && new_point_set[0].dist.len() == 1 && same(new_point_set[0].dist[0], 7.0),
        "dist_split: the entries already in new_point_set stay in front, unchanged");
    let mut pn = 1;
    let mut pf = 0;
    let mut j = 0;
    while j < N {
        if near[j] {
            assert!(pn < new_point_set.len() && new_point_set[pn].idx == ids[j], "dist_split: moved entries are appended to new_point_set in their original order");
            let e = &new_point_set[pn];
            assert!(e.dist.len() == lens[j] + 1 && e.dist[lens[j]] == di[j] as f64, "dist_split: a moved entry gets d(new_point, data[idx]) pushed as its last distance");
            assert!(same(e.dist[lens[j] - 1], olds[j]) && (lens[j] == 1 || same(e.dist[0], if olds[j] <= RADIUS { 3.0 } else { 0.0 })),
                "dist_split: the earlier distances of a moved entry are unchanged");
            pn += 1;
        } else {
            assert!(pf < point_set.len() && point_set[pf].idx == ids[j], "dist_split: entries that stay keep their original order in point_set");
            assert!(record_intact(&point_set[pf], lens[j], olds[j]), "dist_split: the distance record of an entry that stays is unchanged");
            pf += 1;
        }
        j += 1;
    }
    n_near
}

macro_rules! dist_split_harness {
    ($name:ident, $l0:expr, $l1:expr, $l2:expr, $unw:expr) => {
        #[kani::proof]
        #[kani::unwind($unw)]
        #[kani::stub(CoverTree::get_cover_radius, CoverTree::verif_fixed_cover_radius)]
        fn $name() {
            let q: u8 = kani::any();
            kani::assume(q <= 8);
            let mut moved = 99;
            let mut k: u8 = 0;
            while k <= 8 {
                if q == k {
                    moved = dist_split_case([$l0, $l1, $l2], k, 1);
                    break;
                }
                k += 1;
            }
            assert!(moved <= 3, "dist_split: every new_point of the range is exercised");
            // q = 6: point 4 is at distance exactly the radius and must move
            kani::cover!(q == 6 && moved == 2);
            kani::cover!(moved == 0);
            kani::cover!(moved == 3);
        }
    };
}
dist_split_harness!(c04_dist_split_l111, 1, 1, 1, 12);
dist_split_harness!(c04_dist_split_l121, 1, 2, 1, 12);

// -----------------------------------------------------------------------------------------------------------------
// max
// -----------------------------------------------------------------------------------------------------------------
#[kani::proof]
#[kani::unwind(3)]
fn c04_max_empty() {
    let tree = tree_with(vec![0, 1, 2, 3], TableMetric { t: [[0.0; IDS]; IDS] });
    let set: Vec<DistanceSet<f64>> = Vec::new();
    let m = tree.max(&set);
    assert!(m == 0.0, "max: the maximum over an empty distance set is 0");
    kani::cover!(m == 0.0);
}

macro_rules! max_harness {
    ($name:ident, $l0:expr, $l1:expr, $l2:expr, $unw:expr) => {
        #[kani::proof]
        #[kani::unwind($unw)]
        fn $name() {
            const N: usize = 3;
            let lens: [usize; N] = [$l0, $l1, $l2];
            let tree = tree_with(vec![0, 1, 2, 3], TableMetric { t: [[0.0; IDS]; IDS] });
            let (d0, v0) = any_dist($l0);
            let (d1, v1) = any_dist($l1);
            let (d2, v2) = any_dist($l2);
            let vals: [[f64; 2]; N] = [v0, v1, v2];
            // distances are non-negative (the function starts from 0)
            let mut j = 0;
            while j < N {
                kani::assume(vals[j][0] >= 0.0 && vals[j][lens[j] - 1] >= 0.0);
                j += 1;
            }
            let set: Vec<DistanceSet<f64>> = vec![
                DistanceSet { idx: 0, dist: d0 },
                DistanceSet { idx: 1, dist: d1 },
                DistanceSet { idx: 2, dist: d2 },
            ];
            let m = tree.max(&set);
            let l0 = vals[0][lens[0] - 1];
            let l1 = vals[1][lens[1] - 1];
            let l2 = vals[2][lens[2] - 1];
            assert!(m >= l0 && m >= l1 && m >= l2, "max: no entry's last distance exceeds the result");
            assert!(m == l0 || m == l1 || m == l2, "max: the result is the last distance of one of the entries");
            assert!(set.len() == N && set[0].idx == 0 && set[1].idx == 1 && set[2].idx == 2, "max: the distance set is not modified");
            kani::cover!(m == l1 && l1 > l0 && l1 > l2);
            kani::cover!(m == l2 && l2 > l0 && l2 > l1);
        }
    };
}
max_harness!(c04_max_l111, 1, 1, 1, 6);
max_harness!(c04_max_l212, 2, 1, 2, 6);
