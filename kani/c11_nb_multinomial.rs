// Kani harnesses for C11, child module of src/naive_bayes/multinomial.rs: MultinomialNBDistribution::fit.
// (fit is not a Verus unit: iterator adapters with closures -- map / zip / enumerate / take / sum / collect.)
//
// The function is generic over T: RealNumber and is run with T = Q (kani/c11_term.rs), the free term algebra: every reported
// number is the expression that produced it, so the smoothing FORMULA the property names is compared exactly.
// Obligations read off the property ("class counts, priors and per-class feature statistics ... equal the sufficient statistics
// of the training data under the documented additive smoothing: priors are class frequencies and sum to one ... count-based
// log-probabilities are the smoothed relative frequencies (summing to one over features for the multinomial ...)"; "Integer-valued
// class labels need not be contiguous or start at zero"):
//   class_labels = the distinct labels, ascending;   class_count[c] = #{i : y_i = label c};   class_priors[c] = class_count[c] / n;
//   feature_count[c][f] = sum of x[i][f] over the rows i of class c;   n_features = number of columns;
//   feature_log_prob[c][f] = ln( (feature_count[c][f] + alpha) / (N_c + alpha * n_features) ),  N_c = sum_f feature_count[c][f];
//   the n_features numerators of class c add up to its denominator (the smoothed frequencies of a class sum to one over features).
// + and * are commutative (exactly so in IEEE arithmetic as well), so the formula is accepted with either operand order in
// `count + alpha`, `N_c + (..)` and `alpha * n_features`; nothing else is identified (in particular alpha * (N_c + n_features)
// is a different term).
// Inputs per harness: ONE CONCRETE data set (labels and counts), alpha = SYM(1), an unknown non-negative constant; priors = None.
//
// STATUS: NOT REGISTERED (not admitted).  fit starts with <Vec<T> as RealNumberVector<T>>::unique_with_indices, which indexes the
// labels through a std HashMap, and std's HashMap does not leave CBMC's symbolic execution in admissible time.  Measured here
// (Kani 0.68 / CBMC 6.11, 16 cores, default runner flags):
//   * c11_mult_fit_n2_f2_real below (n = 2 rows, 2 features, 2 classes, SipHash keys fixed): timeout after 1500 s.  The term type
//     needs #[kani::unwind(33)] (31-node terms), and that bound also applies to hashbrown's probe loops and to Kani's 16-lane
//     simd_bitmask model, whose exit conditions CBMC does not decide during symbolic execution.
//   * HashMap<i64, usize> alone (with_capacity(2), 2 inserts, 2 lookups, unwind 8): still in symbolic execution after 7.5 min.
//   * sort_by + dedup alone: 1 s.  Everything after unique_with_indices is cheap (see c11_nb_categorical.rs).
// Replacing the HashMap part by an executable stand-in (as kani/c18_encoder.rs does for CategoryMapper) is not possible with
// Kani 0.68:
//   * #[kani::stub(<std::vec::Vec<Q> as RealNumberVector<Q>>::unique_with_indices, ..)]: "unable to find implementation of
//     associated function ... for Vec<T, A>" -- the method lives in the BLANKET impl `impl<T, V: BaseVector<T>> RealNumberVector<T>
//     for V`, which Kani's path resolver does not search; stubbing the trait method itself is refused ("function does not have a body");
//   * std::collections::HashMap::{insert, get} carry the unstable allocator parameter A (a stub must repeat `A: Allocator`, which
//     needs #![feature(allocator_api)] at the crate root), and the stub of `get` is additionally refused on its (named) lifetime;
//     <HashMap as Index>::index is not resolvable either.
// `verif_unique_with_indices` is kept as the stand-in to attach once the path can be named; the harness below is the *_real variant.
use super::*;
use crate::linalg::naive::dense_matrix::DenseMatrix;
use crate::linalg::BaseMatrix;
const Q_DEPTH: usize = 5;
include!("/verif/kani/c11_term.rs");

#[allow(dead_code)]
fn c11_fixed_random_state() -> std::collections::hash_map::RandomState {
    unsafe { std::mem::transmute::<[u64; 2], std::collections::hash_map::RandomState>([0u64, 0u64]) }
}

// executable stand-in of unique_with_indices for INTEGER labels: (distinct labels ascending, position of each row's label)
#[allow(dead_code)]
fn verif_unique_with_indices(v: &Vec<Q>) -> (Vec<Q>, Vec<usize>) {
    let n = v.len();
    let mut unique: Vec<Q> = Vec::with_capacity(n);
    // insertion of every label into the ascending list of distinct labels
    let mut i = 0;
    while i < n {
        let l = v[i].val0();
        let mut pos = 0;
        let mut seen = false;
        let mut j = 0;
        while j < unique.len() {
            let u = unique[j].val0();
            if u < l {
                pos = j + 1;
            }
            if u == l {
                seen = true;
            }
            j += 1;
        }
        if !seen {
            unique.insert(pos, v[i]);
        }
        i += 1;
    }
    let mut index: Vec<usize> = Vec::with_capacity(n);
    let mut i = 0;
    while i < n {
        let l = v[i].val0();
        let mut j = 0;
        while j < unique.len() {
            if unique[j].val0() == l {
                index.push(j);
            }
            j += 1;
        }
        i += 1;
    }
    (unique, index)
}

// ln((count + alpha) / (n_c + alpha * nf)) up to the operand order of the two sums and of the product
fn verif_is_smoothed_log_frequency(got: &Q, count: usize, n_c: usize, nf: usize, alpha: Q) -> bool {
    let cnt = Q::int(count as i32);
    let tot = Q::int(n_c as i32);
    let nfq = Q::int(nf as i32);
    let nums = [Q::t_add(cnt, alpha), Q::t_add(alpha, cnt)];
    let prods = [Q::t_mul(alpha, nfq), Q::t_mul(nfq, alpha)];
    let mut ok = false;
    let mut a = 0;
    while a < 2 {
        let mut b = 0;
        while b < 2 {
            let dens = [Q::t_add(tot, prods[b]), Q::t_add(prods[b], tot)];
            let mut c = 0;
            while c < 2 {
                let e = Q::t_ln(Q::t_div(nums[a], dens[c]));
                if !e.overflowed() && *got == e {
                    ok = true;
                }
                c += 1;
            }
            b += 1;
        }
        a += 1;
    }
    ok
}

macro_rules! multinomial_fit_body {
    ($n:expr, $nf:expr, $k:expr, $labels:expr, $classes:expr, $data:expr) => {{
        const N: usize = $n;
        const NF: usize = $nf;
        const K: usize = $k;
        let yv: [i32; N] = $labels;
        let classes: [i32; K] = $classes; // the distinct labels, ascending (written out by hand)
        let xv: [[usize; NF]; N] = $data;
        let alpha = Q::sym(1);
        let mut x: DenseMatrix<Q> = DenseMatrix::zeros(N, NF);
        let mut y: Vec<Q> = Vec::with_capacity(N);
        let mut i = 0;
        while i < N {
            y.push(Q::int(yv[i]));
            let mut f = 0;
            while f < NF {
                x.set(i, f, Q::int(xv[i][f] as i32));
                f += 1;
            }
            i += 1;
        }
        let res = MultinomialNBDistribution::fit(&x, &y, alpha, None);
        assert!(res.is_ok(), "multinomial fit: accepts a non-empty training set of counts with alpha >= 0");
        let d = match res {
            Ok(d) => d,
            Err(_) => return,
        };
        assert!(d.class_labels.len() == K, "multinomial fit: one class per distinct label");
        assert!(
            d.class_count.len() == K && d.class_priors.len() == K,
            "multinomial fit: one count and one prior per class"
        );
        assert!(d.n_features == NF, "multinomial fit: n_features is the number of columns");
        assert!(
            d.feature_count.len() == K && d.feature_log_prob.len() == K,
            "multinomial fit: one row of feature statistics per class"
        );
        let mut total = 0usize;
        let mut c = 0;
        while c < K {
            // sufficient statistics of class c, counted by the harness
            let mut cc = 0usize;
            let mut fc = [0usize; NF];
            let mut n_c = 0usize;
            let mut i = 0;
            while i < N {
                if yv[i] == classes[c] {
                    cc += 1;
                    let mut f = 0;
                    while f < NF {
                        fc[f] += xv[i][f];
                        n_c += xv[i][f];
                        f += 1;
                    }
                }
                i += 1;
            }
            assert!(
                d.class_labels[c] == Q::int(classes[c]),
                "multinomial fit: class labels are the distinct labels of y (not contiguous, not starting at zero), ascending"
            );
            assert!(
                d.class_count[c] == cc,
                "multinomial fit: class_count[c] is the number of training rows labelled c"
            );
            assert!(
                d.class_priors[c] == Q::t_div(Q::int(cc as i32), Q::int(N as i32)),
                "multinomial fit: the prior of class c is class_count[c] / n_samples"
            );
            total += d.class_count[c];
            assert!(
                d.feature_count[c].len() == NF && d.feature_log_prob[c].len() == NF,
                "multinomial fit: one entry per feature"
            );
            let mut row_total = 0usize;
            let mut f = 0;
            while f < NF {
                assert!(
                    d.feature_count[c][f] == fc[f],
                    "multinomial fit: feature_count[c][f] is the sum of feature f over the rows of class c"
                );
                assert!(!d.feature_log_prob[c][f].overflowed(), "harness: term depth suffices");
                assert!(
                    verif_is_smoothed_log_frequency(&d.feature_log_prob[c][f], fc[f], n_c, NF, alpha),
                    "multinomial fit: log-probability is the smoothed relative frequency ln((count + alpha) / (class_total + alpha * n_features))"
                );
                row_total += d.feature_count[c][f];
                f += 1;
            }
            assert!(
                row_total == n_c,
                "multinomial fit: the feature counts of a class add up to its class total (smoothed frequencies sum to one over features)"
            );
            c += 1;
        }
        assert!(total == N, "multinomial fit: class counts add up to n_samples (priors sum to one)");
        kani::cover!(d.class_count[K - 1] >= 1 && d.feature_count[0][NF - 1] >= 1);
    }};
}

macro_rules! multinomial_fit_harness_real {
    ($name:ident, $n:expr, $nf:expr, $k:expr, $labels:expr, $classes:expr, $data:expr, $unw:expr) => {
        #[kani::proof]
        #[kani::unwind($unw)]
        #[kani::stub(std::collections::hash_map::RandomState::new, c11_fixed_random_state)]
        fn $name() {
            multinomial_fit_body!($n, $nf, $k, $labels, $classes, $data)
        }
    };
}

//                            name                           n  nf k  labels      classes  data                       unwind
multinomial_fit_harness_real!(c11_mult_fit_n2_f2_real, 2, 2, 2, [0, 1], [0, 1], [[1, 2], [3, 0]], 33);
