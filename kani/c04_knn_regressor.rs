// STATUS: NOT ADMITTED, NOT REGISTERED in specs/C04/property.json.  Measured (loaded sandbox, <= 2 Kani runs at once):
//   c04_knncls_distance_dups_k3 (n=4)        no answer after 12.5 min, CBMC 5.1 GB and growing
//   c04_knncls_distance_dups_n3_k3 (n=3)     no answer after 15 min (timeout), CBMC 5 GB
//   c04_knncls_pfr_distance_dups_n3_k3       (predict_for_row alone, hand-built state) no answer after 9.5 min, 4.5 GB
//   c04_knnreg_distance_exact_k3 (n=4)       stopped after 5.5 min, CBMC 3.3 GB
//   the other harnesses were never run.  The modules compile against the tree (kani-compiler got through to CBMC).
// Seeded bug C04-F is therefore NOT shown detected by these harnesses.
// Kani harnesses for C04 sentence 2 (k-NN regressor), child module of src/neighbors/knn_regressor.rs.
// The REAL KNNRegressor::fit and predict / predict_for_row run on a DenseMatrix<f64> with KNNAlgorithmName::LinearSearch
// (CoverTree::new does not terminate under CBMC, so the cover-tree configuration is NOT exercised) and the Manhattan metric.
// Training matrix and query are CONCRETE (one column): distances and weights are constants.  The TARGETS are symbolic, each
// drawn from {1.0, 4.0}; the only arithmetic on them is target * (constant weight share) and the running sum.
use super::*;
use crate::linalg::naive::dense_matrix::DenseMatrix;
use crate::math::distance::manhattan::Manhattan;

const TA: f64 = 1.0;
const TB: f64 = 4.0;

fn pick_target() -> (bool, f64) {
    let b: bool = kani::any();
    (b, if b { TB } else { TA })
}

fn col(vals: &[f64]) -> DenseMatrix<f64> {
    let mut v: Vec<f64> = Vec::with_capacity(vals.len());
    let mut i = 0;
    while i < vals.len() {
        v.push(vals[i]);
        i += 1;
    }
    DenseMatrix::new(vals.len(), 1, v)
}

fn params(weight: KNNWeightFunction, k: usize) -> KNNRegressorParameters<f64, Manhattan> {
    KNNRegressorParameters {
        distance: Manhattan {},
        algorithm: KNNAlgorithmName::LinearSearch,
        weight,
        k,
        t: PhantomData,
    }
}

fn fit_predict_one(x: &[f64], y: Vec<f64>, weight: KNNWeightFunction, k: usize, q: f64) -> Option<f64> {
    let xm = col(x);
    let knn = match KNNRegressor::fit(&xm, &y, params(weight, k)) {
        Ok(m) => m,
        Err(_) => {
            assert!(false, "KNNRegressor::fit: succeeds for |x| = |y| and k >= 1");
            return None;
        }
    };
    let qm = col(&[q]);
    let r: Vec<f64> = match knn.predict(&qm) {
        Ok(r) => r,
        Err(_) => {
            assert!(false, "KNNRegressor::predict: succeeds for 1 <= k <= n");
            return None;
        }
    };
    assert!(r.len() == 1, "KNNRegressor::predict: one prediction per query row");
    Some(r[0])
}

// x = [[1],[1],[2],[4]], query [1], k = 3, distance weighting: neighbours are rows 0, 1 (exact matches, weight 1) and row 2
// (distance 1, weight 0); the prediction is the mean of the targets of the two exact matches.  With targets from {1, 4} every
// intermediate (t * 0.5, t * 0, the sums) is exact in f64, so the comparison is exact.
#[kani::proof]
#[kani::unwind(6)]
fn c04_knnreg_distance_exact_k3() {
    let (b0, y0) = pick_target();
    let (b1, y1) = pick_target();
    let (_b2, y2) = pick_target();
    let (_b3, y3) = pick_target();
    let y = vec![y0, y1, y2, y3];
    if let Some(p) = fit_predict_one(&[1.0, 1.0, 2.0, 4.0], y, KNNWeightFunction::Distance, 3, 1.0) {
        let expect = if b0 && b1 {
            4.0
        } else if b0 || b1 {
            2.5
        } else {
            1.0
        };
        assert!(p == expect, "KNNRegressor::predict: the distance-weighted mean over the k nearest neighbours (exact matches take all the weight)");
        kani::cover!(b0 != b1 && p == 2.5 && y2 == TB);
    }
}

// x = [[0],[1],[2],[10]], query [1.1], k = 3, uniform weighting: the mean of the targets of rows 0, 1, 2.  With c of the three
// targets equal to 4 and the others 1 the mean is 1 + c; the code adds t * (1/3) three times, compared with |diff| < 1e-9.
#[kani::proof]
#[kani::unwind(6)]
fn c04_knnreg_uniform_k3() {
    let (b0, y0) = pick_target();
    let (b1, y1) = pick_target();
    let (b2, y2) = pick_target();
    let (_b3, y3) = pick_target();
    let y = vec![y0, y1, y2, y3];
    if let Some(p) = fit_predict_one(&[0.0, 1.0, 2.0, 10.0], y, KNNWeightFunction::Uniform, 3, 1.1) {
        let c = (b0 as u8) + (b1 as u8) + (b2 as u8);
        let (lo, hi) = match c {
            0 => (1.0 - 1e-9, 1.0 + 1e-9),
            1 => (2.0 - 1e-9, 2.0 + 1e-9),
            2 => (3.0 - 1e-9, 3.0 + 1e-9),
            _ => (4.0 - 1e-9, 4.0 + 1e-9),
        };
        assert!(p > lo && p < hi, "KNNRegressor::predict: the uniform mean over the k nearest neighbours (within 1e-9)");
        kani::cover!(c == 2 && p > 2.9);
    }
}
