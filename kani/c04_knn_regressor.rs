// Kani harnesses for C04 (k-NN regressor), child module of src/neighbors/knn_regressor.rs.
// KNNRegressor::predict_for_row: "the prediction is the weighted mean of the targets of the k nearest neighbours".
// The estimator is assembled field by field (fit is not harnessed): n = 3 training points, the linear search over the
// harness metric below, fixed k, targets y[i] in {0.0, 1.0}.
//
// Points are one-element rows [id]; the metric is a symbolic symmetric table with entries from {0.0, 1.0, 2.0, 3.0}
// indexed by id; the query is the row [3.0], a point outside the training set.  With uniform weights every term of the
// sum is 0 or 1/k, so the result depends only on HOW MANY of the k nearest targets are 1; the expected value for each
// count is produced by the same left fold on constants (0 + 1/k + .. + 1/k), no arithmetic on symbolic values in the
// harness.  The neighbours are those that `find` (harnessed on its own in c04_linear_knn.rs) returns for the same query.
use super::*;
use crate::algorithm::neighbour::linear_search::LinearKNNSearch;

const IDS: usize = 4;

#[derive(Clone)]
struct TableMetricV {
    t: [[f64; IDS]; IDS],
}

impl Distance<Vec<f64>, f64> for TableMetricV {
    fn distance(&self, a: &Vec<f64>, b: &Vec<f64>) -> f64 {
        self.t[a[0] as usize][b[0] as usize]
    }
}

fn pick_d() -> f64 {
    let s: u8 = kani::any();
    kani::assume(s < 4);
    match s {
        0 => 0.0,
        1 => 1.0,
        2 => 2.0,
        _ => 3.0,
    }
}

fn any_table() -> TableMetricV {
    let mut t = [[0.0f64; IDS]; IDS];
    for a in 0..IDS {
        for b in (a + 1)..IDS {
            let d = pick_d();
            t[a][b] = d;
            t[b][a] = d;
        }
    }
    TableMetricV { t }
}

fn regressor(metric: TableMetricV, y: [bool; 3], weight: KNNWeightFunction, k: usize) -> KNNRegressor<f64, TableMetricV> {
    let search = match LinearKNNSearch::new(vec![vec![0.0], vec![1.0], vec![2.0]], metric) {
        Ok(s) => s,
        Err(_) => {
            kani::assume(false);
            loop {}
        }
    };
    let f = |b: bool| if b { 1.0f64 } else { 0.0f64 };
    KNNRegressor {
        y: vec![f(y[0]), f(y[1]), f(y[2])],
        knn_algorithm: KNNAlgorithm::LinearSearch(search),
        weight,
        k,
    }
}

macro_rules! h_regress_uniform {
    ($name:ident, $k:expr, $unw:expr) => {
        #[kani::proof]
        #[kani::unwind($unw)]
        fn $name() {
            const K: usize = $k;
            let metric = any_table();
            let y: [bool; 3] = kani::any();
            let knn = regressor(metric, y, KNNWeightFunction::Uniform, K);
            let mut ones = 0usize;
            {
                let nb = match knn.knn_algorithm.find(&vec![3.0], K) {
                    Ok(nb) => nb,
                    Err(_) => {
                        assert!(false, "KNNRegressor::predict_for_row: the neighbour query succeeds for 1 <= k <= n");
                        return;
                    }
                };
                assert!(nb.len() == K, "KNNRegressor::predict_for_row: k neighbours are consulted");
                for e in 0..K {
                    if y[nb[e].0] {
                        ones += 1;
                    }
                }
            }
            let p = match knn.predict_for_row(vec![3.0]) {
                Ok(p) => p,
                Err(_) => {
                    assert!(false, "KNNRegressor::predict_for_row: succeeds for 1 <= k <= n");
                    return;
                }
            };
            // mean of `ones` ones and K - ones zeros as the code folds it: 0 + 1/K + .. + 1/K (adding a zero term is exact)
            let share = 1.0f64 * (1.0f64 / (K as f64));
            let mut expect = [0.0f64; K + 1];
            for c in 1..K + 1 {
                expect[c] = expect[c - 1] + share;
            }
            assert!(p == expect[ones], "KNNRegressor::predict_for_row (uniform weights): the prediction is the mean of the targets of the k nearest neighbours");
            kani::cover!(ones == K);
            kani::cover!(ones == 0);
        }
    };
}
h_regress_uniform!(c04_knn_regress_uniform_n3_k1, 1, 10);
h_regress_uniform!(c04_knn_regress_uniform_n3_k2, 2, 10);
h_regress_uniform!(c04_knn_regress_uniform_n3_k3, 3, 10);

// distance weights, exactly one exact match (distance 0) of the query among the training points, k = n = 3:
// the exact match takes all the weight, so the prediction is its target.
#[kani::proof]
#[kani::unwind(10)]
fn c04_knn_regress_exact_match_n3_k3() {
    let metric = any_table();
    let y: [bool; 3] = kani::any();
    let t = metric.t;
    let m: usize = kani::any();
    kani::assume(m < 3);
    for i in 0..3 {
        kani::assume((t[3][i] == 0.0) == (i == m));
    }
    let knn = regressor(metric, y, KNNWeightFunction::Distance, 3);
    let p = match knn.predict_for_row(vec![3.0]) {
        Ok(p) => p,
        Err(_) => {
            assert!(false, "KNNRegressor::predict_for_row: succeeds for 1 <= k <= n");
            return;
        }
    };
    assert!(p == if y[m] { 1.0 } else { 0.0 }, "KNNRegressor::predict_for_row (distance weights): an exact-match neighbour takes all the weight (the prediction is its target)");
    kani::cover!(m == 2 && y[2] && !y[0] && !y[1]);
}
