// Kani harnesses for C03 (statistics along an axis), child module of src/linalg/stats.rs.
//
// Bounded stand-ins for the default bodies MatrixStats::{mean, var, std}(axis) (DenseMatrix<f64> takes them unchanged:
// `impl MatrixStats<T> for DenseMatrix<T> {}`), which the Verus units of specs/C03 cannot read
// (`.iter_mut().enumerate().take(n)`).  NOT a proof: two fixed NON-SQUARE shapes, 2x3 and 3x2, one harness per
// function, shape and axis (macro instances); every cell is one of the three constants {-2.0, 0.5, 3.0} (mixed sign, not
// symmetric), chosen by a symbolic selector, so that CBMC never sees arithmetic on an unconstrained float.
//
// The reference value is the mathematical formula on the LOGICAL rows-by-columns view, written over the row-major input
// `vals` (logical cell (r, c) = vals[r * C + c], independent of `get`) with the operation order of the code (left fold
// from 0.0, then one division by the count), so that the comparison is exact float equality, no tolerance:
//   mean(0)[c] = (sum_r cell(r, c)) / R            mean(axis != 0)[r] = (sum_c cell(r, c)) / C
//   var(0)[c]  = (sum_r cell(r, c)^2) / R - (mean(0)[c])^2   (the population variance E[x^2] - E[x]^2; same for rows)
//   std(axis)[k] = sqrt(var(axis)[k])
// Every axis value other than 0 means "along the rows" (axis 2 is harnessed once).
use super::*;
use crate::linalg::naive::dense_matrix::DenseMatrix;

type Dm = DenseMatrix<f64>;

/// One value of the constant set {-2.0, 0.5, 3.0}, chosen by a symbolic selector (no arithmetic on unknown floats).
fn pick() -> f64 {
    let s: u8 = kani::any();
    kani::assume(s < 3);
    match s {
        0 => -2.0,
        1 => 0.5,
        _ => 3.0,
    }
}

fn pick_n<const N: usize>() -> [f64; N] {
    let mut a = [0.0f64; N];
    for k in 0..N {
        a[k] = pick();
    }
    a
}

/// Logical cell `j` of the line (column for axis 0, row otherwise) `i` of the R x C matrix built from row-major `vals`.
/// Exact model of `powi`: CBMC's own model of the powi intrinsic is a coarse approximation (3.0.powi(2) != 9.0 there), so
/// the var / std harnesses replace `f64::powi` by repeated multiplication (x.powi(2) == x * x bit for bit on real hardware).
fn verif_powi(x: f64, n: i32) -> f64 {
    let mut r = 1.0f64;
    let mut k = 0;
    while k < n {
        r *= x;
        k += 1;
    }
    r
}

macro_rules! cell {
    ($vals:expr, $c:expr, $axis:expr, $i:expr, $j:expr) => {
        if $axis == 0 { $vals[$j * $c + $i] } else { $vals[$i * $c + $j] }
    };
}

// ---------------------------------------------------------------------------------------------- mean
macro_rules! h_mean {
    ($name:ident, $r:expr, $c:expr, $axis:expr, $unw:expr) => {
        #[kani::proof]
        #[kani::unwind($unw)]
        fn $name() {
            const R: usize = $r;
            const C: usize = $c;
            const N: usize = if $axis == 0 { C } else { R }; // number of results
            const M: usize = if $axis == 0 { R } else { C }; // cells per result
            let vals: [f64; R * C] = pick_n::<{ R * C }>();
            let m: Dm = DenseMatrix::from_array(R, C, &vals);
            let mu = m.mean($axis);
            if $axis == 0 {
                assert!(mu.len() == C, "mean: one entry per column (axis 0)");
            } else {
                assert!(mu.len() == R, "mean: one entry per row (axis other than 0)");
            }
            for i in 0..N {
                let mut s = 0.0f64;
                for j in 0..M {
                    s += cell!(vals, C, $axis, i, j);
                }
                let expect = s / (M as f64);
                if $axis == 0 {
                    assert!(mu[i] == expect, "mean: entry i is the arithmetic mean of logical column i (axis 0)");
                } else {
                    assert!(mu[i] == expect, "mean: entry i is the arithmetic mean of logical row i (axis other than 0)");
                }
            }
            for k in 0..R * C {
                assert!(m.get(k / C, k % C) == vals[k], "mean: the matrix is unchanged");
            }
            // vacuity guard: first line all -2.0, last line all 3.0
            kani::cover!(mu[0] == -2.0 && mu[N - 1] == 3.0);
        }
    };
}
h_mean!(c03_stats_mean_2x3_axis0, 2, 3, 0u8, 8);
h_mean!(c03_stats_mean_2x3_axis1, 2, 3, 1u8, 8);
h_mean!(c03_stats_mean_3x2_axis0, 3, 2, 0u8, 8);
h_mean!(c03_stats_mean_3x2_axis1, 3, 2, 1u8, 8);
h_mean!(c03_stats_mean_2x3_axis2, 2, 3, 2u8, 8);

// ---------------------------------------------------------------------------------------------- var
macro_rules! expect_var {
    ($vals:expr, $c:expr, $axis:expr, $i:expr, $m:expr) => {{
        let mut s = 0.0f64;
        let mut sq = 0.0f64;
        for j in 0..$m {
            let a: f64 = cell!($vals, $c, $axis, $i, j);
            s += a;
            sq += a * a;
        }
        let mean = s / ($m as f64);
        sq / ($m as f64) - mean * mean
    }};
}
macro_rules! h_var {
    ($name:ident, $r:expr, $c:expr, $axis:expr, $unw:expr) => {
        #[kani::proof]
        #[kani::unwind($unw)]
        #[kani::stub(f64::powi, verif_powi)]
        fn $name() {
            const R: usize = $r;
            const C: usize = $c;
            const N: usize = if $axis == 0 { C } else { R };
            const M: usize = if $axis == 0 { R } else { C };
            let vals: [f64; R * C] = pick_n::<{ R * C }>();
            let m: Dm = DenseMatrix::from_array(R, C, &vals);
            let v = m.var($axis);
            if $axis == 0 {
                assert!(v.len() == C, "var: one entry per column (axis 0)");
            } else {
                assert!(v.len() == R, "var: one entry per row (axis other than 0)");
            }
            for i in 0..N {
                let expect = expect_var!(vals, C, $axis, i, M);
                if $axis == 0 {
                    assert!(v[i] == expect, "var: entry i is the mean of squares minus the squared mean of logical column i (axis 0), divisor = number of rows");
                } else {
                    assert!(v[i] == expect, "var: entry i is the mean of squares minus the squared mean of logical row i (axis other than 0), divisor = number of columns");
                }
                assert!(v[i] >= 0.0, "var: entries are non-negative on this value set");
            }
            // vacuity guard: a constant first line (variance 0) and a last line that is not constant
            kani::cover!((N == 1 && v[0] > 1.0) || (N > 1 && v[0] == 0.0 && v[N - 1] > 1.0));
        }
    };
}
h_var!(c03_stats_var_2x3_axis0, 2, 3, 0u8, 8);
h_var!(c03_stats_var_2x3_axis1, 2, 3, 1u8, 8);
h_var!(c03_stats_var_3x2_axis0, 3, 2, 0u8, 8);
h_var!(c03_stats_var_3x2_axis1, 3, 2, 1u8, 8);
// one-row and one-column matrices (1xN / Nx1 are named in the property; a shape test on the wrong dimension hides there)
h_var!(c03_stats_var_1x3_axis1, 1, 3, 1u8, 8);
h_var!(c03_stats_var_3x1_axis0, 3, 1, 0u8, 8);

// ---------------------------------------------------------------------------------------------- std
macro_rules! h_std {
    ($name:ident, $r:expr, $c:expr, $axis:expr, $unw:expr) => {
        #[kani::proof]
        #[kani::unwind($unw)]
        #[kani::stub(f64::powi, verif_powi)]
        fn $name() {
            const R: usize = $r;
            const C: usize = $c;
            const N: usize = if $axis == 0 { C } else { R };
            const M: usize = if $axis == 0 { R } else { C };
            let vals: [f64; R * C] = pick_n::<{ R * C }>();
            let m: Dm = DenseMatrix::from_array(R, C, &vals);
            let sd = m.std($axis);
            if $axis == 0 {
                assert!(sd.len() == C, "std: one entry per column (axis 0)");
            } else {
                assert!(sd.len() == R, "std: one entry per row (axis other than 0)");
            }
            for i in 0..N {
                let expect = expect_var!(vals, C, $axis, i, M).sqrt();
                if $axis == 0 {
                    assert!(sd[i] == expect, "std: entry i is the square root of the variance of logical column i (axis 0)");
                } else {
                    assert!(sd[i] == expect, "std: entry i is the square root of the variance of logical row i (axis other than 0)");
                }
            }
            kani::cover!(sd[0] == 0.0 && sd[N - 1] > 1.0);
        }
    };
}
h_std!(c03_stats_std_2x3_axis0, 2, 3, 0u8, 8);
// not registered (514 s / 585 s on the unchanged tree: too close to the admission limit): h_std!(c03_stats_std_2x3_axis1, 2, 3, 1u8, 8);
// not registered (514 s / 585 s on the unchanged tree: too close to the admission limit): h_std!(c03_stats_std_3x2_axis0, 3, 2, 0u8, 8);
h_std!(c03_stats_std_3x2_axis1, 3, 2, 1u8, 8);
