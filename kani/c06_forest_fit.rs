// STATUS: NOT REGISTERED (not admitted). Kani 0.68 gives no verdict: StdRng::seed_from_u64 reaches CPU feature detection
// (`cpuid` inline asm, `llvm.x86.xgetbv`); with __cpuid_count and handle_alloc_error stubbed, 0 of 2245 checks fail but many are
// in status ERROR and the verdict is FAILED -> classified inconclusive by the runner. Kept for a later toolchain.
//
// Kani harnesses for C06, child module of src/ensemble/random_forest_classifier.rs: the REAL `RandomForestClassifier::fit`
// checked as a CALLER against the contracts of its two callees (modular: the callee bodies are replaced by their contracts).
//
//   * `sample_with_replacement(yi, k, rng)` is replaced by `verif_swr_contract`, which ASSERTS the precondition the stratified
//     bootstrap depends on (the c06_strat_* harnesses check the real body under exactly this precondition): `k` is the number
//     of distinct labels and `yi[i]` is the position of the label of row i among the sorted distinct labels (so every class
//     index < k occurs and every row belongs to exactly one stratum).  It returns the all-ones sample.
//   * `DecisionTreeClassifier::fit_weak_learner` is replaced by the stub of kani/c06_tree_fitstub_cls.rs ("returns Ok(some
//     tree)", A-TREE-FIT-ABS); tree growth does not terminate under CBMC.
//
// Obligations read off the property: "fits exactly n_trees member trees"; "every bootstrap sample of the classifier contains
// at least one row of every class" (here: the class indices handed to the stratified sampler are right - the sampler itself is
// c06_strat_*); predictions are "reported as one of the original label values" (classes = sorted distinct labels); with
// keep_samples one in-bag mask per tree and one entry per training row.
//
// Bound: 3 training rows, 1 feature, labels drawn per row from {-3, 2, 7} (non-contiguous, one negative), n_trees = 2.
use super::*;
use crate::linalg::naive::dense_matrix::DenseMatrix;
use crate::linalg::BaseMatrix;

const N: usize = 3;
const LABELS: [f64; 3] = [-3.0, 2.0, 7.0];

static mut VERIF_EXPECT_K: usize = 0;
static mut VERIF_EXPECT_YI: [usize; N] = [0; N];
static mut VERIF_SWR_CALLS: usize = 0;

impl<T: RealNumber> RandomForestClassifier<T> {
    fn verif_swr_contract(y: &[usize], num_classes: usize, _rng: &mut impl Rng) -> Vec<usize> {
        unsafe {
            assert!(
                num_classes == VERIF_EXPECT_K,
                "fit: the number of classes handed to the stratified bootstrap is the number of distinct labels"
            );
            assert!(y.len() == N, "fit: one class index per training row is handed to the stratified bootstrap");
            let mut i = 0;
            while i < N {
                assert!(
                    y[i] == VERIF_EXPECT_YI[i],
                    "fit: the class index of a row handed to the stratified bootstrap is the position of its label among the sorted distinct labels"
                );
                i += 1;
            }
            VERIF_SWR_CALLS += 1;
        }
        let mut s: Vec<usize> = Vec::with_capacity(N);
        let mut i = 0;
        while i < N {
            s.push(1);
            i += 1;
        }
        s
    }
}

// StdRng::seed_from_u64 builds a ChaCha state; its SIMD dispatch asks the CPU for its features through inline asm (`cpuid`),
// which Kani does not support.  The generator is never DRAWN from here (both consumers are stubbed), so the CPU reports
// "no optional features" (A-CPUID-NONE: only selects which implementation rand_chacha would use).
fn verif_cpuid_none(_leaf: u32, _sub_leaf: u32) -> core::arch::x86_64::CpuidResult {
    core::arch::x86_64::CpuidResult { eax: 0, ebx: 0, ecx: 0, edx: 0 }
}

// Allocation failure is not modelled (A-ALLOC-NEVER-FAILS): `handle_alloc_error` calls a foreign function Kani cannot
// translate, and CBMC reports it reachable from Vec growth inside `fit`.
fn verif_alloc_never_fails(_layout: std::alloc::Layout) -> ! {
    kani::assume(false);
    loop {}
}

fn verif_label() -> usize {
    let b: u8 = kani::any();
    kani::assume((b as usize) < LABELS.len());
    b as usize
}

#[kani::proof]
#[kani::unwind(20)]
#[kani::stub(core::arch::x86_64::__cpuid_count, verif_cpuid_none)]
#[kani::stub(std::alloc::handle_alloc_error, verif_alloc_never_fails)]
#[kani::stub(RandomForestClassifier::sample_with_replacement, RandomForestClassifier::verif_swr_contract)]
#[kani::stub(DecisionTreeClassifier::fit_weak_learner, DecisionTreeClassifier::verif_stub_fit_weak_learner)]
fn c06_cls_fit_callers_n3() {
    const N_TREES: usize = 2;
    // labels of the three rows: indices into LABELS
    let l = [verif_label(), verif_label(), verif_label()];
    // which of the three label values occur, and the position of each among the sorted distinct ones (LABELS is ascending)
    let mut present = [false; 3];
    let mut i = 0;
    while i < N {
        present[l[i]] = true;
        i += 1;
    }
    let mut rank = [0usize; 3];
    let mut k = 0;
    let mut v = 0;
    while v < 3 {
        rank[v] = k;
        if present[v] {
            k += 1;
        }
        v += 1;
    }
    unsafe {
        VERIF_EXPECT_K = k;
        VERIF_EXPECT_YI = [rank[l[0]], rank[l[1]], rank[l[2]]];
        VERIF_SWR_CALLS = 0;
    }

    let x: DenseMatrix<f64> = DenseMatrix::zeros(N, 1);
    let mut y: Vec<f64> = Vec::with_capacity(N);
    y.push(LABELS[l[0]]);
    y.push(LABELS[l[1]]);
    y.push(LABELS[l[2]]);

    let params = RandomForestClassifierParameters {
        criterion: SplitCriterion::Gini,
        max_depth: None,
        min_samples_leaf: 1,
        min_samples_split: 2,
        n_trees: N_TREES as u16,
        m: Some(1),
        keep_samples: true,
        seed: 7,
    };
    let r = RandomForestClassifier::<f64>::fit(&x, &y, params);
    assert!(r.is_ok(), "fit (classifier): succeeds on a valid training set");
    let forest = r.unwrap();
    assert!(forest.trees.len() == N_TREES, "fit (classifier): exactly n_trees member trees");
    assert!(
        unsafe { VERIF_SWR_CALLS } == N_TREES,
        "fit (classifier): one bootstrap sample is drawn per member tree"
    );
    assert!(forest.classes.len() == k, "fit (classifier): classes = the distinct label values");
    let mut v = 0;
    while v < 3 {
        if present[v] {
            assert!(
                forest.classes[rank[v]] == LABELS[v],
                "fit (classifier): classes are the original label values in ascending order"
            );
        }
        v += 1;
    }
    match forest.samples {
        Some(ref masks) => {
            assert!(masks.len() == N_TREES, "fit (classifier): keep_samples stores one in-bag mask per tree");
            let mut t = 0;
            while t < N_TREES {
                assert!(masks[t].len() == N, "fit (classifier): an in-bag mask has one entry per training row");
                let mut i = 0;
                while i < N {
                    assert!(masks[t][i], "fit (classifier): a row drawn at least once is marked in-bag");
                    i += 1;
                }
                t += 1;
            }
        }
        None => {
            assert!(false, "fit (classifier): keep_samples stores the in-bag masks");
        }
    }
    kani::cover!(k == 3);
    kani::cover!(k == 1);
    kani::cover!(k == 2 && !present[0]);
}
