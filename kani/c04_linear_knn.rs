// Kani harnesses for C04 (k-nearest-neighbour query of the linear search), child module of
// src/algorithm/neighbour/linear_search.rs.  LinearKNNSearch::find ends in `.into_iter().flat_map(..).collect()`, which the
// Verus units of specs/C04 cannot read (property.json: not_decided "k-NN queries"); this is its bounded stand-in.
//
// Points are `u8` ids; the metric is a harness-defined Distance<u8, f64> backed by a SYMBOLIC SYMMETRIC TABLE with zero
// diagonal whose off-diagonal entries are drawn from {0.0, 1.0, 2.0, 3.0} (duplicates and ties included; find only
// compares distances).  The data vector holds the ids n-1, .., 1, 0 (position i holds id n-1-i, so that a position is never
// its own id); the query is a symbolic id in 0..=n: id n is a point outside the data set, any other id is one of the
// data points (distance 0 to itself).  n and k are FIXED per harness.
//
// Obligations (property C04): "a k-nearest query returns exactly k entries, their distances are the k smallest (every
// returned distance <= every non-returned one), each entry carries the true index / distance / point; k = 0 and k > n
// are refused with Err".
use super::*;

const IDS: usize = 5;

#[derive(Clone)]
struct TableMetric {
    t: [[f64; IDS]; IDS],
}

impl Distance<u8, f64> for TableMetric {
    fn distance(&self, a: &u8, b: &u8) -> f64 {
        self.t[*a as usize][*b as usize]
    }
}

fn pick_d() -> f64 {
    let s: u8 = kani::any();
    kani::assume(s < 4);
    match s {
        0 => 0.0,
        1 => 1.0,
        2 => 2.0,
        _ => 3.0,
    }
}

/// symmetric table over ids 0..m, zero on the diagonal.  Written without a loop: the unwinding bound of a harness is then
/// n + 1, and HeapSelection::sift_down (whose `while` CBMC cannot bound by constant propagation, and whose swaps at symbolic
/// positions are the expensive part of `find`) is unrolled no further than that.
fn any_table(m: usize) -> TableMetric {
    let mut t = [[0.0f64; IDS]; IDS];
    macro_rules! pair {
        ($a:expr, $b:expr) => {
            if $b < m {
                let d = pick_d();
                t[$a][$b] = d;
                t[$b][$a] = d;
            }
        };
    }
    pair!(0, 1);
    pair!(0, 2);
    pair!(0, 3);
    pair!(0, 4);
    pair!(1, 2);
    pair!(1, 3);
    pair!(1, 4);
    pair!(2, 3);
    pair!(2, 4);
    pair!(3, 4);
    TableMetric { t }
}

fn ids_reversed(n: usize) -> Vec<u8> {
    let mut v: Vec<u8> = Vec::with_capacity(n);
    for i in 0..n {
        v.push((n - 1 - i) as u8);
    }
    v
}

macro_rules! h_find {
    ($name:ident, $n:expr, $k:expr, $unw:expr) => {
        #[kani::proof]
        #[kani::unwind($unw)]
        fn $name() {
            const N: usize = $n;
            const K: usize = $k;
            let metric = any_table(N + 1);
            let q: u8 = kani::any();
            kani::assume((q as usize) <= N);
            let s: LinearKNNSearch<u8, f64, TableMetric> = match LinearKNNSearch::new(ids_reversed(N), metric.clone()) {
                Ok(s) => s,
                Err(_) => {
                    assert!(false, "LinearKNNSearch::new: construction succeeds");
                    return;
                }
            };
            let r = match s.find(&q, K) {
                Ok(r) => r,
                Err(_) => {
                    assert!(false, "LinearKNNSearch::find: succeeds for 1 <= k <= n");
                    return;
                }
            };
            assert!(r.len() == K, "LinearKNNSearch::find: returns exactly k entries");
            let mut returned = [false; N];
            for e in 0..K {
                let (idx, d, p) = r[e];
                assert!(idx < N, "LinearKNNSearch::find: every returned index is a position of the data vector");
                assert!(!returned[idx], "LinearKNNSearch::find: no position is returned twice");
                returned[idx] = true;
                let id = (N - 1 - idx) as u8; // the id stored at position idx
                assert!(d.to_bits() == metric.t[q as usize][id as usize].to_bits(), "LinearKNNSearch::find: each entry carries the true distance from the query to the point at its index");
                assert!(*p == id && core::ptr::eq(p, &s.data[idx]), "LinearKNNSearch::find: each entry carries the point stored at its index");
            }
            for e in 0..K {
                for i in 0..N {
                    if !returned[i] {
                        assert!(r[e].1 <= metric.t[q as usize][N - 1 - i], "LinearKNNSearch::find: every returned distance is <= every non-returned one (the k smallest)");
                    }
                }
            }
            // vacuity guard (one loose cover: every cover is a solver call of its own on a formula this size)
            kani::cover!(r.len() == K && r[0].1 > 0.0);
        }
    };
}
h_find!(c04_find_n1_k1, 1, 1, 3);
h_find!(c04_find_n2_k1, 2, 1, 3);
h_find!(c04_find_n2_k2, 2, 2, 3);
h_find!(c04_find_n3_k1, 3, 1, 4);
h_find!(c04_find_n3_k2, 3, 2, 4);
h_find!(c04_find_n3_k3, 3, 3, 4);
h_find!(c04_find_n4_k1, 4, 1, 5);
h_find!(c04_find_n4_k2, 4, 2, 5);
h_find!(c04_find_n4_k3, 4, 3, 5);
h_find!(c04_find_n4_k4, 4, 4, 5);

// k = 0 and k > n are refused
macro_rules! h_find_refused {
    ($name:ident, $n:expr, $k:expr, $unw:expr) => {
        #[kani::proof]
        #[kani::unwind($unw)]
        fn $name() {
            const N: usize = $n;
            const K: usize = $k;
            let metric = any_table(N + 1);
            let q: u8 = kani::any();
            kani::assume((q as usize) <= N);
            let s: LinearKNNSearch<u8, f64, TableMetric> = match LinearKNNSearch::new(ids_reversed(N), metric) {
                Ok(s) => s,
                Err(_) => {
                    assert!(false, "LinearKNNSearch::new: construction succeeds");
                    return;
                }
            };
            let r = s.find(&q, K);
            assert!(r.is_err(), "LinearKNNSearch::find: k = 0 and k > n are refused with Err");
            kani::cover!(r.is_err());
        }
    };
}
h_find_refused!(c04_find_refused_n0_k0, 0, 0, 3);
h_find_refused!(c04_find_refused_n0_k1, 0, 1, 3);
h_find_refused!(c04_find_refused_n1_k0, 1, 0, 3);
h_find_refused!(c04_find_refused_n1_k2, 1, 2, 3);
h_find_refused!(c04_find_refused_n3_k0, 3, 0, 4);
h_find_refused!(c04_find_refused_n3_k4, 3, 4, 4);
h_find_refused!(c04_find_refused_n4_k5, 4, 5, 5);

