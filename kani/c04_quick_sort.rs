// Kani harnesses for the assumed contract A-ARGSORT (specs/prelude/argsort.rs), child module of
// src/algorithm/sort/quick_sort.rs.  Callers of Vec<T>::quick_argsort_mut are verified by Verus against
//     requires len >= 1, no incomparable values (NaN)
//     ensures  idx.len() == n == after.len(), every idx[i] < n, idx pairwise different (a permutation of 0..n),
//              after[i] == before[idx[i]],  after ascending (after[i] <= after[i+1])
// the body (insertion sort below 8 elements, median-of-three partitioning with an explicit stack above) is not a Verus unit.
// Discharged here for every vector of length 1..=7 (= every length that takes the insertion-sort path only) over ALL
// non-NaN f64 values (the function only compares and moves).  The partitioning path (`ir - l >= 7`, length >= 8) is
// exercised by four CONCRETE vectors of length 9 only: with symbolic values (even from a three-valued set, even with a
// single symbolic element) CBMC's symbolic execution of the nested data-dependent loops does not finish in 20 min.
use super::*;

fn any_ordered() -> f64 {
    let v: f64 = kani::any();
    kani::assume(v == v);
    v
}

fn pick3() -> f64 {
    let s: u8 = kani::any();
    kani::assume(s < 3);
    match s {
        0 => 0.0,
        1 => 1.0,
        _ => 2.0,
    }
}

macro_rules! argsort_checks {
    ($before:expr, $v:expr, $idx:expr, $n:expr) => {{
        assert!($idx.len() == $n, "quick_argsort_mut: one index per element");
        assert!($v.len() == $n, "quick_argsort_mut: the vector keeps its length");
        let mut seen = [false; $n];
        for i in 0..$n {
            let p = $idx[i];
            assert!(p < $n, "quick_argsort_mut: every returned index is in range");
            assert!(!seen[p], "quick_argsort_mut: the returned indices are pairwise different (a permutation of 0..n)");
            seen[p] = true;
            assert!($v[i].to_bits() == $before[p].to_bits(), "quick_argsort_mut: new[i] == old[idx[i]]");
        }
        for i in 0..$n {
            if i + 1 < $n {
                assert!($v[i] <= $v[i + 1], "quick_argsort_mut: the vector is sorted ascending afterwards");
            }
        }
    }};
}

macro_rules! h_argsort_any {
    ($name:ident, $n:expr, $unw:expr) => {
        #[kani::proof]
        #[kani::unwind($unw)]
        fn $name() {
            const N: usize = $n;
            let mut before = [0.0f64; N];
            let mut v: Vec<f64> = Vec::with_capacity(N);
            for i in 0..N {
                before[i] = any_ordered();
                v.push(before[i]);
            }
            let idx = v.quick_argsort_mut();
            argsort_checks!(before, v, idx, N);
            kani::cover!(idx[0] == N - 1);
        }
    };
}
h_argsort_any!(c04_argsort_n1, 1, 8);
h_argsort_any!(c04_argsort_n2, 2, 8);
h_argsort_any!(c04_argsort_n3, 3, 8);
h_argsort_any!(c04_argsort_n4, 4, 8);
h_argsort_any!(c04_argsort_n5, 5, 8);
h_argsort_any!(c04_argsort_n6, 6, 8);
h_argsort_any!(c04_argsort_n7, 7, 9);

macro_rules! h_argsort_set {
    ($name:ident, $n:expr, $unw:expr) => {
        #[kani::proof]
        #[kani::unwind($unw)]
        fn $name() {
            const N: usize = $n;
            let mut before = [0.0f64; N];
            let mut v: Vec<f64> = Vec::with_capacity(N);
            for i in 0..N {
                before[i] = pick3();
                v.push(before[i]);
            }
            let idx = v.quick_argsort_mut();
            argsort_checks!(before, v, idx, N);
            kani::cover!(idx[0] == N - 1 && v[0] < v[N - 1]);
        }
    };
}
// (the fully symbolic instances at n = 8 / 9 do not finish symbolic execution within 20 min: not admitted)

// n = 9, the partitioning path: CONCRETE vectors (sorted, reversed, constant, ties), optionally with ONE element replaced
// by a symbolic value of the set {0.0, 1.0, 2.0} at a fixed position.
macro_rules! h_argsort_fixed {
    ($name:ident, $vals:expr, $sympos:expr, $unw:expr) => {
        #[kani::proof]
        #[kani::unwind($unw)]
        fn $name() {
            const N: usize = 9;
            let mut before: [f64; N] = $vals;
            let sympos: Option<usize> = $sympos;
            if let Some(p) = sympos {
                before[p] = pick3();
            }
            let mut v: Vec<f64> = Vec::with_capacity(N);
            for i in 0..N {
                v.push(before[i]);
            }
            let idx = v.quick_argsort_mut();
            argsort_checks!(before, v, idx, N);
            kani::cover!(v[0] <= v[N - 1]);
        }
    };
}
h_argsort_fixed!(c04_argsort_n9_fixed_ties, [1.0, 0.0, 2.0, 1.0, 1.0, 0.0, 2.0, 2.0, 0.0], None, 11);
h_argsort_fixed!(c04_argsort_n9_fixed_sorted, [0.0, 0.0, 0.5, 1.0, 1.0, 1.5, 2.0, 2.0, 3.0], None, 11);
h_argsort_fixed!(c04_argsort_n9_fixed_reversed, [3.0, 2.0, 2.0, 1.5, 1.0, 1.0, 0.5, 0.0, 0.0], None, 11);
h_argsort_fixed!(c04_argsort_n9_fixed_constant, [1.0; 9], None, 11);
// (with one symbolic element, `Some(4)`, symbolic execution does not finish within 10 min either)
