// Kani harnesses for C11, child module of src/naive_bayes/categorical.rs: CategoricalNBDistribution::fit.
// (fit is not a Verus unit: iterator adapters with closures -- map / filter / enumerate / zip / max / collect.)
//
// The function is generic over T: RealNumber and is run with T = Q (kani/c11_term.rs), the free term algebra: every reported
// number is the expression that produced it, so the smoothing FORMULA the property names is compared exactly.
// Obligations read off the property ("categorical ... enumerates 0..max label", "class counts, priors and per-class feature
// statistics ... equal the sufficient statistics of the training data under the documented additive smoothing: priors are
// class frequencies and sum to one ... count-based log-probabilities are the smoothed relative frequencies (summing to one
// ... over categories for the categorical variant)"):
//   class_labels = 0, 1, .., max label;   class_count[c] = #{i : y_i = c};   class_priors[c] = class_count[c] / n;
//   n_categories[f] = 1 + max value of column f;   category_count[f][c][v] = #{i : y_i = c and x_if = v};
//   coefficients[f][c][v] = ln( (category_count[f][c][v] + alpha) / (class_count[c] + n_categories[f] * alpha) );
//   sum_c class_count[c] = n (priors sum to one);  sum_v category_count[f][c][v] = class_count[c] and there are
//   n_categories[f] terms, i.e. the numerators of the smoothed frequencies add up to the denominator (sum to one).
// Inputs per harness: ONE CONCRETE data set (labels and feature values; one of them with labels {0, 2}: class 1 is reported
// with count 0), alpha = SYM(1), an unknown non-negative constant.  Symbolic labels / feature values were tried first: the
// table sizes (max label + 1, max value + 1) then become symbolic allocation sizes and CBMC does not finish (> 10 min at n = 2).
use super::*;
use crate::linalg::naive::dense_matrix::DenseMatrix;
use crate::linalg::BaseMatrix;
const Q_DEPTH: usize = 5;
include!("/verif/kani/c11_term.rs");

macro_rules! categorical_fit_harness {
    ($name:ident, $n:expr, $nf:expr, $ymax:expr, $fmax:expr, $labels:expr, $data:expr, $unw:expr) => {
        #[kani::proof]
        #[kani::unwind($unw)]
        fn $name() {
            const N: usize = $n;
            const NF: usize = $nf;
            const YMAX: usize = $ymax;
            const K: usize = YMAX + 1;
            const FMAX: [usize; NF] = $fmax;
            let yv: [usize; N] = $labels;
            let xv: [[usize; NF]; N] = $data;
            let alpha = Q::sym(1);
            let mut x: DenseMatrix<Q> = DenseMatrix::zeros(N, NF);
            let mut y: Vec<Q> = Vec::with_capacity(N);
            let mut i = 0;
            while i < N {
                y.push(Q::int(yv[i] as i32));
                let mut f = 0;
                while f < NF {
                    x.set(i, f, Q::int(xv[i][f] as i32));
                    f += 1;
                }
                i += 1;
            }
            let res = CategoricalNBDistribution::fit(&x, &y, alpha);
            assert!(res.is_ok(), "categorical fit: accepts a non-empty training set with alpha >= 0");
            let d = match res {
                Ok(d) => d,
                Err(_) => return,
            };
            // expected sufficient statistics, counted by the harness
            let mut cc = [0usize; K];
            let mut i = 0;
            while i < N {
                cc[yv[i]] += 1;
                i += 1;
            }
            assert!(d.class_labels.len() == K, "categorical fit: classes are enumerated 0..=max label");
            assert!(d.class_count.len() == K && d.class_priors.len() == K, "categorical fit: one count and one prior per class");
            assert!(d.n_features == NF, "categorical fit: n_features is the number of columns");
            assert!(d.n_categories.len() == NF, "categorical fit: one category count per feature");
            assert!(d.coefficients.len() == NF && d.category_count.len() == NF, "categorical fit: one table per feature");
            let mut total = 0usize;
            let mut c = 0;
            while c < K {
                assert!(d.class_labels[c] == Q::int(c as i32), "categorical fit: class label c is the integer c");
                assert!(d.class_count[c] == cc[c], "categorical fit: class_count[c] is the number of training rows labelled c");
                assert!(
                    d.class_priors[c] == Q::t_div(Q::int(cc[c] as i32), Q::int(N as i32)),
                    "categorical fit: the prior of class c is class_count[c] / n_samples"
                );
                total += d.class_count[c];
                c += 1;
            }
            assert!(total == N, "categorical fit: class counts add up to n_samples (priors sum to one)");
            let mut f = 0;
            while f < NF {
                let ncat = FMAX[f] + 1;
                assert!(d.n_categories[f] == ncat, "categorical fit: n_categories[f] is 1 + the largest value of column f");
                assert!(
                    d.coefficients[f].len() == K && d.category_count[f].len() == K,
                    "categorical fit: one row per class in the tables of feature f"
                );
                let mut c = 0;
                while c < K {
                    assert!(
                        d.coefficients[f][c].len() == ncat && d.category_count[f][c].len() == ncat,
                        "categorical fit: one entry per category of feature f"
                    );
                    let mut row_total = 0usize;
                    let mut v = 0;
                    while v < ncat {
                        let mut cnt = 0usize;
                        let mut i = 0;
                        while i < N {
                            if yv[i] == c && xv[i][f] == v {
                                cnt += 1;
                            }
                            i += 1;
                        }
                        assert!(
                            d.category_count[f][c][v] == cnt,
                            "categorical fit: category_count[f][c][v] is the number of rows of class c whose feature f equals v"
                        );
                        let expected = Q::t_ln(Q::t_div(
                            Q::t_add(Q::int(cnt as i32), alpha),
                            Q::t_add(Q::int(cc[c] as i32), Q::t_mul(Q::int(ncat as i32), alpha)),
                        ));
                        assert!(!d.coefficients[f][c][v].overflowed() && !expected.overflowed(), "harness: term depth suffices");
                        assert!(
                            d.coefficients[f][c][v] == expected,
                            "categorical fit: log-probability is ln((count + alpha) / (class_count + n_categories * alpha))"
                        );
                        row_total += d.category_count[f][c][v];
                        v += 1;
                    }
                    assert!(
                        row_total == d.class_count[c],
                        "categorical fit: category counts of a class add up to its class count (smoothed frequencies sum to one over categories)"
                    );
                    c += 1;
                }
                f += 1;
            }
            kani::cover!(d.class_count[YMAX] >= 1);
        }
    };
}

//                       name                      n  nf ymax fmax   labels     data                              unwind
categorical_fit_harness!(c11_cat_fit_n2_f1_y1, 2, 1, 1, [1], [0, 1], [[1], [0]], 33);
categorical_fit_harness!(c11_cat_fit_n3_f1_y2, 3, 1, 2, [1], [0, 2, 2], [[0], [1], [1]], 33);
// not admitted (CBMC > 20 min): n = 3, 2 features, labels [0, 2, 2], x = [[0,1],[1,0],[1,2]]

// self-test of the term type: the two ways of building the smoothing formula agree, a different formula does not
#[kani::proof]
#[kani::unwind(33)]
fn c11_q_selftest() {
    let alpha = Q::sym(1);
    let c: u8 = kani::any();
    kani::assume(c < 4);
    let a = num_traits::Float::ln((Q::int(c as i32) + alpha) / (Q::int(3) + Q::int(2) * alpha));
    let b = Q::t_ln(Q::t_div(Q::t_add(Q::int(c as i32), alpha), Q::t_add(Q::int(3), Q::t_mul(Q::int(2), alpha))));
    let w = Q::t_ln(Q::t_div(Q::t_add(Q::int(c as i32), alpha), Q::t_add(Q::int(3), Q::t_div(Q::int(2), alpha))));
    assert!(a == b, "Q: operator terms equal constructor terms");
    assert!(!(a == w), "Q: a different formula is a different term");
    assert!(!a.overflowed(), "Q: depth 5 suffices for the smoothing formula");
    kani::cover!(c == 3);
}
