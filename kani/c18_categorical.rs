// Kani harnesses for C18, child module of src/preprocessing/categorical.rs (sees the private `find_new_idxs`).
// Contract of find_new_idxs, read off the property ("every non-categorical column appears unchanged and in its
// original relative order, every categorical column j is replaced, at its own position, by k_j indicator columns"):
//     len == p   and   r[j] == j + sum_{i : idxs[i] < j} (sizes[i] - 1)
// Shapes (p, m) are fixed per harness; category sizes (1..=3) and the strictly increasing index set are symbolic,
// so one harness covers every m-subset of the p columns.
use super::*;

fn spec_new_idx(j: usize, cat_sizes: &[usize], cat_idxs: &[usize]) -> usize {
    let mut off = 0usize;
    let mut i = 0;
    while i < cat_idxs.len() {
        if cat_idxs[i] < j {
            off += cat_sizes[i] - 1;
        }
        i += 1;
    }
    j + off
}

macro_rules! find_new_idxs_harness {
    ($name:ident, $p:expr, $m:expr, $unw:expr) => {
        #[kani::proof]
        #[kani::unwind($unw)]
        fn $name() {
            const P: usize = $p;
            const M: usize = $m;
            let sizes: [usize; M] = kani::any();
            let idxs: [usize; M] = kani::any();
            let mut i = 0;
            while i < M {
                kani::assume(sizes[i] >= 1 && sizes[i] <= 3);
                kani::assume(idxs[i] < P);
                if i > 0 {
                    kani::assume(idxs[i - 1] < idxs[i]);
                }
                i += 1;
            }
            let r = find_new_idxs(P, &sizes, &idxs);
            assert!(r.len() == P, "find_new_idxs: one new index per old column");
            let j: usize = kani::any();
            kani::assume(j < P);
            assert!(r[j] == spec_new_idx(j, &sizes, &idxs), "find_new_idxs: column j moves right by the widths of the categorical columns before it");
            kani::cover!(r[P - 1] >= P - 1);
        }
    };
}
find_new_idxs_harness!(c18_fni_p2_m1, 2, 1, 5);
find_new_idxs_harness!(c18_fni_p3_m1, 3, 1, 6);
find_new_idxs_harness!(c18_fni_p3_m2, 3, 2, 6);
find_new_idxs_harness!(c18_fni_p3_m3, 3, 3, 6);
find_new_idxs_harness!(c18_fni_p4_m1, 4, 1, 7);
find_new_idxs_harness!(c18_fni_p4_m2, 4, 2, 7);
find_new_idxs_harness!(c18_fni_p4_m3, 4, 3, 7);
find_new_idxs_harness!(c18_fni_p4_m4, 4, 4, 7);
find_new_idxs_harness!(c18_fni_p5_m2, 5, 2, 8);
