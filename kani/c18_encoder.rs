// Kani harnesses for C18: OneHotEncoder::fit + transform as a whole, and CategoryMapper::{get_one_hot, invert_one_hot,
// get_ordinal}.  Child module of src/preprocessing/series_encoder.rs (NOT categorical.rs: the stand-ins below have to build
// a CategoryMapper, whose fields are private to series_encoder.rs; OneHotEncoder's API is public and reached by path).
//
// What is real and what is a stand-in.  std's HashMap does not terminate under CBMC here: CategoryMapper::fit_to_iter on
// THREE CONCRETE u8 items did not leave symbolic execution within 10 min (hashbrown group probing through Kani's SIMD
// models), with the random SipHash keys left nondeterministic or fixed to 0 alike (c11_unique.rs reports the same).  The
// two CategoryMapper functions that touch the HashMap are therefore replaced (kani::stub) by executable copies of the
// contracts Verus proves for them on the text extracted from /repo (specs/C18/mapper_fit.rs, mapper_lookup.rs):
//     fit_to_iter : categories == the items with later duplicates removed (order of first appearance),
//                   num_categories == categories.len()                      [fit-numbers-in-order-of-first-appearance]
//     get_num(c)  : Some(&i) for the i with categories[i] == c, None if c is not a category
//                                                                  [get-num-is-inverse-of-get-cat, get-num-finds-the-index]
// Everything else runs as written in /repo: OneHotEncoder::fit (sorting of the column list, copy_col_as_vec, the
// is_valid check), OneHotEncoder::transform (num_categories, find_new_idxs, get_one_hot, make_one_hot, the copy loops,
// the error return), CategoryMapper::{get_one_hot, invert_one_hot, get_ordinal, get_cat}.  `format!` on the error paths
// is stubbed to return an empty String (kani/README.md: error paths that format! are expensive); no message text is checked.
//
// Shapes.  The width of the output depends on the NUMBER of distinct categories per column, and an allocation size must
// not be symbolic (kani/README.md; measured here: 2x2, one categorical column with values chosen symbolically from {1, 4}
// -> out of memory after 9 min).  So the categorical cells are CONCRETE constants, one harness per layout / tie pattern;
// the pass-through cells are unconstrained symbolic f64 and are compared bit for bit.  The value that is unseen at
// transform time sits in a symbolically chosen row.
//
// Obligations read off the property: the output has shape n x (p + sum_j (k_j - 1)); every non-categorical column j
// appears unchanged at column j + sum_{categorical i < j} (k_i - 1); every categorical column j is replaced, at that
// position, by k_j indicator columns whose single 1 is at the category's index in order of first appearance in the FIT
// data; transform of a matrix holding a value not seen in fit is Err; fit on a column with a non-integer value is Err.
use super::*;
use crate::linalg::naive::dense_matrix::DenseMatrix;
use crate::linalg::BaseMatrix;
use crate::preprocessing::categorical::{OneHotEncoder, OneHotEncoderParams};

// ---------------------------------------------------------------------------------------------------------------
// stand-ins
// ---------------------------------------------------------------------------------------------------------------
#[allow(dead_code)]
fn verif_fixed_random_state() -> std::hash::RandomState {
    // an EMPTY map is all the stand-in needs; RandomState is two u64 keys
    unsafe { core::mem::transmute::<(u64, u64), std::hash::RandomState>((0u64, 0u64)) }
}

#[allow(dead_code)]
fn verif_no_format(_args: core::fmt::Arguments<'_>) -> String {
    String::new()
}

static VERIF_IDX: [usize; 8] = [0, 1, 2, 3, 4, 5, 6, 7];

// same generic structure as the originals (Kani matches stub signatures including the impl-level parameter)
impl<C> CategoryMapper<C>
where
    C: Hash + Eq + Clone,
{
    #[allow(dead_code)]
    fn verif_model_fit_to_iter(categories: impl Iterator<Item = C>) -> Self {
        let mut uniq: Vec<C> = Vec::new();
        for l in categories {
            let mut seen = false;
            let mut i = 0;
            while i < uniq.len() {
                if uniq[i] == l {
                    seen = true;
                }
                i += 1;
            }
            if !seen {
                uniq.push(l);
            }
        }
        Self {
            category_map: HashMap::with_hasher(verif_fixed_random_state()),
            num_categories: uniq.len(),
            categories: uniq,
        }
    }

    #[allow(dead_code)]
    fn verif_model_get_num(&self, category: &C) -> Option<&usize> {
        let mut i = 0;
        while i < self.categories.len() {
            if self.categories[i] == *category {
                return Some(&VERIF_IDX[i]);
            }
            i += 1;
        }
        None
    }
}

// ---------------------------------------------------------------------------------------------------------------
// OneHotEncoder::fit + transform, success path
// ---------------------------------------------------------------------------------------------------------------
fn build<const N: usize, const P: usize>(cells: &[[f64; P]; N]) -> DenseMatrix<f64> {
    let mut x: DenseMatrix<f64> = DenseMatrix::zeros(N, P);
    let mut r = 0;
    while r < N {
        let mut c = 0;
        while c < P {
            x.set(r, c, cells[r][c]);
            c += 1;
        }
        r += 1;
    }
    x
}

// index, in order of first appearance in column j of `fit`, of the value v; N if absent
fn ref_first_appearance<const N: usize, const P: usize>(fit: &[[f64; P]; N], j: usize, v: f64) -> usize {
    let mut distinct = [0.0f64; N];
    let mut len = 0usize;
    let mut r = 0;
    while r < N {
        let mut known = false;
        let mut t = 0;
        while t < len {
            if distinct[t] == fit[r][j] {
                known = true;
            }
            t += 1;
        }
        if !known {
            distinct[len] = fit[r][j];
            len += 1;
        }
        r += 1;
    }
    let mut t = 0;
    while t < len {
        if distinct[t] == v {
            return t;
        }
        t += 1;
    }
    N
}

// number of distinct values in column j of `fit` = number of rows whose value does not occur in an earlier row
fn ref_num_categories<const N: usize, const P: usize>(fit: &[[f64; P]; N], j: usize) -> usize {
    let mut k = 0usize;
    let mut r = 0;
    while r < N {
        let mut earlier = false;
        let mut q = 0;
        while q < r {
            if fit[q][j] == fit[r][j] {
                earlier = true;
            }
            q += 1;
        }
        if !earlier {
            k += 1;
        }
        r += 1;
    }
    k
}

macro_rules! encoder_harness {
    // $cat: [bool; P] which columns are categorical; $params: the (possibly unsorted) index list handed to the encoder;
    // $fit / $tr: [[f64; P]; N] cells of the matrix fitted on / transformed; pass-through cells are overwritten symbolically
    ($name:ident, $n:expr, $p:expr, $cat:expr, $params:expr, $fit:expr, $tr:expr, $unw:expr) => {
        #[kani::proof]
        #[kani::unwind($unw)]
        #[kani::stub(CategoryMapper::fit_to_iter, CategoryMapper::verif_model_fit_to_iter)]
        #[kani::stub(CategoryMapper::get_num, CategoryMapper::verif_model_get_num)]
        #[kani::stub(std::fmt::format, verif_no_format)]
        fn $name() {
            const N: usize = $n;
            const P: usize = $p;
            let cat: [bool; P] = $cat;
            let mut fit: [[f64; P]; N] = $fit;
            let mut tr: [[f64; P]; N] = $tr;
            let mut r = 0;
            while r < N {
                let mut c = 0;
                while c < P {
                    if !cat[c] {
                        fit[r][c] = kani::any();
                        tr[r][c] = kani::any();
                    }
                    c += 1;
                }
                r += 1;
            }
            let x_fit = build(&fit);
            let x_tr = build(&tr);
            let enc = OneHotEncoder::fit(&x_fit, OneHotEncoderParams::from_cat_idx(&$params));
            assert!(enc.is_ok(), "OneHotEncoder::fit: succeeds on integer-valued categorical columns");
            let enc = match enc {
                Ok(e) => e,
                Err(_) => return,
            };
            let out = enc.transform(&x_tr);
            assert!(out.is_ok(), "OneHotEncoder::transform: succeeds when every categorical value was seen in fit");
            let out = match out {
                Ok(m) => m,
                Err(_) => return,
            };
            // reference layout, computed on the harness side
            let mut width = P;
            let mut j = 0;
            while j < P {
                if cat[j] {
                    width += ref_num_categories(&fit, j) - 1;
                }
                j += 1;
            }
            assert!(
                out.shape() == (N, width),
                "OneHotEncoder::transform: the output has n rows and p + sum over categorical columns of (k_j - 1) columns"
            );
            if out.shape() != (N, width) {
                return;
            }
            let mut off = 0usize;
            let mut j = 0;
            while j < P {
                let new_j = j + off;
                if cat[j] {
                    let k = ref_num_categories(&fit, j);
                    let mut r = 0;
                    while r < N {
                        let hot = ref_first_appearance(&fit, j, tr[r][j]);
                        let mut t = 0;
                        while t < k {
                            assert!(
                                out.get(r, new_j + t) == if t == hot { 1.0 } else { 0.0 },
                                "OneHotEncoder::transform: categorical column j becomes, at its own position, k_j indicator columns with the single 1 at the category's first-appearance index"
                            );
                            t += 1;
                        }
                        r += 1;
                    }
                    off += k - 1;
                } else {
                    let mut r = 0;
                    while r < N {
                        assert!(
                            out.get(r, new_j).to_bits() == tr[r][j].to_bits(),
                            "OneHotEncoder::transform: a non-categorical column appears unchanged at column j + sum of (k_i - 1) over categorical i < j"
                        );
                        r += 1;
                    }
                }
                j += 1;
            }
            kani::cover!(out.shape() == (N, width));
        }
    };
}

const Z: f64 = 0.0; // placeholder in pass-through cells (overwritten by kani::any())

// 2 x 3, categorical column 1
encoder_harness!(c18_enc_2x3_cat1_ab, 2, 3, [false, true, false], [1usize], [[Z, 1.0, Z], [Z, 4.0, Z]], [[Z, 1.0, Z], [Z, 4.0, Z]], 8);
encoder_harness!(c18_enc_2x3_cat1_aa, 2, 3, [false, true, false], [1usize], [[Z, 4.0, Z], [Z, 4.0, Z]], [[Z, 4.0, Z], [Z, 4.0, Z]], 8);
// transform a DIFFERENT matrix than the one fitted on: indices come from the fit data (1 -> 0, 4 -> 1)
encoder_harness!(c18_enc_2x3_cat1_ab_other, 2, 3, [false, true, false], [1usize], [[Z, 1.0, Z], [Z, 4.0, Z]], [[Z, 4.0, Z], [Z, 4.0, Z]], 8);
// 2 x 3, categorical columns 0 and 2, handed over unsorted
encoder_harness!(c18_enc_2x3_cat02_ab_aa, 2, 3, [true, false, true], [2usize, 0usize], [[3.0, Z, 7.0], [0.0, Z, 7.0]], [[0.0, Z, 7.0], [3.0, Z, 7.0]], 8);
encoder_harness!(c18_enc_2x3_cat02_ab_ab, 2, 3, [true, false, true], [2usize, 0usize], [[1.0, Z, 5.0], [2.0, Z, 6.0]], [[2.0, Z, 5.0], [2.0, Z, 6.0]], 8);
// 2 x 3, all columns categorical
encoder_harness!(c18_enc_2x3_cat012, 2, 3, [true, true, true], [0usize, 1usize, 2usize], [[0.0, 2.0, 9.0], [1.0, 2.0, 3.0]], [[1.0, 2.0, 3.0], [0.0, 2.0, 9.0]], 8);
// 2 x 3, no column categorical: the output is the input
encoder_harness!(c18_enc_2x3_cat_none, 2, 3, [false, false, false], [0usize; 0], [[Z, Z, Z], [Z, Z, Z]], [[Z, Z, Z], [Z, Z, Z]], 8);
// 3 x 2, categorical column 0 with a repeated category (row 2 maps back to index 0)
encoder_harness!(c18_enc_3x2_cat0_aba, 3, 2, [true, false], [0usize], [[6.0, Z], [2.0, Z], [6.0, Z]], [[6.0, Z], [2.0, Z], [6.0, Z]], 8);

// ---------------------------------------------------------------------------------------------------------------
// error cases
// ---------------------------------------------------------------------------------------------------------------
macro_rules! unseen_harness {
    ($name:ident, $p:expr, $cat_col:expr, $unw:expr) => {
        #[kani::proof]
        #[kani::unwind($unw)]
        #[kani::stub(CategoryMapper::fit_to_iter, CategoryMapper::verif_model_fit_to_iter)]
        #[kani::stub(CategoryMapper::get_num, CategoryMapper::verif_model_get_num)]
        #[kani::stub(std::fmt::format, verif_no_format)]
        fn $name() {
            const P: usize = $p;
            const J: usize = $cat_col;
            // fit: categories 1 and 4 in column J; the other columns symbolic
            let mut fit: [[f64; P]; 2] = kani::any();
            fit[0][J] = 1.0;
            fit[1][J] = 4.0;
            let x_fit = build(&fit);
            let enc = OneHotEncoder::fit(&x_fit, OneHotEncoderParams::from_cat_idx(&[J]));
            assert!(enc.is_ok(), "OneHotEncoder::fit: succeeds on integer-valued categorical columns");
            let enc = match enc {
                Ok(e) => e,
                Err(_) => return,
            };
            // transform: the value 7 (never seen) in a symbolically chosen row, a seen value (1 or 4) in the other row
            let bad_row_is_0: bool = kani::any();
            let other: f64 = if kani::any() { 1.0 } else { 4.0 };
            let mut tr: [[f64; P]; 2] = kani::any();
            tr[0][J] = if bad_row_is_0 { 7.0 } else { other };
            tr[1][J] = if bad_row_is_0 { other } else { 7.0 };
            let x_tr = build(&tr);
            let out = enc.transform(&x_tr);
            assert!(
                out.is_err(),
                "OneHotEncoder::transform: a categorical value that was not seen in fit is reported as an error"
            );
            kani::cover!(out.is_err() && !bad_row_is_0);
        }
    };
}
unseen_harness!(c18_enc_unseen_2x3_cat1, 3, 1, 8);
unseen_harness!(c18_enc_unseen_2x2_cat0, 2, 0, 8);

#[kani::proof]
#[kani::unwind(8)]
#[kani::stub(CategoryMapper::fit_to_iter, CategoryMapper::verif_model_fit_to_iter)]
#[kani::stub(CategoryMapper::get_num, CategoryMapper::verif_model_get_num)]
#[kani::stub(std::fmt::format, verif_no_format)]
fn c18_enc_fit_rejects_noninteger_2x3() {
    // column 1 categorical; 1.5 is not an integer, -1.0 is not a category number (u16)
    let mut a: [[f64; 3]; 2] = kani::any();
    a[0][1] = 2.0;
    a[1][1] = 1.5;
    let r1 = OneHotEncoder::fit(&build(&a), OneHotEncoderParams::from_cat_idx(&[1]));
    assert!(r1.is_err(), "OneHotEncoder::fit: a non-integer value in a categorical column is reported as an error");
    let mut b: [[f64; 3]; 2] = kani::any();
    b[0][1] = -1.0;
    b[1][1] = 2.0;
    let r2 = OneHotEncoder::fit(&build(&b), OneHotEncoderParams::from_cat_idx(&[1]));
    assert!(r2.is_err(), "OneHotEncoder::fit: a negative value in a categorical column is reported as an error");
    // control: the same shape with integer values is accepted
    let mut c: [[f64; 3]; 2] = kani::any();
    c[0][1] = 2.0;
    c[1][1] = 1.0;
    let r3 = OneHotEncoder::fit(&build(&c), OneHotEncoderParams::from_cat_idx(&[1]));
    assert!(r3.is_ok(), "OneHotEncoder::fit: succeeds on integer-valued categorical columns");
    kani::cover!(r1.is_err() && r3.is_ok());
}

// ---------------------------------------------------------------------------------------------------------------
// CategoryMapper<u8>: get_one_hot / invert_one_hot round trip, get_ordinal.  Items concrete (<= 3), query symbolic.
// ---------------------------------------------------------------------------------------------------------------
macro_rules! mapper_harness {
    // $items: the fitted sequence; $cats: its categories in order of first appearance (written out by hand)
    ($name:ident, $n:expr, $k:expr, $items:expr, $cats:expr, $unw:expr) => {
        #[kani::proof]
        #[kani::unwind($unw)]
        #[kani::stub(CategoryMapper::fit_to_iter, CategoryMapper::verif_model_fit_to_iter)]
        #[kani::stub(CategoryMapper::get_num, CategoryMapper::verif_model_get_num)]
        #[kani::stub(std::fmt::format, verif_no_format)]
        fn $name() {
            const N: usize = $n;
            const K: usize = $k;
            let items: [u8; N] = $items;
            let cats: [u8; K] = $cats;
            let mut v: Vec<u8> = Vec::with_capacity(N);
            let mut i = 0;
            while i < N {
                v.push(items[i]);
                i += 1;
            }
            let m: CategoryMapper<u8> = CategoryMapper::fit_to_iter(v.into_iter());
            assert!(m.num_categories() == K, "CategoryMapper: num_categories is the number of distinct items");
            let q: u8 = kani::any();
            // index of q among the categories, K if it is none of them
            let mut want = K;
            let mut t = 0;
            while t < K {
                if cats[t] == q {
                    want = t;
                }
                t += 1;
            }
            let oh: Option<Vec<f64>> = m.get_one_hot::<f64, Vec<f64>>(&q);
            let ord: Option<f64> = m.get_ordinal::<f64>(&q);
            if want == K {
                assert!(oh.is_none(), "CategoryMapper::get_one_hot: None for a value that is not a category");
                assert!(ord.is_none(), "CategoryMapper::get_ordinal: None for a value that is not a category");
            } else {
                assert!(
                    ord == Some(want as f64),
                    "CategoryMapper::get_ordinal: the category's index in order of first appearance"
                );
                assert!(oh.is_some(), "CategoryMapper::get_one_hot: Some for a category");
                if let Some(vec) = oh {
                    assert!(vec.len() == K, "CategoryMapper::get_one_hot: one indicator per category");
                    if vec.len() != K {
                        return;
                    }
                    let mut t = 0;
                    while t < K {
                        assert!(
                            vec[t] == if t == want { 1.0 } else { 0.0 },
                            "CategoryMapper::get_one_hot: the single 1 is at the category's index in order of first appearance"
                        );
                        t += 1;
                    }
                    let back = m.invert_one_hot::<f64, Vec<f64>>(vec);
                    assert!(
                        match back {
                            Ok(c) => c == q,
                            Err(_) => false,
                        },
                        "CategoryMapper::invert_one_hot: inverts get_one_hot (round trip returns the category)"
                    );
                }
            }
            // invert_one_hot on an arbitrary 0/1 vector of length K: Ok exactly when a single entry is 1
            let bits: [bool; K] = kani::any();
            let mut w: Vec<f64> = Vec::with_capacity(K);
            let mut ones = 0usize;
            let mut at = 0usize;
            let mut t = 0;
            while t < K {
                w.push(if bits[t] { 1.0 } else { 0.0 });
                if bits[t] {
                    ones += 1;
                    at = t;
                }
                t += 1;
            }
            let inv = m.invert_one_hot::<f64, Vec<f64>>(w);
            if ones == 1 {
                assert!(
                    match inv {
                        Ok(c) => c == cats[at],
                        Err(_) => false,
                    },
                    "CategoryMapper::invert_one_hot: a vector with a single 1 at index i yields category i"
                );
            } else {
                assert!(inv.is_err(), "CategoryMapper::invert_one_hot: a vector without exactly one 1 is an error");
            }
            kani::cover!(want == K - 1 && ones == 1);
        }
    };
}
mapper_harness!(c18_mapper_u8_n1_k1, 1, 1, [5u8], [5u8], 8);
mapper_harness!(c18_mapper_u8_n2_k2, 2, 2, [5u8, 9u8], [5u8, 9u8], 8);
mapper_harness!(c18_mapper_u8_n3_k2, 3, 2, [9u8, 5u8, 9u8], [9u8, 5u8], 8);
mapper_harness!(c18_mapper_u8_n3_k3, 3, 3, [9u8, 5u8, 7u8], [9u8, 5u8, 7u8], 8);
mapper_harness!(c18_mapper_u8_n3_k1, 3, 1, [0u8, 0u8, 0u8], [0u8], 8);
