// Kani harnesses for C11, child module of src/math/vector.rs: RealNumberVector::unique_with_indices, the function every
// naive Bayes fit (Gaussian, multinomial, Bernoulli) uses to turn the label vector into (class labels, class index per row).
//
// Obligation read off the property: "the class labels ... reported by the fitted model equal the sufficient statistics of
// the training data ... Integer-valued class labels need not be contiguous or start at zero":
//   * the returned labels are strictly ascending (sorted, distinct),
//   * every returned label occurs in the input (no invented class),
//   * one index per input position, and index[i] points at the label of position i (hence every input label is returned).
// Input: a Vec<f64> of fixed length n (one harness per n), every entry chosen by Kani from the non-contiguous integer-valued
// set {-2, 0, 3, 7} (negative and zero included).  The function sorts (sort_by + partial_cmp), dedups and indexes through a
// std HashMap keyed by to_i64: all of that is executed, nothing is stubbed.
use super::*;

fn c11_any_label() -> f64 {
    let s: u8 = kani::any();
    if s == 0 {
        -2.0
    } else if s == 1 {
        0.0
    } else if s == 2 {
        3.0
    } else {
        7.0
    }
}

macro_rules! unique_harness {
    ($name:ident, $n:expr, $unw:expr) => {
        #[kani::proof]
        #[kani::unwind($unw)]
        fn $name() {
            const N: usize = $n;
            let mut v: Vec<f64> = Vec::with_capacity(N);
            let mut i = 0;
            while i < N {
                v.push(c11_any_label());
                i += 1;
            }
            let (unique, index) = v.unique_with_indices();
            let k = unique.len();
            assert!(k >= 1 && k <= N, "unique_with_indices: between 1 and n classes");
            assert!(index.len() == N, "unique_with_indices: one class index per row");
            let mut a = 0;
            while a + 1 < k {
                assert!(unique[a] < unique[a + 1], "unique_with_indices: class labels are sorted ascending and distinct");
                a += 1;
            }
            let mut a = 0;
            while a < k {
                let mut seen = false;
                let mut i = 0;
                while i < N {
                    if v[i] == unique[a] {
                        seen = true;
                    }
                    i += 1;
                }
                assert!(seen, "unique_with_indices: every class label occurs in the training labels");
                a += 1;
            }
            let mut i = 0;
            while i < N {
                assert!(index[i] < k, "unique_with_indices: every class index is in range");
                if index[i] < k {
                    assert!(unique[index[i]] == v[i], "unique_with_indices: index[i] points at the label of row i");
                }
                i += 1;
            }
            kani::cover!(k == N);
            kani::cover!(k == 1);
        }
    };
}

unique_harness!(c11_unique_n1, 1, 6);
unique_harness!(c11_unique_n2, 2, 7);
unique_harness!(c11_unique_n3, 3, 8);
unique_harness!(c11_unique_n4, 4, 9);
