// Kani harnesses for C11, child module of src/math/vector.rs: RealNumberVector::unique_with_indices, the function every
// naive Bayes fit (Gaussian, multinomial, Bernoulli) uses to turn the label vector into (class labels, class index per row).
//
// Obligation read off the property: "the class labels ... reported by the fitted model equal the sufficient statistics of
// the training data ... Integer-valued class labels need not be contiguous or start at zero":
//   * the returned labels are strictly ascending (sorted, distinct),
//   * every returned label occurs in the input (no invented class),
//   * one index per input position, and index[i] points at the label of position i (hence every input label is returned).
// Input: ONE CONCRETE label vector per harness (non-contiguous, a negative label, a repeated label).  The function sorts
// (sort_by + partial_cmp), dedups and indexes through a std HashMap keyed by to_i64: all of that is executed; only the random
// SipHash keys of the map are fixed (see below).  Measured: with the labels chosen by Kani from {-2, 0, 3, 7} CBMC does not
// finish within 25 min already at n = 2 (std HashMap / hashbrown), with or without fixed keys; the concrete vector [3, -2, 3]
// takes about 10 min.  That is why this harness is in the thorough tier and why symbolic labels are NOT covered.
use super::*;

// std's RandomState::new() draws the SipHash keys from the OS; under Kani that makes every bucket position symbolic.
// The keys are irrelevant to the function's result, so the harnesses fix them (k0 = k1 = 0; RandomState is two u64).
#[allow(dead_code)]
fn c11_fixed_random_state() -> std::collections::hash_map::RandomState {
    unsafe { std::mem::transmute::<[u64; 2], std::collections::hash_map::RandomState>([0u64, 0u64]) }
}

// concrete label vectors (every step of the HashMap is then concrete for CBMC)
macro_rules! unique_concrete_harness {
    ($name:ident, $n:expr, $k:expr, $labels:expr, $classes:expr, $index:expr, $unw:expr) => {
        #[kani::proof]
        #[kani::unwind($unw)]
        #[kani::stub(std::collections::hash_map::RandomState::new, c11_fixed_random_state)]
        fn $name() {
            const N: usize = $n;
            const K: usize = $k;
            const LABELS: [f64; N] = $labels;
            const CLASSES: [f64; K] = $classes;
            const INDEX: [usize; N] = $index;
            let mut v: Vec<f64> = Vec::with_capacity(N);
            let mut i = 0;
            while i < N {
                v.push(LABELS[i]);
                i += 1;
            }
            let (unique, index) = v.unique_with_indices();
            assert!(unique.len() == K, "unique_with_indices: one class per distinct label");
            assert!(index.len() == N, "unique_with_indices: one class index per row");
            let mut a = 0;
            while a < K {
                assert!(unique[a] == CLASSES[a], "unique_with_indices: class labels are the distinct labels, sorted ascending");
                a += 1;
            }
            let mut i = 0;
            while i < N {
                assert!(index[i] == INDEX[i], "unique_with_indices: index[i] points at the label of row i");
                i += 1;
            }
            kani::cover!(unique.len() == K);
        }
    };
}
unique_concrete_harness!(c11_unique_fixed_n3_k2, 3, 2, [3.0, -2.0, 3.0], [-2.0, 3.0], [1, 0, 1], 8);
