// Kani harnesses for C15 (metrics), child module of src/metrics/mod.rs.  PAIRED harnesses: each shadows a Verus unit of
// specs/C15 (key fallback_for) and decides, bounded, when that unit can no longer read a restructured function.
//
// (a) rejection  c15_<metric>_rejects_{2v3,3v2}:  "accuracy, precision, recall, F-beta, MSE, MAE and R^2 never return
//     normally on vectors of unequal length".  #[kani::should_panic], FIXED lengths 2 vs 3 and 3 vs 2, values chosen
//     symbolically from {0.0, 1.0} for the binary metrics (so that the only reason to panic is the length) and from
//     {0.0, 1.0, 2.0} otherwise.  In /repo the panic precedes every arithmetic operation, so these are float-free there;
//     the constant value sets keep a changed function that does reach its arithmetic decidable (violation, not timeout).
//     AUC has no rejection harness: the property's rejection clause names the pairwise metrics only, and the code does not
//     check lengths (2 labels vs 3 scores returns normally whenever the two smallest scores are at index 0 and 1).
// (b) values, on the success path, without float arithmetic on unconstrained symbolic floats:
//     accuracy  = #equal / n           n = 1..3, entries from {0.0, 1.0, 2.0} chosen by symbolic bytes
//     precision = tp / #predicted-one  n = 1..3, binary labels; cases with denominator 0 are outside the domain (skipped)
//     recall    = tp / #true-one       likewise
//     AUC       = (#concordant + 1/2 #ties) / (pos * neg)   pair-counting definition, n = 3 and 4, scores from a 3-valued
//                 set (ties!), labels binary with pos, neg >= 1.  All intermediate values of the code (ranks k or k/2, sums)
//                 and the reference are small dyadic rationals, the final quotient is a correctly rounded division of two
//                 exactly represented small integers (numerator taken times two), so equality is exact.
//     The reference is computed on INTEGERS in the harness; the result is compared with `k as f64 / d as f64` for the
//     concrete (k, d) selected by a case split, so the harness side needs no symbolic float operation.
use super::*;

fn pick3(b: u8) -> f64 {
    if b == 0 {
        0.0
    } else if b == 1 {
        1.0
    } else {
        2.0
    }
}

fn pick2(b: bool) -> f64 {
    if b {
        1.0
    } else {
        0.0
    }
}

// ---------------------------------------------------------------------------------------------------------------
// (a) rejection
// ---------------------------------------------------------------------------------------------------------------
macro_rules! rejects {
    // $call: closure (y_true, y_pred) -> f64 invoking the metric
    ($name:ident, $na:expr, $nb:expr, $binary:expr, $call:expr) => {
        #[kani::proof]
        #[kani::unwind(6)]
        #[kani::should_panic]
        fn $name() {
            const NA: usize = $na;
            const NB: usize = $nb;
            let mut a: Vec<f64> = Vec::with_capacity(NA);
            let mut b: Vec<f64> = Vec::with_capacity(NB);
            let mut i = 0;
            while i < NA {
                a.push(if $binary { pick2(kani::any()) } else { pick3(kani::any()) });
                i += 1;
            }
            let mut i = 0;
            while i < NB {
                b.push(if $binary { pick2(kani::any()) } else { pick3(kani::any()) });
                i += 1;
            }
            let f = $call;
            let _r: f64 = f(&a, &b);
            // reaching this point = the metric returned normally on vectors of unequal length: should_panic then fails
        }
    };
}

rejects!(c15_accuracy_rejects_2v3, 2, 3, false, |t: &Vec<f64>, p: &Vec<f64>| accuracy::Accuracy {}.get_score(t, p));
rejects!(c15_accuracy_rejects_3v2, 3, 2, false, |t: &Vec<f64>, p: &Vec<f64>| accuracy::Accuracy {}.get_score(t, p));
rejects!(c15_precision_rejects_2v3, 2, 3, true, |t: &Vec<f64>, p: &Vec<f64>| precision::Precision {}.get_score(t, p));
rejects!(c15_precision_rejects_3v2, 3, 2, true, |t: &Vec<f64>, p: &Vec<f64>| precision::Precision {}.get_score(t, p));
rejects!(c15_recall_rejects_2v3, 2, 3, true, |t: &Vec<f64>, p: &Vec<f64>| recall::Recall {}.get_score(t, p));
rejects!(c15_recall_rejects_3v2, 3, 2, true, |t: &Vec<f64>, p: &Vec<f64>| recall::Recall {}.get_score(t, p));
rejects!(c15_f1_rejects_2v3, 2, 3, true, |t: &Vec<f64>, p: &Vec<f64>| f1::F1 { beta: 1.0 }.get_score(t, p));
rejects!(c15_f1_rejects_3v2, 3, 2, true, |t: &Vec<f64>, p: &Vec<f64>| f1::F1 { beta: 1.0 }.get_score(t, p));
rejects!(c15_mse_rejects_2v3, 2, 3, false, |t: &Vec<f64>, p: &Vec<f64>| mean_squared_error::MeanSquareError {}
    .get_score(t, p));
rejects!(c15_mse_rejects_3v2, 3, 2, false, |t: &Vec<f64>, p: &Vec<f64>| mean_squared_error::MeanSquareError {}
    .get_score(t, p));
rejects!(c15_mae_rejects_2v3, 2, 3, false, |t: &Vec<f64>, p: &Vec<f64>| mean_absolute_error::MeanAbsoluteError {}
    .get_score(t, p));
rejects!(c15_mae_rejects_3v2, 3, 2, false, |t: &Vec<f64>, p: &Vec<f64>| mean_absolute_error::MeanAbsoluteError {}
    .get_score(t, p));
rejects!(c15_r2_rejects_2v3, 2, 3, false, |t: &Vec<f64>, p: &Vec<f64>| r2::R2 {}.get_score(t, p));
rejects!(c15_r2_rejects_3v2, 3, 2, false, |t: &Vec<f64>, p: &Vec<f64>| r2::R2 {}.get_score(t, p));

// ---------------------------------------------------------------------------------------------------------------
// (b) values
// ---------------------------------------------------------------------------------------------------------------
macro_rules! accuracy_value {
    ($name:ident, $n:expr, $unw:expr) => {
        #[kani::proof]
        #[kani::unwind($unw)]
        fn $name() {
            const N: usize = $n;
            let ta: [u8; N] = kani::any();
            let pa: [u8; N] = kani::any();
            let mut t: Vec<f64> = Vec::with_capacity(N);
            let mut p: Vec<f64> = Vec::with_capacity(N);
            let mut count = 0usize;
            let mut i = 0;
            while i < N {
                kani::assume(ta[i] < 3 && pa[i] < 3);
                t.push(pick3(ta[i]));
                p.push(pick3(pa[i]));
                if ta[i] == pa[i] {
                    count += 1;
                }
                i += 1;
            }
            let res: f64 = accuracy::Accuracy {}.get_score(&t, &p);
            let mut k = 0;
            while k <= N {
                if count == k {
                    assert!(
                        res == k as f64 / N as f64,
                        "Accuracy::get_score: the result is (number of positions with equal entries) / n"
                    );
                }
                k += 1;
            }
            kani::cover!(count == N && res == 1.0);
        }
    };
}
accuracy_value!(c15_accuracy_value_n1, 1, 4);
accuracy_value!(c15_accuracy_value_n2, 2, 5);
accuracy_value!(c15_accuracy_value_n3, 3, 6);

macro_rules! pr_value {
    // $which: true = precision (denominator: predicted one), false = recall (denominator: true one)
    ($name:ident, $n:expr, $unw:expr, $which:expr, $msg:expr) => {
        #[kani::proof]
        #[kani::unwind($unw)]
        fn $name() {
            const N: usize = $n;
            let ta: [bool; N] = kani::any();
            let pa: [bool; N] = kani::any();
            let mut t: Vec<f64> = Vec::with_capacity(N);
            let mut p: Vec<f64> = Vec::with_capacity(N);
            let mut tp = 0usize;
            let mut den = 0usize;
            let mut i = 0;
            while i < N {
                t.push(pick2(ta[i]));
                p.push(pick2(pa[i]));
                if ta[i] && pa[i] {
                    tp += 1;
                }
                if (if $which { pa[i] } else { ta[i] }) {
                    den += 1;
                }
                i += 1;
            }
            kani::assume(den > 0); // degenerate denominator: not decided by the property (0/0)
            let res: f64 = if $which {
                precision::Precision {}.get_score(&t, &p)
            } else {
                recall::Recall {}.get_score(&t, &p)
            };
            let mut d = 1;
            while d <= N {
                let mut k = 0;
                while k <= d {
                    if den == d && tp == k {
                        assert!(res == k as f64 / d as f64, $msg);
                    }
                    k += 1;
                }
                d += 1;
            }
            kani::cover!(den == N && tp == N && res == 1.0);
        }
    };
}
pr_value!(c15_precision_value_n1, 1, 4, true, "Precision::get_score: the result is (true positives) / (number predicted one)");
pr_value!(c15_precision_value_n2, 2, 5, true, "Precision::get_score: the result is (true positives) / (number predicted one)");
pr_value!(c15_precision_value_n3, 3, 6, true, "Precision::get_score: the result is (true positives) / (number predicted one)");
pr_value!(c15_recall_value_n1, 1, 4, false, "Recall::get_score: the result is (true positives) / (number truly one)");
pr_value!(c15_recall_value_n2, 2, 5, false, "Recall::get_score: the result is (true positives) / (number truly one)");
pr_value!(c15_recall_value_n3, 3, 6, false, "Recall::get_score: the result is (true positives) / (number truly one)");

// AUC against the pair-counting definition.  Scores from {0.25, 0.5, 0.75} by symbolic bytes, labels binary.
// twice_num = 2 * #(positive, negative) pairs with score(pos) > score(neg)  +  #(positive, negative) pairs with equal scores
// expected  = twice_num / (2 * pos * neg)
macro_rules! auc_value {
    ($name:ident, $n:expr, $unw:expr) => {
        #[kani::proof]
        #[kani::unwind($unw)]
        fn $name() {
            const N: usize = $n;
            let la: [bool; N] = kani::any();
            let sa: [u8; N] = kani::any();
            let mut y: Vec<f64> = Vec::with_capacity(N);
            let mut s: Vec<f64> = Vec::with_capacity(N);
            let mut pos = 0usize;
            let mut i = 0;
            while i < N {
                kani::assume(sa[i] < 3);
                y.push(pick2(la[i]));
                s.push(if sa[i] == 0 {
                    0.25
                } else if sa[i] == 1 {
                    0.5
                } else {
                    0.75
                });
                if la[i] {
                    pos += 1;
                }
                i += 1;
            }
            let neg = N - pos;
            kani::assume(pos > 0 && neg > 0); // pos*neg = 0: degenerate denominator, not decided by the property
            let mut twice_num = 0usize;
            let mut a = 0;
            while a < N {
                let mut b = 0;
                while b < N {
                    if la[a] && !la[b] {
                        if sa[a] > sa[b] {
                            twice_num += 2;
                        } else if sa[a] == sa[b] {
                            twice_num += 1;
                        }
                    }
                    b += 1;
                }
                a += 1;
            }
            let res: f64 = auc::AUC {}.get_score(&y, &s);
            // expected value: table lookup (built at compile time from concrete integers), no loop, no symbolic division
            const D2: usize = 2 * (N / 2) * (N - N / 2); // largest 2*pos*neg
            const TABLE: [[f64; D2 + 1]; N] = {
                let mut t = [[0.0f64; D2 + 1]; N];
                let mut pp = 1;
                while pp < N {
                    let mut k = 0;
                    while k <= D2 {
                        t[pp][k] = k as f64 / (2 * pp * (N - pp)) as f64;
                        k += 1;
                    }
                    pp += 1;
                }
                t
            };
            assert!(twice_num <= 2 * pos * neg && twice_num <= D2, "harness: pair count within range");
            assert!(
                res == TABLE[pos][twice_num],
                "AUC::get_score: the result is P(score of a positive > score of a negative) + 1/2 P(tie) over all (positive, negative) pairs"
            );
            kani::cover!(pos == 1 && twice_num == 1);
        }
    };
}
auc_value!(c15_auc_value_n2, 2, 3);
auc_value!(c15_auc_value_n3, 3, 4);
auc_value!(c15_auc_value_n4, 4, 5);
