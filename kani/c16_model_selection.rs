// Kani harnesses for C16, child module of src/model_selection/mod.rs: train_test_split and cross_val_predict.
//
// train_test_split (shuffle = false), obligation read off the property: "returns disjoint train and test parts that
// together are a permutation of the input rows, each target still attached to its own row, the test part holding the
// integer part of n*test_size rows (evaluated in single precision) and, when shuffling is off, being the leading rows
// in original order".  Row i carries its id i in column 0 and two symbolic payloads (column 1 of x, and y[i]); after
// the split  test row j must be input row j,  train row j must be input row n_test + j,  payloads compared bit for bit.
// The shape of the outputs depends on (n, test_size): one harness per concrete pair (DESIGN.md section 2); pairs with
// floor(n*test_size) = 0 are refused by the code (panic "number of sample is too small") and are not in the domain.
//
// cross_val_predict, obligation: "fit one model per fold on exactly that fold's training rows, ... predict exactly its
// held-out rows, and place every held-out prediction at the sample's original position, so no sample is ever predicted
// by a model that has seen it".  A spy estimator records, per fit call t, the set of row ids it was fitted on and the
// set of row ids it was asked to predict; its prediction for a row is the code (t+1)*16 + row id.  The real KFold
// (shuffle = false, fixed k) is the splitter.  One harness per concrete (n, k).
// shuffle = true is NOT covered for either function (thread_rng stub diverges), see property.json not_decided.
use super::*;
use crate::linalg::naive::dense_matrix::DenseMatrix;
use crate::linalg::BaseMatrix;
use core::cell::RefCell;

#[allow(dead_code)]
fn verif_diverge_rng() -> rand::rngs::ThreadRng {
    kani::assume(false);
    loop {}
}

// ---------------------------------------------------------------------------------------------------------------
// train_test_split
// ---------------------------------------------------------------------------------------------------------------
macro_rules! tts_harness {
    // $nt = floor(n * test_size) in f32, written out by hand (independent of the code's expression)
    ($name:ident, $n:expr, $ts:expr, $nt:expr, $unw:expr) => {
        #[kani::proof]
        #[kani::unwind($unw)]
        #[kani::stub(rand::thread_rng, verif_diverge_rng)]
        fn $name() {
            const N: usize = $n;
            const NT: usize = $nt;
            let test_size: f32 = $ts;
            let px: [f64; N] = kani::any();
            let py: [f64; N] = kani::any();
            let mut x: DenseMatrix<f64> = DenseMatrix::zeros(N, 2);
            let mut y: Vec<f64> = Vec::with_capacity(N);
            let mut i = 0;
            while i < N {
                x.set(i, 0, i as f64);
                x.set(i, 1, px[i]);
                y.push(py[i]);
                i += 1;
            }
            let (x_train, x_test, y_train, y_test) = train_test_split(&x, &y, test_size, false);
            assert!(
                x_test.shape().0 == NT && y_test.len() == NT,
                "train_test_split: the test part holds floor(n*test_size) rows (single precision) in x and in y"
            );
            assert!(
                x_train.shape().0 == N - NT && y_train.len() == N - NT,
                "train_test_split: the train part holds the remaining n - floor(n*test_size) rows in x and in y"
            );
            assert!(
                x_test.shape().1 == 2 && x_train.shape().1 == 2,
                "train_test_split: both parts keep all columns"
            );
            let mut j = 0;
            while j < NT {
                assert!(
                    x_test.get(j, 0) == j as f64,
                    "train_test_split: without shuffling the test part is the LEADING rows in original order"
                );
                assert!(
                    x_test.get(j, 1).to_bits() == px[j].to_bits(),
                    "train_test_split: a test row keeps all of its features"
                );
                assert!(
                    y_test[j].to_bits() == py[j].to_bits(),
                    "train_test_split: each test target is still attached to its own row"
                );
                j += 1;
            }
            let mut j = 0;
            while j < N - NT {
                assert!(
                    x_train.get(j, 0) == (NT + j) as f64,
                    "train_test_split: without shuffling the train part is the remaining rows in original order (disjoint from test, together all rows)"
                );
                assert!(
                    x_train.get(j, 1).to_bits() == px[NT + j].to_bits(),
                    "train_test_split: a train row keeps all of its features"
                );
                assert!(
                    y_train[j].to_bits() == py[NT + j].to_bits(),
                    "train_test_split: each train target is still attached to its own row"
                );
                j += 1;
            }
            kani::cover!(x_test.shape().0 == NT && x_train.shape().0 + x_test.shape().0 == N);
        }
    };
}

//            name                 n  test_size  floor(n*ts)  unwind
tts_harness!(c16_tts_n1_ts100, 1, 1.0, 1, 4);
tts_harness!(c16_tts_n2_ts050, 2, 0.5, 1, 5);
tts_harness!(c16_tts_n2_ts075, 2, 0.75, 1, 5);
tts_harness!(c16_tts_n2_ts100, 2, 1.0, 2, 5);
tts_harness!(c16_tts_n3_ts050, 3, 0.5, 1, 6);
tts_harness!(c16_tts_n3_ts075, 3, 0.75, 2, 6);
tts_harness!(c16_tts_n3_ts100, 3, 1.0, 3, 6);
tts_harness!(c16_tts_n4_ts025, 4, 0.25, 1, 7);
tts_harness!(c16_tts_n4_ts050, 4, 0.5, 2, 7);
tts_harness!(c16_tts_n4_ts075, 4, 0.75, 3, 7);
tts_harness!(c16_tts_n4_ts100, 4, 1.0, 4, 7);
// pairs on which the single-precision product rounds UP to an integer that the double-precision product stays below
// (10 * 0.7f32 == 7.0f32 but 10.0f64 * 0.7f32 as f64 < 7): the property says the product is evaluated in single precision
tts_harness!(c16_tts_n10_ts070, 10, 0.7, 7, 13);
tts_harness!(c16_tts_n20_ts035, 20, 0.35, 7, 23);

// ---------------------------------------------------------------------------------------------------------------
// cross_val_predict with a spy estimator
// ---------------------------------------------------------------------------------------------------------------
const SPY_MAX_FITS: usize = 8;

struct SpyLog {
    n_fits: usize,
    train_mask: [usize; SPY_MAX_FITS], // bit i set <=> model t was fitted on row id i
    train_rows: [usize; SPY_MAX_FITS], // number of rows model t was fitted on (a mask cannot see duplicates)
    pred_mask: [usize; SPY_MAX_FITS],  // bit i set <=> model t was asked to predict row id i
    pred_rows: [usize; SPY_MAX_FITS],
    pred_calls: [usize; SPY_MAX_FITS],
}

struct SpyModel<'a> {
    tag: usize,
    log: &'a RefCell<SpyLog>,
}

impl<'a> Predictor<DenseMatrix<f64>, Vec<f64>> for SpyModel<'a> {
    fn predict(&self, x: &DenseMatrix<f64>) -> Result<Vec<f64>, Failed> {
        let (m, _) = x.shape();
        let mut out: Vec<f64> = Vec::with_capacity(m);
        let mut mask = 0usize;
        let mut r = 0;
        while r < m {
            let id = x.get(r, 0) as usize;
            mask |= 1usize << id;
            // echo: which model, which row (integer casts only, no float arithmetic)
            out.push(((self.tag + 1) * 16 + id) as f64);
            r += 1;
        }
        let mut log = self.log.borrow_mut();
        log.pred_mask[self.tag] |= mask;
        log.pred_rows[self.tag] += m;
        log.pred_calls[self.tag] += 1;
        Ok(out)
    }
}

macro_rules! cvp_harness {
    ($name:ident, $n:expr, $k:expr, $unw:expr) => {
        #[kani::proof]
        #[kani::unwind($unw)]
        #[kani::stub(rand::thread_rng, verif_diverge_rng)]
        fn $name() {
            const N: usize = $n;
            const K: usize = $k;
            const FULL: usize = (1usize << N) - 1;
            let py: [f64; N] = kani::any();
            let mut x: DenseMatrix<f64> = DenseMatrix::zeros(N, 1);
            let mut y: Vec<f64> = Vec::with_capacity(N);
            let mut i = 0;
            while i < N {
                x.set(i, 0, i as f64);
                y.push(py[i]);
                i += 1;
            }
            let log = RefCell::new(SpyLog {
                n_fits: 0,
                train_mask: [0; SPY_MAX_FITS],
                train_rows: [0; SPY_MAX_FITS],
                pred_mask: [0; SPY_MAX_FITS],
                pred_rows: [0; SPY_MAX_FITS],
                pred_calls: [0; SPY_MAX_FITS],
            });
            let fit = |tx: &DenseMatrix<f64>, ty: &Vec<f64>, _p: ()| -> Result<SpyModel, Failed> {
                let (m, _) = tx.shape();
                assert!(ty.len() == m, "cross_val_predict: fit receives one target per training row");
                let mut mask = 0usize;
                let mut r = 0;
                while r < m {
                    let id = tx.get(r, 0) as usize;
                    mask |= 1usize << id;
                    assert!(
                        ty[r].to_bits() == py[id].to_bits(),
                        "cross_val_predict: each training target is the target of its own row"
                    );
                    r += 1;
                }
                let mut l = log.borrow_mut();
                let t = l.n_fits;
                assert!(t < K, "cross_val_predict: at most one model is fitted per fold");
                l.train_mask[t] = mask;
                l.train_rows[t] = m;
                l.n_fits = t + 1;
                Ok(SpyModel { tag: t, log: &log })
            };
            let cv = KFold {
                n_splits: K,
                shuffle: false,
            };
            let res = cross_val_predict(fit, &x, &y, (), cv);
            assert!(res.is_ok(), "cross_val_predict: succeeds when every fit and predict succeeds");
            let y_hat = match res {
                Ok(v) => v,
                Err(_) => return,
            };
            assert!(y_hat.len() == N, "cross_val_predict: one prediction per sample");
            let l = log.borrow();
            assert!(l.n_fits == K, "cross_val_predict: exactly one model is fitted per fold");
            // per fold: the model was fitted on exactly the complement of the rows it predicts, and predicts exactly
            // the fold's held-out block (block layout of the real KFold without shuffling: harness c16_kfold_*)
            let mut start = 0usize;
            let mut t = 0;
            while t < K {
                let size = N / K + if t < N % K { 1 } else { 0 };
                let block = ((1usize << size) - 1) << start;
                assert!(
                    l.pred_calls[t] == 1 && l.pred_mask[t] == block && l.pred_rows[t] == size,
                    "cross_val_predict: the model of fold t predicts exactly the held-out rows of fold t, once"
                );
                assert!(
                    l.train_mask[t] == FULL & !block && l.train_rows[t] == N - size,
                    "cross_val_predict: the model of fold t is fitted on exactly fold t's training rows (the complement of its held-out rows)"
                );
                start += size;
                t += 1;
            }
            // per sample: provenance and placement
            let mut idx = 0;
            while idx < N {
                let code = y_hat[idx] as usize;
                assert!(code >= 16, "cross_val_predict: every position receives a prediction from some fold's model");
                let tag = code / 16 - 1;
                let id = code % 16;
                assert!(tag < K, "cross_val_predict: every position receives a prediction from some fold's model");
                assert!(
                    id == idx,
                    "cross_val_predict: every held-out prediction is placed at the sample's original position"
                );
                assert!(
                    l.pred_mask[tag] & (1usize << idx) != 0,
                    "cross_val_predict: position idx was produced by the model of the fold whose test set contains idx"
                );
                assert!(
                    l.train_mask[tag] & (1usize << idx) == 0,
                    "cross_val_predict: no sample is predicted by a model that has seen it"
                );
                idx += 1;
            }
            kani::cover!(l.n_fits == K && y_hat.len() == N);
        }
    };
}

cvp_harness!(c16_cvp_n2_k2, 2, 2, 5);
cvp_harness!(c16_cvp_n3_k2, 3, 2, 6);
cvp_harness!(c16_cvp_n3_k3, 3, 3, 6);
cvp_harness!(c16_cvp_n4_k2, 4, 2, 7);
cvp_harness!(c16_cvp_n4_k3, 4, 3, 7);
cvp_harness!(c16_cvp_n4_k4, 4, 4, 7);

// ---------------------------------------------------------------------------------------------------------------
// cross_val_predict with a spy SPLITTER that answers differently on every call (models shuffle = true)
// ---------------------------------------------------------------------------------------------------------------
// KFold with shuffle = true draws a fresh unseeded permutation on every split() call; that cannot be executed under
// Kani (thread_rng), but it can be modelled: a harness-defined BaseKFold whose split() draws, on EVERY call, a fresh
// symbolic permutation of 0..n and cuts it into k blocks of size n/k or n/k+1 (test = block, train = the rest).
// cross_val_predict must therefore take the training rows and the held-out rows of a fold from ONE AND THE SAME
// split() answer; code that fits on one answer and predicts on another lets a model predict rows it has seen.
// Obligations are those of cvp_harness!, stated relative to what the models actually saw (spy log), plus: the folds
// used are the folds of a single answer of the splitter.
struct SpySplitter<'a, const N: usize, const K: usize> {
    calls: &'a core::cell::Cell<usize>,
    first: &'a RefCell<[usize; N]>, // the permutation answered on the first call
}

impl<'a, const N: usize, const K: usize> BaseKFold for SpySplitter<'a, N, K> {
    type Output = std::vec::IntoIter<(Vec<usize>, Vec<usize>)>;

    fn n_splits(&self) -> usize {
        K
    }

    fn split<T: RealNumber, M: Matrix<T>>(&self, _x: &M) -> Self::Output {
        let c = self.calls.get();
        self.calls.set(c + 1);
        // a fresh permutation per call (assumptions only constrain the value to "is a permutation of 0..N")
        let perm: [usize; N] = kani::any();
        let mut i = 0;
        while i < N {
            kani::assume(perm[i] < N);
            let mut j = 0;
            while j < i {
                kani::assume(perm[j] != perm[i]);
                j += 1;
            }
            i += 1;
        }
        if c == 0 {
            *self.first.borrow_mut() = perm;
        }
        let mut folds: Vec<(Vec<usize>, Vec<usize>)> = Vec::with_capacity(K);
        let mut start = 0usize;
        let mut f = 0;
        while f < K {
            let size = N / K + if f < N % K { 1 } else { 0 };
            let mut test: Vec<usize> = Vec::with_capacity(size);
            let mut train: Vec<usize> = Vec::with_capacity(N - size);
            let mut i = 0;
            while i < N {
                if i >= start && i < start + size {
                    test.push(perm[i]);
                } else {
                    train.push(perm[i]);
                }
                i += 1;
            }
            folds.push((train, test));
            start += size;
            f += 1;
        }
        folds.into_iter()
    }
}

macro_rules! cvp_spy_splitter_harness {
    ($name:ident, $n:expr, $k:expr, $unw:expr) => {
        #[kani::proof]
        #[kani::unwind($unw)]
        fn $name() {
            const N: usize = $n;
            const K: usize = $k;
            const FULL: usize = (1usize << N) - 1;
            let py: [f64; N] = kani::any();
            let mut x: DenseMatrix<f64> = DenseMatrix::zeros(N, 1);
            let mut y: Vec<f64> = Vec::with_capacity(N);
            let mut i = 0;
            while i < N {
                x.set(i, 0, i as f64);
                y.push(py[i]);
                i += 1;
            }
            let log = RefCell::new(SpyLog {
                n_fits: 0,
                train_mask: [0; SPY_MAX_FITS],
                train_rows: [0; SPY_MAX_FITS],
                pred_mask: [0; SPY_MAX_FITS],
                pred_rows: [0; SPY_MAX_FITS],
                pred_calls: [0; SPY_MAX_FITS],
            });
            let fit = |tx: &DenseMatrix<f64>, ty: &Vec<f64>, _p: ()| -> Result<SpyModel, Failed> {
                let (m, _) = tx.shape();
                assert!(ty.len() == m, "cross_val_predict: fit receives one target per training row");
                let mut mask = 0usize;
                let mut r = 0;
                while r < m {
                    let id = tx.get(r, 0) as usize;
                    mask |= 1usize << id;
                    assert!(
                        ty[r].to_bits() == py[id].to_bits(),
                        "cross_val_predict: each training target is the target of its own row"
                    );
                    r += 1;
                }
                let mut l = log.borrow_mut();
                let t = l.n_fits;
                assert!(t < K, "cross_val_predict: at most one model is fitted per fold");
                l.train_mask[t] = mask;
                l.train_rows[t] = m;
                l.n_fits = t + 1;
                Ok(SpyModel { tag: t, log: &log })
            };
            let calls = core::cell::Cell::new(0usize);
            let first_perm: RefCell<[usize; N]> = RefCell::new([0; N]);
            let cv: SpySplitter<N, K> = SpySplitter {
                calls: &calls,
                first: &first_perm,
            };
            let res = cross_val_predict(fit, &x, &y, (), cv);
            assert!(res.is_ok(), "cross_val_predict: succeeds when every fit and predict succeeds");
            let y_hat = match res {
                Ok(v) => v,
                Err(_) => return,
            };
            assert!(y_hat.len() == N, "cross_val_predict: one prediction per sample");
            let l = log.borrow();
            assert!(l.n_fits == K, "cross_val_predict: exactly one model is fitted per fold");
            // per sample: provenance and placement
            let mut idx = 0;
            while idx < N {
                let code = y_hat[idx] as usize;
                assert!(code >= 16, "cross_val_predict: every position receives a prediction from some fold's model");
                let tag = code / 16 - 1;
                let id = code % 16;
                assert!(tag < K, "cross_val_predict: every position receives a prediction from some fold's model");
                assert!(
                    id == idx,
                    "cross_val_predict: every held-out prediction is placed at the sample's original position"
                );
                assert!(
                    l.pred_mask[tag] & (1usize << idx) != 0,
                    "cross_val_predict: position idx was produced by the model of the fold whose test set contains idx"
                );
                assert!(
                    l.train_mask[tag] & (1usize << idx) == 0,
                    "cross_val_predict: no sample is predicted by a model that has seen it (train and held-out rows of a fold must come from the same split() answer)"
                );
                idx += 1;
            }
            // per fold: model t was fitted on exactly the training rows of fold t of ONE answer of the splitter and
            // predicts exactly that fold's held-out rows
            assert!(calls.get() >= 1, "cross_val_predict: the folds come from the splitter");
            let first = first_perm.borrow();
            let mut start = 0usize;
            let mut t = 0;
            while t < K {
                let size = N / K + if t < N % K { 1 } else { 0 };
                let mut block = 0usize;
                let mut i = start;
                while i < start + size {
                    block |= 1usize << first[i];
                    i += 1;
                }
                assert!(
                    l.train_mask[t] == FULL & !block && l.train_rows[t] == N - size,
                    "cross_val_predict: the model of fold t is fitted on exactly fold t's training rows (the complement of its held-out rows)"
                );
                assert!(
                    l.pred_calls[t] == 1 && l.pred_mask[t] == block && l.pred_rows[t] == size,
                    "cross_val_predict: the model of fold t predicts exactly the held-out rows of fold t, once"
                );
                start += size;
                t += 1;
            }
            kani::cover!(l.n_fits == K && y_hat.len() == N && first[0] != 0);
        }
    };
}

cvp_spy_splitter_harness!(c16_cvp_spy_splitter_n3, 3, 2, 6);
cvp_spy_splitter_harness!(c16_cvp_spy_splitter_n4, 4, 2, 7);
