// Helper module for kani/c06_forest_fit.rs, child module of src/tree/decision_tree_classifier.rs (injected through `also_inject`).
// It contains no harness.  It provides the STUB that stands for `DecisionTreeClassifier::fit_weak_learner` while the caller
// `RandomForestClassifier::fit` is checked (tree growth does not terminate under CBMC: DESIGN.md section 2).  The stub is the
// callee's contract as far as the forest relies on it (A-TREE-FIT-ABS): "returns Ok(some tree)"; which tree is irrelevant to the
// obligations of the caller harness (they concern what the caller PASSES and what it stores).  Same generic parameters and
// signature as the real function, as Kani requires of a stub.
use super::*;

impl<T: RealNumber> DecisionTreeClassifier<T> {
    pub(crate) fn verif_stub_fit_weak_learner<M: Matrix<T>>(
        _x: &M,
        _y: &M::RowVector,
        _samples: Vec<usize>,
        _mtry: usize,
        parameters: DecisionTreeClassifierParameters,
        _rng: &mut impl Rng,
    ) -> Result<DecisionTreeClassifier<T>, Failed> {
        let mut nodes: Vec<Node<T>> = Vec::with_capacity(1);
        nodes.push(Node {
            _index: 0,
            output: 0,
            split_feature: 0,
            split_value: None,
            split_score: None,
            true_child: None,
            false_child: None,
        });
        Ok(DecisionTreeClassifier {
            nodes,
            parameters,
            num_classes: 1,
            classes: Vec::new(),
            depth: 0,
        })
    }
}
