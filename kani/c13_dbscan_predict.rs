// Kani harnesses for C13, child module of src/cluster/dbscan.rs: the REAL DBSCAN::predict on HAND-BUILT models.
// Paired with the Verus unit specs/C13/dbscan_predict.rs (fallback_for): when somebody rewrites predict with constructs Verus
// cannot read (a closure in `votes.iter().any(|&v| v > 0)`, iterator adapters ...) the unit is inconclusive; these harnesses
// then decide small models on the real code.
//
// The model value is built field by field (this module sees the private fields):
//   cluster_labels  n symbolic i16 labels in {-1, 0..C-1}, every cluster label 0..C-1 used at least once (the well-formed models
//                   fit returns: labels gap-free; -1 = noise)
//   num_classes     C
//   eps             1.0
//   knn_algorithm   KNNAlgorithm::LinearSearch(LinearKNNSearch::new(rows, metric)): the REAL linear radius search over the rows
//                   [0.0], [1.0], .., [n-1.0] (row j carries its own index j as its only coordinate)
// The metric is a harness-defined Distance<Vec<f64>, f64> that reads the id of the training row from the first coordinate (the
// query row is [4.0], id 4) and returns the entry of a SYMBOLIC table d[j] in {0.5, 2.0}: whether training point j lies within
// eps = 1.0 of the query is a free boolean per point, and no float arithmetic happens (floats are only moved and compared).
// n and C are FIXED per harness; one query row.
//
// Obligations, read off the property ("predict labels a new row by plurality among the training points within eps of it (noise
// when there are none or unclustered points dominate)") with the tie rule of the contract PROVED by the Verus unit
// (which_max returns the FIRST maximal slot of the tally; the noise slot is the LAST one, so a cluster that ties with noise wins,
// and among tied clusters the smallest label wins).  With cnt[c] = number of within-eps points labelled c and cnt_noise =
// number of within-eps points labelled -1:
//   no point within eps                                     => -1
//   some point within eps, cnt_noise > cnt[c] for EVERY c   => -1
//   otherwise the result is a cluster w < C with cnt[w] >= cnt[c] for every c, cnt[w] >= cnt_noise, and cnt[c] < cnt[w] for c < w.
use super::*;
use crate::algorithm::neighbour::linear_search::LinearKNNSearch;
use crate::linalg::naive::dense_matrix::DenseMatrix;
use crate::linalg::BaseMatrix;

const MAXN: usize = 4; // ids 0..MAXN are training rows, id MAXN is the query row
const IDF: [f64; MAXN + 1] = [0.0, 1.0, 2.0, 3.0, 4.0];

#[derive(Clone)]
struct VerifNearTable {
    d: [f64; MAXN + 1], // d[j] = distance between the query row and training row j; d[MAXN] is never asked for
}

// the id a row carries in its first coordinate (comparisons only)
fn verif_id(p: &Vec<f64>) -> usize {
    let v = p[0];
    if v == 0.0 {
        0
    } else if v == 1.0 {
        1
    } else if v == 2.0 {
        2
    } else if v == 3.0 {
        3
    } else {
        MAXN
    }
}

impl Distance<Vec<f64>, f64> for VerifNearTable {
    fn distance(&self, a: &Vec<f64>, b: &Vec<f64>) -> f64 {
        let ia = verif_id(a);
        let ib = verif_id(b);
        // one of the two is the query row (predict only asks for query-to-training distances), in either argument order
        if ia == MAXN {
            self.d[ib]
        } else {
            self.d[ia]
        }
    }
}

// Two stubs keep the heap model of the radius search inside what CBMC can decide.  LinearKNNSearch::find_radius starts from
// `Vec::new()` and pushes under a symbolic condition, so the length of the answer is symbolic and CBMC cannot refute
// `len == capacity` by constant propagation: it follows the grow path, which reallocates the buffer with a SYMBOLIC size, and the
// byte-level model of such an object costs 28 M clauses for n = 3 (> 20 GB without the first stub, 4 min with it).
//   * Vec::new is replaced by `Vec::with_capacity(MAXN)` (capacity is not observable by safe code);
//   * alloc::alloc::realloc_nonnull (what RawVec's grow path ends in) is replaced by a function that ASSERTS it is never reached:
//     "no heap buffer is reallocated" is a checked obligation of every harness, not an assumption -- code that outgrows a
//     preallocated buffer fails the harness instead of being cut off silently.
// Measured effect for n = 3: 1.0 M clauses, 15 s.
fn verif_vec_new_prealloc<T>() -> Vec<T> {
    Vec::with_capacity(MAXN)
}

unsafe fn verif_no_realloc(ptr: std::ptr::NonNull<u8>, _layout: std::alloc::Layout, _new_size: usize) -> *mut u8 {
    assert!(false, "harness bound: no heap buffer is reallocated (a Vec outgrew its preallocated capacity)");
    kani::assume(false);
    ptr.as_ptr()
}

macro_rules! dbscan_predict_harness {
    ($name:ident, $n:expr, $c:expr, $unw:expr) => {
        #[kani::proof]
        #[kani::stub(std::vec::Vec::new, verif_vec_new_prealloc)]
        #[kani::stub(alloc::alloc::realloc_nonnull, verif_no_realloc)]
        #[kani::unwind($unw)]
        fn $name() {
            const N: usize = $n;
            const C: usize = $c;
            // the model: labels, which training points are near the query, the training rows
            let mut lab = [0i16; N];
            let mut near = [false; N];
            let mut d = [2.0f64; MAXN + 1];
            let mut used = [false; C];
            let mut labels: Vec<i16> = Vec::with_capacity(N);
            let mut rows: Vec<Vec<f64>> = Vec::with_capacity(N);
            let mut j = 0;
            while j < N {
                let l: i16 = kani::any();
                kani::assume(l >= -1 && l < C as i16);
                lab[j] = l;
                if l >= 0 {
                    used[l as usize] = true;
                }
                labels.push(l);
                near[j] = kani::any();
                d[j] = if near[j] { 0.5 } else { 2.0 };
                let mut row: Vec<f64> = Vec::with_capacity(1);
                row.push(IDF[j]);
                rows.push(row);
                j += 1;
            }
            let mut c = 0;
            while c < C {
                kani::assume(used[c]); // well-formed model: every cluster number below num_classes is in use
                c += 1;
            }
            let search: LinearKNNSearch<Vec<f64>, f64, VerifNearTable> = match LinearKNNSearch::new(rows, VerifNearTable { d }) {
                Ok(s) => s,
                Err(_) => {
                    assert!(false, "LinearKNNSearch::new: construction succeeds");
                    return;
                }
            };
            let model: DBSCAN<f64, VerifNearTable> = DBSCAN {
                cluster_labels: labels,
                num_classes: C,
                knn_algorithm: KNNAlgorithm::LinearSearch(search),
                eps: 1.0,
            };
            let mut x: DenseMatrix<f64> = DenseMatrix::zeros(1, 1);
            x.set(0, 0, IDF[MAXN]);

            let res = model.predict(&x);
            assert!(res.is_ok(), "DBSCAN::predict: succeeds for a positive radius");
            let r = match res {
                Ok(r) => r,
                Err(_) => return,
            };
            assert!(r.len() == 1, "DBSCAN::predict: one label per row of x");
            let y = r[0];

            // the votes, in integers
            let mut cnt = [0u8; C];
            let mut cnt_noise = 0u8;
            let mut any_near = false;
            let mut any_clustered = false;
            let mut j = 0;
            while j < N {
                if near[j] {
                    any_near = true;
                    if lab[j] < 0 {
                        cnt_noise += 1;
                    } else {
                        cnt[lab[j] as usize] += 1;
                        any_clustered = true;
                    }
                }
                j += 1;
            }
            let mut dominated = true; // noise strictly outnumbers every single cluster
            let mut c = 0;
            while c < C {
                if cnt[c] >= cnt_noise {
                    dominated = false;
                }
                c += 1;
            }

            if !any_near {
                assert!(y == -1.0, "DBSCAN::predict: noise when no training point lies within eps");
            } else if dominated {
                assert!(y == -1.0, "DBSCAN::predict: noise when unclustered points dominate");
            } else {
                // which cluster the label names
                let mut w = C;
                let mut c = 0;
                while c < C {
                    if y == IDF[c] {
                        w = c;
                    }
                    c += 1;
                }
                assert!(w < C, "DBSCAN::predict: a row with neighbours that noise does not dominate is labelled with one of the clusters 0..num_classes");
                if w < C {
                    assert!(cnt[w] >= cnt_noise, "DBSCAN::predict: the reported cluster has at least as many points within eps as there are noise points within eps");
                    let mut c = 0;
                    while c < C {
                        assert!(cnt[c] <= cnt[w], "DBSCAN::predict: the reported cluster has the largest number of points within eps (plurality)");
                        assert!(c >= w || cnt[c] < cnt[w], "DBSCAN::predict: among the clusters with the most points within eps the smallest label is reported");
                        c += 1;
                    }
                }
            }
            // vacuity guard: noise wins although a clustered point lies within eps (needs two noise points next to a clustered
            // one; a shape with n < C + 2 has no such model and settles for noise winning at all)
            kani::cover!(any_near && dominated && y == -1.0 && (any_clustered || N < C + 2));
        }
    };
}

//                      name              n  C  unwind
dbscan_predict_harness!(c13_predict_n3_c1, 3, 1, 4);
dbscan_predict_harness!(c13_predict_n3_c2, 3, 2, 4);
dbscan_predict_harness!(c13_predict_n4_c1, 4, 1, 5);
dbscan_predict_harness!(c13_predict_n4_c2, 4, 2, 5);
