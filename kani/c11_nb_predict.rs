// Kani harnesses for C11, child module of src/naive_bayes/mod.rs: the generic MAP decision BaseNaiveBayes::predict.
//
// Obligation read off the property: "The label predicted for any row ... is a class maximising log prior plus the sum
// of per-feature log-likelihoods computed from those statistics."  predict is generic over the distribution; the
// harness distribution `TableNB` answers prior / log_likelihood from small tables chosen by Kani:
//   * prior(c) is one of PRI = {1, 1/2, 1/4, 0}; `f64::ln` is stubbed by the table LNP = {0, -1, -2, -inf} on exactly these values
//     (CBMC has no exact ln); the harness computes its expected scores from LNP directly, not through the stub;
//   * log_likelihood(c, row) = LL[row id][c], each entry one of {-3, -1, 0, 2} (ties are reachable, also after adding ln prior);
//     the row id is column 0 of the row handed over by predict (so a predict that passes the wrong row is seen);
//   * classes() = the leading K entries of the non-contiguous label set {-3, 0, 7} (labels are only moved).
// The score of class c for row i is  LL[i][c] + ln(prior(c))  (one f64 addition of table values, as in the code).
// Checked per row i: the returned label is classes[c] for a class c such that NO class has a strictly larger score
// (property clause), and c is the LAST such class (the tie rule of Iterator::max_by, which the code uses).
// One harness per concrete shape (rows, K); NaN scores are outside the domain (the code unwraps partial_cmp).
use super::*;
use crate::linalg::naive::dense_matrix::DenseMatrix;
use crate::linalg::BaseMatrix;

const C11_MAXR: usize = 2;
const C11_MAXK: usize = 3;
const C11_LABELS: [f64; C11_MAXK] = [-3.0, 0.0, 7.0];

#[allow(dead_code)]
fn c11_ln_table(x: f64) -> f64 {
    if x == 1.0 {
        0.0
    } else if x == 0.5 {
        -1.0
    } else if x == 0.25 {
        -2.0
    } else if x == 0.0 {
        f64::NEG_INFINITY
    } else {
        // not reached by the harness distribution on the unchanged code; an unknown value (NaN included) otherwise
        kani::any()
    }
}

struct TableNB {
    classes: Vec<f64>,
    prior: [f64; C11_MAXK],
    ll: [[f64; C11_MAXK]; C11_MAXR],
}

impl NBDistribution<f64, DenseMatrix<f64>> for TableNB {
    fn prior(&self, class_index: usize) -> f64 {
        self.prior[class_index]
    }
    fn log_likelihood(&self, class_index: usize, j: &Vec<f64>) -> f64 {
        self.ll[j[0] as usize][class_index]
    }
    fn classes(&self) -> &Vec<f64> {
        &self.classes
    }
}

fn c11_any_ll() -> f64 {
    let s: u8 = kani::any();
    if s == 0 {
        -3.0
    } else if s == 1 {
        -1.0
    } else if s == 2 {
        0.0
    } else {
        2.0
    }
}

macro_rules! predict_harness {
    ($name:ident, $rows:expr, $k:expr, $unw:expr) => {
        #[kani::proof]
        #[kani::unwind($unw)]
        #[kani::stub(f64::ln, c11_ln_table)]
        fn $name() {
            const ROWS: usize = $rows;
            const K: usize = $k;
            let mut prior = [1.0f64; C11_MAXK];
            let mut lnp = [0.0f64; C11_MAXK];
            let mut ll = [[0.0f64; C11_MAXK]; C11_MAXR];
            let mut classes: Vec<f64> = Vec::with_capacity(K);
            let mut c = 0;
            while c < K {
                let s: u8 = kani::any();
                if s == 0 {
                    prior[c] = 1.0;
                    lnp[c] = 0.0;
                } else if s == 1 {
                    prior[c] = 0.5;
                    lnp[c] = -1.0;
                } else if s == 2 {
                    prior[c] = 0.25;
                    lnp[c] = -2.0;
                } else {
                    // a class with prior 0 (an empty class of the categorical variant, or a user-supplied zero prior):
                    // its score is -inf, it must neither win against a class with a finite score nor hide later classes
                    prior[c] = 0.0;
                    lnp[c] = f64::NEG_INFINITY;
                }
                classes.push(C11_LABELS[c]);
                let mut i = 0;
                while i < ROWS {
                    ll[i][c] = c11_any_ll();
                    i += 1;
                }
                c += 1;
            }
            let mut x: DenseMatrix<f64> = DenseMatrix::zeros(ROWS, 2);
            let mut i = 0;
            while i < ROWS {
                x.set(i, 0, i as f64);
                x.set(i, 1, 9.0);
                i += 1;
            }
            let nb: BaseNaiveBayes<f64, DenseMatrix<f64>, TableNB> = BaseNaiveBayes {
                distribution: TableNB { classes, prior, ll },
                _phantom_t: PhantomData,
                _phantom_m: PhantomData,
            };
            let res = nb.predict(&x);
            assert!(res.is_ok(), "predict: returns Ok for scores without NaN");
            let y_hat: Vec<f64> = match res {
                Ok(v) => v,
                Err(_) => return,
            };
            assert!(y_hat.len() == ROWS, "predict: one label per row");
            let mut i = 0;
            while i < ROWS {
                // expected scores, written out by the harness: log-likelihood + ln(prior)
                let mut s = [0.0f64; C11_MAXK];
                let mut c = 0;
                while c < K {
                    s[c] = ll[i][c] + lnp[c];
                    c += 1;
                }
                // the class whose label was returned
                let mut hit = K;
                let mut c = 0;
                while c < K {
                    if y_hat[i] == C11_LABELS[c] {
                        hit = c;
                    }
                    c += 1;
                }
                assert!(hit < K, "predict: the predicted label is one of the class labels reported by the distribution");
                if hit < K {
                    let mut c = 0;
                    while c < K {
                        assert!(
                            !(s[c] > s[hit]),
                            "predict: the predicted class maximises log prior + log-likelihood (no class has a strictly larger score)"
                        );
                        if c > hit {
                            assert!(
                                s[c] < s[hit],
                                "predict: tie rule of the code (max_by): among the maximisers the class with the highest index"
                            );
                        }
                        c += 1;
                    }
                }
                i += 1;
            }
            kani::cover!(y_hat.len() == ROWS && y_hat[0] == C11_LABELS[0]);
        }
    };
}

//               name              rows K unwind
predict_harness!(c11_predict_r1_k1, 1, 1, 5);
predict_harness!(c11_predict_r1_k2, 1, 2, 5);
predict_harness!(c11_predict_r1_k3, 1, 3, 6);
predict_harness!(c11_predict_r2_k2, 2, 2, 6);
predict_harness!(c11_predict_r2_k3, 2, 3, 6);
