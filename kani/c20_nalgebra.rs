// Kani harnesses for C20, nalgebra backend: child module of src/linalg/nalgebra_bindings.rs (feature nalgebra-bindings).
//
// Relational, bounded: the same logical matrix is built in DenseMatrix (the reference: its data-movement operations are
// proved by the Verus units of C03) and in nalgebra::DMatrix<f64> through the trait API (`zeros` + `set`); the operation is
// applied to both through the generic BaseMatrix / BaseVector trait method; every cell is compared through `get`
// (bit equality) and the shapes through `shape`.
//
// Every shape is FIXED per harness (macro instance). Values are symbolic f64 bit patterns that are only moved and compared;
// where an operation does float arithmetic or ordering (negative, max, min, argmax, max_diff) each value is drawn from the
// mixed-sign constant set {-2.0, -0.5, 0.0, 1.5, 3.0} by a symbolic selector.
// `_tr` operands are built with the transposed shape and passed through `BaseMatrix::transpose` on both sides
// (nalgebra's transpose copies into standard column-major storage, so this is the same logical matrix reached another way).
//
// Derived from c20_ndarray.rs: same harness text with the backend types and names replaced (no dgemm stand-in: nalgebra's
// dot is a plain loop and matmul is only driven into its shape check), Lay::Rev instances mapped to
// Lay::Tr (duplicates dropped), h_stack / v_stack instances dropped (not admitted, see below). Keep the two files in step.
use super::*;
use crate::linalg::naive::dense_matrix::DenseMatrix;

type Dm = DenseMatrix<f64>;
type Bk = nalgebra::DMatrix<f64>;
type BkV = nalgebra::RowDVector<f64>;

fn dense_of(r: usize, c: usize, vals: &[f64]) -> Dm {
    DenseMatrix::from_array(r, c, vals)
}

fn backend_of(r: usize, c: usize, vals: &[f64]) -> Bk {
    let mut m: Bk = BaseMatrix::zeros(r, c);
    for i in 0..r {
        for j in 0..c {
            BaseMatrix::set(&mut m, i, j, vals[i * c + j]);
        }
    }
    m
}

/// Layout of a harness operand.
/// Std: built r x c through zeros + set.
/// Tr:  built c x r, then `BaseMatrix::transpose` on both sides ("after a transpose" in the words of the property).
/// Rev: unused for nalgebra (an owned DMatrix has one storage order; only the sibling module c20_nd uses it).
#[allow(dead_code)]
#[derive(Clone, Copy, PartialEq)]
enum Lay {
    Std,
    Tr,
    Rev,
}

fn backend_reversed(m: Bk) -> Bk {
    BaseMatrix::transpose(&m)
}

/// The same logical r x c matrix in both representations; `vals` has r*c entries.
/// Std: cell (i, j) = vals[i*c + j].  Tr / Rev: cell (i, j) = vals[j*r + i].
fn operands(r: usize, c: usize, lay: Lay, vals: &[f64]) -> (Dm, Bk) {
    match lay {
        Lay::Std => (dense_of(r, c, vals), backend_of(r, c, vals)),
        Lay::Tr => (BaseMatrix::transpose(&dense_of(c, r, vals)), BaseMatrix::transpose(&backend_of(c, r, vals))),
        Lay::Rev => (BaseMatrix::transpose(&dense_of(c, r, vals)), backend_reversed(backend_of(c, r, vals))),
    }
}

/// One value of the mixed-sign constant set, chosen by a symbolic selector (no arithmetic on unknown floats).
fn pick() -> f64 {
    let s: u8 = kani::any();
    kani::assume(s < 5);
    match s {
        0 => -2.0,
        1 => -0.5,
        2 => 0.0,
        3 => 1.5,
        _ => 3.0,
    }
}

fn pick_n<const N: usize>() -> [f64; N] {
    let mut a = [0.0f64; N];
    for k in 0..N {
        a[k] = pick();
    }
    a
}

macro_rules! same_matrix {
    ($d:expr, $b:expr, $r:expr, $c:expr, $mshape:literal, $mcell:literal) => {{
        let (dr, dc) = BaseMatrix::shape($d);
        let (br, bc) = BaseMatrix::shape($b);
        assert!(dr == $r && dc == $c, "harness: DenseMatrix result has the expected shape");
        assert!(br == dr && bc == dc, $mshape);
        for i in 0..$r {
            for j in 0..$c {
                assert!(BaseMatrix::get($d, i, j).to_bits() == BaseMatrix::get($b, i, j).to_bits(), $mcell);
            }
        }
    }};
}

macro_rules! same_vector {
    ($d:expr, $b:expr, $n:expr, $mlen:literal, $mcell:literal) => {{
        assert!(BaseVector::len($d) == $n, "harness: DenseMatrix-side vector has the expected length");
        assert!(BaseVector::len($b) == $n, $mlen);
        for k in 0..$n {
            assert!(BaseVector::get($d, k).to_bits() == BaseVector::get($b, k).to_bits(), $mcell);
        }
    }};
}

// ---------------------------------------------------------------------------------------------- to_row_vector
macro_rules! h_to_row_vector {
    ($name:ident, $r:expr, $c:expr, $tr:expr, $unw:expr) => {
        #[kani::proof]
        #[kani::unwind($unw)]
        fn $name() {
            const R: usize = $r;
            const C: usize = $c;
            let vals: [f64; R * C] = kani::any();
            let (d, b) = operands(R, C, $tr, &vals);
            let b_before = b.clone();
            let dv = BaseMatrix::to_row_vector(d);
            let bv: BkV = BaseMatrix::to_row_vector(b);
            assert!(BaseVector::len(&bv) == R * C, "nalgebra to_row_vector: length is nrows * ncols");
            for k in 0..R * C {
                assert!(
                    BaseVector::get(&bv, k).to_bits() == BaseMatrix::get(&b_before, k / C, k % C).to_bits(),
                    "nalgebra to_row_vector: logical row-major order (element k is cell (k / ncols, k % ncols)) regardless of memory layout"
                );
            }
            same_vector!(&dv, &bv, R * C, "nalgebra to_row_vector: same length as DenseMatrix", "nalgebra to_row_vector: same elements as DenseMatrix");
            kani::cover!(BaseVector::len(&bv) == R * C);
        }
    };
}
h_to_row_vector!(c20_na_to_row_vector_1x1, 1, 1, Lay::Std, 6);
h_to_row_vector!(c20_na_to_row_vector_1x3, 1, 3, Lay::Std, 8);
h_to_row_vector!(c20_na_to_row_vector_3x1_std, 3, 1, Lay::Std, 8);
h_to_row_vector!(c20_na_to_row_vector_2x3_std, 2, 3, Lay::Std, 8);
h_to_row_vector!(c20_na_to_row_vector_3x1_tr, 3, 1, Lay::Tr, 8);
h_to_row_vector!(c20_na_to_row_vector_2x2_tr, 2, 2, Lay::Tr, 8);
h_to_row_vector!(c20_na_to_row_vector_2x3_tr, 2, 3, Lay::Tr, 8);
h_to_row_vector!(c20_na_to_row_vector_3x2_tr, 3, 2, Lay::Tr, 8);

// ---------------------------------------------------------------------------------------------- reshape
macro_rules! h_reshape {
    ($name:ident, $r:expr, $c:expr, $tr:expr, $r2:expr, $c2:expr, $unw:expr) => {
        #[kani::proof]
        #[kani::unwind($unw)]
        fn $name() {
            const R: usize = $r;
            const C: usize = $c;
            const R2: usize = $r2;
            const C2: usize = $c2;
            let vals: [f64; R * C] = kani::any();
            let (d, b) = operands(R, C, $tr, &vals);
            let dres = BaseMatrix::reshape(&d, R2, C2);
            let bres: Bk = BaseMatrix::reshape(&b, R2, C2);
            assert!(BaseMatrix::shape(&bres) == (R2, C2), "nalgebra reshape: result has the requested shape");
            for k in 0..R * C {
                assert!(
                    BaseMatrix::get(&bres, k / C2, k % C2).to_bits() == BaseMatrix::get(&b, k / C, k % C).to_bits(),
                    "nalgebra reshape: logical row-major order (k-th cell of the result is the k-th cell of the operand) regardless of memory layout"
                );
            }
            same_matrix!(&dres, &bres, R2, C2, "nalgebra reshape: same shape as DenseMatrix", "nalgebra reshape: same cells as DenseMatrix");
            kani::cover!(BaseMatrix::shape(&bres) == (R2, C2));
        }
    };
}
h_reshape!(c20_na_reshape_1x6_to_2x3, 1, 6, Lay::Std, 2, 3, 8);
h_reshape!(c20_na_reshape_2x3_to_3x2, 2, 3, Lay::Std, 3, 2, 8);
h_reshape!(c20_na_reshape_2x3_to_1x6, 2, 3, Lay::Std, 1, 6, 8);
h_reshape!(c20_na_reshape_2x2_tr_to_1x4, 2, 2, Lay::Tr, 1, 4, 8);
h_reshape!(c20_na_reshape_2x3_tr_to_3x2, 2, 3, Lay::Tr, 3, 2, 8);
h_reshape!(c20_na_reshape_2x3_tr_to_1x6, 2, 3, Lay::Tr, 1, 6, 8);
h_reshape!(c20_na_reshape_3x2_tr_to_2x3, 3, 2, Lay::Tr, 2, 3, 8);

// ---------------------------------------------------------------------------------------------- transpose
macro_rules! h_transpose {
    ($name:ident, $r:expr, $c:expr, $tr:expr, $unw:expr) => {
        #[kani::proof]
        #[kani::unwind($unw)]
        fn $name() {
            const R: usize = $r;
            const C: usize = $c;
            let vals: [f64; R * C] = kani::any();
            let (d, b) = operands(R, C, $tr, &vals);
            let dt = BaseMatrix::transpose(&d);
            let bt: Bk = BaseMatrix::transpose(&b);
            assert!(BaseMatrix::shape(&bt) == (C, R), "nalgebra transpose: shape is (ncols, nrows)");
            for i in 0..R {
                for j in 0..C {
                    assert!(BaseMatrix::get(&bt, j, i).to_bits() == BaseMatrix::get(&b, i, j).to_bits(), "nalgebra transpose: cell (j, i) of the result is cell (i, j) of the operand");
                }
            }
            same_matrix!(&dt, &bt, C, R, "nalgebra transpose: same shape as DenseMatrix", "nalgebra transpose: same cells as DenseMatrix");
            kani::cover!(BaseMatrix::shape(&bt) == (C, R));
        }
    };
}
h_transpose!(c20_na_transpose_1x1, 1, 1, Lay::Std, 6);
h_transpose!(c20_na_transpose_1x3, 1, 3, Lay::Std, 8);
h_transpose!(c20_na_transpose_2x3_std, 2, 3, Lay::Std, 8);
h_transpose!(c20_na_transpose_3x2, 3, 2, Lay::Std, 8);
h_transpose!(c20_na_transpose_2x3_tr, 2, 3, Lay::Tr, 8);

// ---------------------------------------------------------------------------------------------- from_row_vector
macro_rules! h_from_row_vector {
    ($name:ident, $n:expr, $unw:expr) => {
        #[kani::proof]
        #[kani::unwind($unw)]
        fn $name() {
            const N: usize = $n;
            let vals: [f64; N] = kani::any();
            let dv: Vec<f64> = BaseVector::from_array(&vals);
            let bv: BkV = BaseVector::from_array(&vals);
            let d: Dm = BaseMatrix::from_row_vector(dv);
            let b: Bk = BaseMatrix::from_row_vector(bv);
            same_matrix!(&d, &b, 1, N, "nalgebra from_row_vector: 1 x len, as DenseMatrix", "nalgebra from_row_vector: same cells as DenseMatrix");
            for k in 0..N {
                assert!(BaseMatrix::get(&b, 0, k).to_bits() == vals[k].to_bits(), "nalgebra from_row_vector: cell (0, k) is element k");
            }
            kani::cover!(BaseMatrix::shape(&b) == (1, N));
        }
    };
}
h_from_row_vector!(c20_na_from_row_vector_1, 1, 6);
h_from_row_vector!(c20_na_from_row_vector_3, 3, 8);

// ---------------------------------------------------------------------------------------------- row access
macro_rules! h_rows {
    ($name:ident, $r:expr, $c:expr, $tr:expr, $unw:expr) => {
        #[kani::proof]
        #[kani::unwind($unw)]
        fn $name() {
            const R: usize = $r;
            const C: usize = $c;
            let vals: [f64; R * C] = kani::any();
            let (d, b) = operands(R, C, $tr, &vals);
            let filler: f64 = kani::any();
            for i in 0..R {
                let dr = BaseMatrix::get_row(&d, i);
                let br: BkV = BaseMatrix::get_row(&b, i);
                same_vector!(&dr, &br, C, "nalgebra get_row: length ncols, as DenseMatrix", "nalgebra get_row: same elements as DenseMatrix");
                let dr = BaseMatrix::get_row_as_vec(&d, i);
                let br: Vec<f64> = BaseMatrix::get_row_as_vec(&b, i);
                same_vector!(&dr, &br, C, "nalgebra get_row_as_vec: length ncols, as DenseMatrix", "nalgebra get_row_as_vec: same elements as DenseMatrix");
                // buffer one longer than the row: the tail must stay untouched on both sides
                let mut dbuf = vec![filler; C + 1];
                let mut bbuf = vec![filler; C + 1];
                BaseMatrix::copy_row_as_vec(&d, i, &mut dbuf);
                BaseMatrix::copy_row_as_vec(&b, i, &mut bbuf);
                same_vector!(&dbuf, &bbuf, C + 1, "nalgebra copy_row_as_vec: buffer length unchanged, as DenseMatrix", "nalgebra copy_row_as_vec: same buffer contents as DenseMatrix");
                for j in 0..C {
                    assert!(bbuf[j].to_bits() == BaseMatrix::get(&b, i, j).to_bits(), "nalgebra copy_row_as_vec: element j is cell (row, j)");
                }
            }
            kani::cover!(BaseMatrix::shape(&b) == (R, C));
        }
    };
}
h_rows!(c20_na_rows_1x1, 1, 1, Lay::Std, 6);
h_rows!(c20_na_rows_2x3_std, 2, 3, Lay::Std, 8);
h_rows!(c20_na_rows_2x3_tr, 2, 3, Lay::Tr, 8);
h_rows!(c20_na_rows_3x2_tr, 3, 2, Lay::Tr, 8);

// ---------------------------------------------------------------------------------------------- column access
macro_rules! h_cols {
    ($name:ident, $r:expr, $c:expr, $tr:expr, $unw:expr) => {
        #[kani::proof]
        #[kani::unwind($unw)]
        fn $name() {
            const R: usize = $r;
            const C: usize = $c;
            let vals: [f64; R * C] = kani::any();
            let (d, b) = operands(R, C, $tr, &vals);
            let filler: f64 = kani::any();
            for j in 0..C {
                let dc = BaseMatrix::get_col_as_vec(&d, j);
                let bc: Vec<f64> = BaseMatrix::get_col_as_vec(&b, j);
                same_vector!(&dc, &bc, R, "nalgebra get_col_as_vec: length nrows, as DenseMatrix", "nalgebra get_col_as_vec: same elements as DenseMatrix");
                let mut dbuf = vec![filler; R + 1];
                let mut bbuf = vec![filler; R + 1];
                BaseMatrix::copy_col_as_vec(&d, j, &mut dbuf);
                BaseMatrix::copy_col_as_vec(&b, j, &mut bbuf);
                same_vector!(&dbuf, &bbuf, R + 1, "nalgebra copy_col_as_vec: buffer length unchanged, as DenseMatrix", "nalgebra copy_col_as_vec: same buffer contents as DenseMatrix");
                for i in 0..R {
                    assert!(bbuf[i].to_bits() == BaseMatrix::get(&b, i, j).to_bits(), "nalgebra copy_col_as_vec: element i is cell (i, col)");
                }
            }
            kani::cover!(BaseMatrix::shape(&b) == (R, C));
        }
    };
}
h_cols!(c20_na_cols_1x1, 1, 1, Lay::Std, 6);
h_cols!(c20_na_cols_2x3_std, 2, 3, Lay::Std, 8);
h_cols!(c20_na_cols_2x3_tr, 2, 3, Lay::Tr, 8);
h_cols!(c20_na_cols_3x2_tr, 3, 2, Lay::Tr, 8);

// ---------------------------------------------------------------------------------------------- slice
macro_rules! h_slice {
    ($name:ident, $r:expr, $c:expr, $tr:expr, $r0:expr, $r1:expr, $c0:expr, $c1:expr, $unw:expr) => {
        #[kani::proof]
        #[kani::unwind($unw)]
        fn $name() {
            const R: usize = $r;
            const C: usize = $c;
            let vals: [f64; R * C] = kani::any();
            let (d, b) = operands(R, C, $tr, &vals);
            let ds = BaseMatrix::slice(&d, $r0..$r1, $c0..$c1);
            let bs: Bk = BaseMatrix::slice(&b, $r0..$r1, $c0..$c1);
            same_matrix!(&ds, &bs, $r1 - $r0, $c1 - $c0, "nalgebra slice: shape (rows.len(), cols.len()), as DenseMatrix", "nalgebra slice: same cells as DenseMatrix");
            for i in $r0..$r1 {
                for j in $c0..$c1 {
                    assert!(BaseMatrix::get(&bs, i - $r0, j - $c0).to_bits() == BaseMatrix::get(&b, i, j).to_bits(), "nalgebra slice: cell (i - r0, j - c0) of the result is cell (i, j) of the operand");
                }
            }
            kani::cover!(BaseMatrix::shape(&bs) == ($r1 - $r0, $c1 - $c0));
        }
    };
}
h_slice!(c20_na_slice_2x3_all_by_1to3, 2, 3, Lay::Std, 0, 2, 1, 3, 8);
h_slice!(c20_na_slice_2x3_row1_by_0to2, 2, 3, Lay::Std, 1, 2, 0, 2, 8);
h_slice!(c20_na_slice_2x3_tr_all_by_1to3, 2, 3, Lay::Tr, 0, 2, 1, 3, 8);
h_slice!(c20_na_slice_3x2_tr_1to3_by_col1, 3, 2, Lay::Tr, 1, 3, 1, 2, 8);

// ---------------------------------------------------------------------------------------------- h_stack / v_stack
macro_rules! h_hstack {
    ($name:ident, $r:expr, $c1:expr, $tr1:expr, $c2:expr, $tr2:expr, $unw:expr) => {
        #[kani::proof]
        #[kani::unwind($unw)]
        fn $name() {
            const R: usize = $r;
            const C1: usize = $c1;
            const C2: usize = $c2;
            let v1: [f64; R * C1] = kani::any();
            let v2: [f64; R * C2] = kani::any();
            let (d1, b1) = operands(R, C1, $tr1, &v1);
            let (d2, b2) = operands(R, C2, $tr2, &v2);
            let ds = BaseMatrix::h_stack(&d1, &d2);
            let bs: Bk = BaseMatrix::h_stack(&b1, &b2);
            same_matrix!(&ds, &bs, R, C1 + C2, "nalgebra h_stack: shape (nrows, ncols + other.ncols), as DenseMatrix", "nalgebra h_stack: same cells as DenseMatrix");
            for i in 0..R {
                for j in 0..C1 {
                    assert!(BaseMatrix::get(&bs, i, j).to_bits() == BaseMatrix::get(&b1, i, j).to_bits(), "nalgebra h_stack: left block is self");
                }
                for j in 0..C2 {
                    assert!(BaseMatrix::get(&bs, i, C1 + j).to_bits() == BaseMatrix::get(&b2, i, j).to_bits(), "nalgebra h_stack: right block is other");
                }
            }
            kani::cover!(BaseMatrix::shape(&bs) == (R, C1 + C2));
        }
    };
}
// (h_stack / v_stack instances omitted for nalgebra: CBMC runs out of 20 GB already at 1x1 | 1x1; see property.json not_decided)

macro_rules! h_vstack {
    ($name:ident, $c:expr, $r1:expr, $tr1:expr, $r2:expr, $tr2:expr, $unw:expr) => {
        #[kani::proof]
        #[kani::unwind($unw)]
        fn $name() {
            const C: usize = $c;
            const R1: usize = $r1;
            const R2: usize = $r2;
            let v1: [f64; R1 * C] = kani::any();
            let v2: [f64; R2 * C] = kani::any();
            let (d1, b1) = operands(R1, C, $tr1, &v1);
            let (d2, b2) = operands(R2, C, $tr2, &v2);
            let ds = BaseMatrix::v_stack(&d1, &d2);
            let bs: Bk = BaseMatrix::v_stack(&b1, &b2);
            same_matrix!(&ds, &bs, R1 + R2, C, "nalgebra v_stack: shape (nrows + other.nrows, ncols), as DenseMatrix", "nalgebra v_stack: same cells as DenseMatrix");
            for j in 0..C {
                for i in 0..R1 {
                    assert!(BaseMatrix::get(&bs, i, j).to_bits() == BaseMatrix::get(&b1, i, j).to_bits(), "nalgebra v_stack: upper block is self");
                }
                for i in 0..R2 {
                    assert!(BaseMatrix::get(&bs, R1 + i, j).to_bits() == BaseMatrix::get(&b2, i, j).to_bits(), "nalgebra v_stack: lower block is other");
                }
            }
            kani::cover!(BaseMatrix::shape(&bs) == (R1 + R2, C));
        }
    };
}

// ---------------------------------------------------------------------------------------------- take (default trait method over zeros/get/set)
macro_rules! h_take {
    ($name:ident, $r:expr, $c:expr, $tr:expr, $idx:expr, $axis:expr, $rr:expr, $rc:expr, $unw:expr) => {
        #[kani::proof]
        #[kani::unwind($unw)]
        fn $name() {
            const R: usize = $r;
            const C: usize = $c;
            let vals: [f64; R * C] = kani::any();
            let (d, b) = operands(R, C, $tr, &vals);
            let idx = $idx;
            let dt = BaseMatrix::take(&d, &idx, $axis);
            let bt: Bk = BaseMatrix::take(&b, &idx, $axis);
            same_matrix!(&dt, &bt, $rr, $rc, "nalgebra take: same shape as DenseMatrix", "nalgebra take: same cells as DenseMatrix");
            for i in 0..$rr {
                for j in 0..$rc {
                    let src = if $axis == 0 { BaseMatrix::get(&b, idx[i], j) } else { BaseMatrix::get(&b, i, idx[j]) };
                    assert!(BaseMatrix::get(&bt, i, j).to_bits() == src.to_bits(), "nalgebra take: row/column k of the result is row/column index[k] of the operand");
                }
            }
            kani::cover!(BaseMatrix::shape(&bt) == ($rr, $rc));
        }
    };
}
h_take!(c20_na_take_rows_2x3_std, 2, 3, Lay::Std, [1usize, 0, 1], 0, 3, 3, 12);
h_take!(c20_na_take_rows_2x3_tr, 2, 3, Lay::Tr, [1usize, 1], 0, 2, 3, 8);
h_take!(c20_na_take_cols_2x3_std, 2, 3, Lay::Std, [2usize, 0], 1, 2, 2, 8);
h_take!(c20_na_take_cols_2x3_tr, 2, 3, Lay::Tr, [2usize, 0, 2, 1], 1, 2, 4, 8);

// ---------------------------------------------------------------------------------------------- constructors
macro_rules! h_eye {
    ($name:ident, $n:expr, $unw:expr) => {
        #[kani::proof]
        #[kani::unwind($unw)]
        fn $name() {
            const N: usize = $n;
            let d: Dm = BaseMatrix::eye(N);
            let b: Bk = BaseMatrix::eye(N);
            same_matrix!(&d, &b, N, N, "nalgebra eye: size x size, as DenseMatrix", "nalgebra eye: same cells as DenseMatrix");
            for i in 0..N {
                for j in 0..N {
                    assert!(BaseMatrix::get(&b, i, j) == if i == j { 1.0 } else { 0.0 }, "nalgebra eye: one on the diagonal, zero elsewhere");
                }
            }
            kani::cover!(BaseMatrix::shape(&b) == (N, N));
        }
    };
}
h_eye!(c20_na_eye_1, 1, 6);
h_eye!(c20_na_eye_2, 2, 6);
h_eye!(c20_na_eye_3, 3, 12);

macro_rules! h_fill {
    ($name:ident, $r:expr, $c:expr, $unw:expr) => {
        #[kani::proof]
        #[kani::unwind($unw)]
        fn $name() {
            const R: usize = $r;
            const C: usize = $c;
            let x: f64 = kani::any();
            let d: Dm = BaseMatrix::fill(R, C, x);
            let b: Bk = BaseMatrix::fill(R, C, x);
            same_matrix!(&d, &b, R, C, "nalgebra fill: nrows x ncols, as DenseMatrix", "nalgebra fill: every cell is the value, as DenseMatrix");
            let d: Dm = BaseMatrix::zeros(R, C);
            let b: Bk = BaseMatrix::zeros(R, C);
            same_matrix!(&d, &b, R, C, "nalgebra zeros: nrows x ncols, as DenseMatrix", "nalgebra zeros: every cell is +0.0, as DenseMatrix");
            let d: Dm = BaseMatrix::ones(R, C);
            let b: Bk = BaseMatrix::ones(R, C);
            same_matrix!(&d, &b, R, C, "nalgebra ones: nrows x ncols, as DenseMatrix", "nalgebra ones: every cell is 1.0, as DenseMatrix");
            kani::cover!(BaseMatrix::shape(&b) == (R, C));
        }
    };
}
h_fill!(c20_na_fill_zeros_ones_1x1, 1, 1, 6);
h_fill!(c20_na_fill_zeros_ones_2x3, 2, 3, 8);
h_fill!(c20_na_fill_zeros_ones_3x2, 3, 2, 8);

// ---------------------------------------------------------------------------------------------- copy_from (equal shapes, any layout mix)
macro_rules! h_copy_from {
    ($name:ident, $r:expr, $c:expr, $trdst:expr, $trsrc:expr, $unw:expr) => {
        #[kani::proof]
        #[kani::unwind($unw)]
        fn $name() {
            const R: usize = $r;
            const C: usize = $c;
            let v1: [f64; R * C] = kani::any();
            let v2: [f64; R * C] = kani::any();
            let (mut d1, mut b1) = operands(R, C, $trdst, &v1);
            let (d2, b2) = operands(R, C, $trsrc, &v2);
            BaseMatrix::copy_from(&mut d1, &d2);
            BaseMatrix::copy_from(&mut b1, &b2);
            same_matrix!(&d1, &b1, R, C, "nalgebra copy_from: shape unchanged, as DenseMatrix", "nalgebra copy_from: same cells as DenseMatrix");
            same_matrix!(&d2, &b2, R, C, "nalgebra copy_from: source shape unchanged", "nalgebra copy_from: source cells unchanged");
            for i in 0..R {
                for j in 0..C {
                    assert!(BaseMatrix::get(&b1, i, j).to_bits() == BaseMatrix::get(&b2, i, j).to_bits(), "nalgebra copy_from: every cell equals the source cell");
                }
            }
            kani::cover!(BaseMatrix::shape(&b1) == (R, C));
        }
    };
}
h_copy_from!(c20_na_copy_from_1x1, 1, 1, Lay::Std, Lay::Std, 20);
h_copy_from!(c20_na_copy_from_2x3_std, 2, 3, Lay::Std, Lay::Std, 20);
h_copy_from!(c20_na_copy_from_2x3_src_tr, 2, 3, Lay::Std, Lay::Tr, 20);
h_copy_from!(c20_na_copy_from_2x3_dst_tr, 2, 3, Lay::Tr, Lay::Std, 20);

// ---------------------------------------------------------------------------------------------- negative / abs
macro_rules! h_negative {
    ($name:ident, $r:expr, $c:expr, $tr:expr, $unw:expr) => {
        #[kani::proof]
        #[kani::unwind($unw)]
        fn $name() {
            const R: usize = $r;
            const C: usize = $c;
            let vals: [f64; R * C] = pick_n::<{ R * C }>();
            let (d, b) = operands(R, C, $tr, &vals);
            let dn = BaseMatrix::negative(&d);
            let bn: Bk = BaseMatrix::negative(&b);
            same_matrix!(&dn, &bn, R, C, "nalgebra negative: shape unchanged, as DenseMatrix", "nalgebra negative: same cells (bitwise, including -0.0) as DenseMatrix");
            same_matrix!(&d, &b, R, C, "nalgebra negative: operand shape unchanged", "nalgebra negative: operand unchanged");
            kani::cover!(BaseMatrix::get(&bn, 0, 0) == 2.0);
        }
    };
}
h_negative!(c20_na_negative_1x1, 1, 1, Lay::Std, 6);
h_negative!(c20_na_negative_2x3_std, 2, 3, Lay::Std, 8);
h_negative!(c20_na_negative_2x3_tr, 2, 3, Lay::Tr, 8);

macro_rules! h_abs {
    ($name:ident, $r:expr, $c:expr, $tr:expr, $unw:expr) => {
        #[kani::proof]
        #[kani::unwind($unw)]
        fn $name() {
            const R: usize = $r;
            const C: usize = $c;
            let vals: [f64; R * C] = kani::any();
            let (d, b) = operands(R, C, $tr, &vals);
            let da = BaseMatrix::abs(&d);
            let ba: Bk = BaseMatrix::abs(&b);
            same_matrix!(&da, &ba, R, C, "nalgebra abs: shape unchanged, as DenseMatrix", "nalgebra abs: same cells as DenseMatrix");
            same_matrix!(&d, &b, R, C, "nalgebra abs: operand shape unchanged", "nalgebra abs: operand unchanged");
            kani::cover!(BaseMatrix::get(&b, 0, 0) < 0.0 && BaseMatrix::get(&ba, 0, 0) > 0.0);
        }
    };
}
h_abs!(c20_na_abs_1x1, 1, 1, Lay::Std, 6);
h_abs!(c20_na_abs_2x3_std, 2, 3, Lay::Std, 8);
h_abs!(c20_na_abs_2x3_tr, 2, 3, Lay::Tr, 8);

// ---------------------------------------------------------------------------------------------- order-based reductions on mixed-sign constants
macro_rules! h_max_min {
    ($name:ident, $r:expr, $c:expr, $tr:expr, $unw:expr) => {
        #[kani::proof]
        #[kani::unwind($unw)]
        fn $name() {
            const R: usize = $r;
            const C: usize = $c;
            let vals: [f64; R * C] = pick_n::<{ R * C }>();
            let (d, b) = operands(R, C, $tr, &vals);
            let dmax = BaseMatrix::max(&d);
            let bmax = BaseMatrix::max(&b);
            assert!(dmax.to_bits() == bmax.to_bits(), "nalgebra max: same result as DenseMatrix whatever the signs of the data");
            let dmin = BaseMatrix::min(&d);
            let bmin = BaseMatrix::min(&b);
            assert!(dmin.to_bits() == bmin.to_bits(), "nalgebra min: same result as DenseMatrix whatever the signs of the data");
            kani::cover!(bmax < 0.0);
            kani::cover!(bmin > 0.0);
        }
    };
}
h_max_min!(c20_na_max_min_1x1, 1, 1, Lay::Std, 6);
h_max_min!(c20_na_max_min_1x3, 1, 3, Lay::Std, 8);
h_max_min!(c20_na_max_min_2x2_tr, 2, 2, Lay::Tr, 8);
h_max_min!(c20_na_max_min_2x3_std, 2, 3, Lay::Std, 8);
h_max_min!(c20_na_max_min_2x3_tr, 2, 3, Lay::Tr, 8);

macro_rules! h_argmax {
    ($name:ident, $r:expr, $c:expr, $tr:expr, $unw:expr) => {
        #[kani::proof]
        #[kani::unwind($unw)]
        fn $name() {
            const R: usize = $r;
            const C: usize = $c;
            let vals: [f64; R * C] = pick_n::<{ R * C }>();
            let (d, b) = operands(R, C, $tr, &vals);
            let da = BaseMatrix::argmax(&d);
            let ba = BaseMatrix::argmax(&b);
            assert!(da.len() == R && ba.len() == R, "nalgebra argmax: one index per row, as DenseMatrix");
            for i in 0..R {
                assert!(da[i] == ba[i], "nalgebra argmax: same column index per row as DenseMatrix (first maximum on ties, any signs)");
            }
            kani::cover!(ba[R - 1] == C - 1);
        }
    };
}
h_argmax!(c20_na_argmax_1x1, 1, 1, Lay::Std, 6);
h_argmax!(c20_na_argmax_2x3_std, 2, 3, Lay::Std, 8);
h_argmax!(c20_na_argmax_2x3_tr, 2, 3, Lay::Tr, 8);
h_argmax!(c20_na_argmax_3x2_tr, 3, 2, Lay::Tr, 8);

macro_rules! h_max_diff {
    ($name:ident, $r:expr, $c:expr, $tr1:expr, $tr2:expr, $unw:expr) => {
        #[kani::proof]
        #[kani::unwind($unw)]
        fn $name() {
            const R: usize = $r;
            const C: usize = $c;
            let v1: [f64; R * C] = pick_n::<{ R * C }>();
            let v2: [f64; R * C] = pick_n::<{ R * C }>();
            let (d1, b1) = operands(R, C, $tr1, &v1);
            let (d2, b2) = operands(R, C, $tr2, &v2);
            let dm = BaseMatrix::max_diff(&d1, &d2);
            let bm = BaseMatrix::max_diff(&b1, &b2);
            assert!(dm.to_bits() == bm.to_bits(), "nalgebra max_diff: same result as DenseMatrix whatever the signs and layouts of the operands");
            kani::cover!(bm == 5.0);
        }
    };
}
h_max_diff!(c20_na_max_diff_1x1, 1, 1, Lay::Std, Lay::Std, 6);
h_max_diff!(c20_na_max_diff_1x3, 1, 3, Lay::Std, Lay::Std, 8);
h_max_diff!(c20_na_max_diff_2x2_one_tr, 2, 2, Lay::Std, Lay::Tr, 8);

// ---------------------------------------------------------------------------------------------- BaseVector of the backend's row-vector type
macro_rules! h_vector {
    ($name:ident, $n:expr, $idx:expr, $m:expr, $unw:expr) => {
        #[kani::proof]
        #[kani::unwind($unw)]
        fn $name() {
            const N: usize = $n;
            let vals: [f64; N] = kani::any();
            let x: f64 = kani::any();
            let mut dv: Vec<f64> = BaseVector::from_array(&vals);
            let mut bv: BkV = BaseVector::from_array(&vals);
            same_vector!(&dv, &bv, N, "nalgebra vector from_array: same length as Vec", "nalgebra vector from_array/get: same elements as Vec");
            let p: usize = kani::any();
            kani::assume(p < N);
            BaseVector::set(&mut dv, p, x);
            BaseVector::set(&mut bv, p, x);
            same_vector!(&dv, &bv, N, "nalgebra vector set: length unchanged", "nalgebra vector set: same elements as Vec");
            let dtv = BaseVector::to_vec(&dv);
            let btv: Vec<f64> = BaseVector::to_vec(&bv);
            same_vector!(&dtv, &btv, N, "nalgebra vector to_vec: same length as Vec", "nalgebra vector to_vec: same elements as Vec");
            let idx = $idx;
            let dt = BaseVector::take(&dv, &idx);
            let bt: BkV = BaseVector::take(&bv, &idx);
            same_vector!(&dt, &bt, $m, "nalgebra vector take: one element per index, as Vec", "nalgebra vector take: same elements as Vec");
            let dz: Vec<f64> = BaseVector::zeros(N);
            let bz: BkV = BaseVector::zeros(N);
            same_vector!(&dz, &bz, N, "nalgebra vector zeros: same length as Vec", "nalgebra vector zeros: same elements as Vec");
            let mut do_: Vec<f64> = BaseVector::ones(N);
            let mut bo: BkV = BaseVector::ones(N);
            same_vector!(&do_, &bo, N, "nalgebra vector ones: same length as Vec", "nalgebra vector ones: same elements as Vec");
            let df: Vec<f64> = BaseVector::fill(N, x);
            let bf: BkV = BaseVector::fill(N, x);
            same_vector!(&df, &bf, N, "nalgebra vector fill: same length as Vec", "nalgebra vector fill: same elements as Vec");
            BaseVector::copy_from(&mut do_, &dv);
            BaseVector::copy_from(&mut bo, &bv);
            same_vector!(&do_, &bo, N, "nalgebra vector copy_from: length unchanged", "nalgebra vector copy_from: same elements as Vec");
            assert!(BaseVector::is_empty(&bv) == BaseVector::is_empty(&dv), "nalgebra vector is_empty: as Vec");
            kani::cover!(BaseVector::len(&bo) == N);
        }
    };
}
h_vector!(c20_na_vector_1, 1, [0usize, 0], 2, 20);
h_vector!(c20_na_vector_3, 3, [2usize, 0, 2, 1], 4, 20);

// ---------------------------------------------------------------------------------------------- buffer shorter than the row / column
// DenseMatrix::copy_row_as_vec / copy_col_as_vec fill as many elements as the buffer holds and do not panic; parity demands
// the same of the backend (no panic, same buffer).
macro_rules! h_copy_short_buffer {
    ($name:ident, $r:expr, $c:expr, $tr:expr, $unw:expr) => {
        #[kani::proof]
        #[kani::unwind($unw)]
        fn $name() {
            const R: usize = $r;
            const C: usize = $c;
            let vals: [f64; R * C] = kani::any();
            let (d, b) = operands(R, C, $tr, &vals);
            let filler: f64 = kani::any();
            let mut dbuf = vec![filler; C - 1];
            let mut bbuf = vec![filler; C - 1];
            BaseMatrix::copy_row_as_vec(&d, R - 1, &mut dbuf);
            BaseMatrix::copy_row_as_vec(&b, R - 1, &mut bbuf);
            same_vector!(&dbuf, &bbuf, C - 1, "nalgebra copy_row_as_vec into a shorter buffer: buffer length unchanged, as DenseMatrix", "nalgebra copy_row_as_vec into a shorter buffer: same contents as DenseMatrix (which fills what fits and does not panic)");
            let mut dbuf = vec![filler; R - 1];
            let mut bbuf = vec![filler; R - 1];
            BaseMatrix::copy_col_as_vec(&d, C - 1, &mut dbuf);
            BaseMatrix::copy_col_as_vec(&b, C - 1, &mut bbuf);
            same_vector!(&dbuf, &bbuf, R - 1, "nalgebra copy_col_as_vec into a shorter buffer: buffer length unchanged, as DenseMatrix", "nalgebra copy_col_as_vec into a shorter buffer: same contents as DenseMatrix (which fills what fits and does not panic)");
            kani::cover!(bbuf.len() == R - 1);
        }
    };
}
h_copy_short_buffer!(c20_na_copy_short_buffer_2x3_std, 2, 3, Lay::Std, 8);

// ---------------------------------------------------------------------------------------------- shape-mismatch parity
// DenseMatrix rejects (panics on) operands of unequal shape in add_mut, sub_mut, mul_mut, div_mut, h_stack, v_stack, reshape,
// copy_from, matmul (inner dimensions) and dot (sizes; neither a row nor a column pair). The
// `c20_na_ref_rejects_*` harnesses record that reference behaviour; the `c20_na_rejects_*` harnesses demand the same of
// the backend. #[kani::should_panic]: the harness passes iff the call panics and nothing else goes wrong; if the backend
// accepts the operands Kani reports "FAILED (encountered no panics, but at least one was expected)".
// Values are constants (add_mut would otherwise add symbolic floats on a backend that broadcasts instead of panicking).
macro_rules! mismatch_op {
    (add_mut, $a:ident, $b:ident, $r2:expr, $c2:expr) => {
        BaseMatrix::add_mut(&mut $a, &$b);
    };
    (copy_from, $a:ident, $b:ident, $r2:expr, $c2:expr) => {
        BaseMatrix::copy_from(&mut $a, &$b);
    };
    (h_stack, $a:ident, $b:ident, $r2:expr, $c2:expr) => {
        let _s = BaseMatrix::h_stack(&$a, &$b);
    };
    (v_stack, $a:ident, $b:ident, $r2:expr, $c2:expr) => {
        let _s = BaseMatrix::v_stack(&$a, &$b);
    };
    (reshape, $a:ident, $b:ident, $r2:expr, $c2:expr) => {
        let _s = BaseMatrix::reshape(&$a, $r2, $c2);
    };
    (sub_mut, $a:ident, $b:ident, $r2:expr, $c2:expr) => {
        BaseMatrix::sub_mut(&mut $a, &$b);
    };
    (mul_mut, $a:ident, $b:ident, $r2:expr, $c2:expr) => {
        BaseMatrix::mul_mut(&mut $a, &$b);
    };
    (div_mut, $a:ident, $b:ident, $r2:expr, $c2:expr) => {
        BaseMatrix::div_mut(&mut $a, &$b);
    };
    (matmul, $a:ident, $b:ident, $r2:expr, $c2:expr) => {
        let _s = BaseMatrix::matmul(&$a, &$b);
    };
    (dot, $a:ident, $b:ident, $r2:expr, $c2:expr) => {
        let _s = BaseMatrix::dot(&$a, &$b);
    };
}

macro_rules! h_rejects {
    ($name:ident, $M:ty, $op:ident, $r1:expr, $c1:expr, $r2:expr, $c2:expr, $unw:expr $(, #[$attr:meta])*) => {
        #[kani::proof]
        #[kani::unwind($unw)]
        #[kani::should_panic]
        $(#[$attr])*
        #[allow(unused_mut, unused_variables)]
        fn $name() {
            let mut a: $M = BaseMatrix::fill($r1, $c1, 1.5);
            let b: $M = BaseMatrix::fill($r2, $c2, -2.0);
            kani::cover!(BaseMatrix::shape(&a) == ($r1, $c1) && BaseMatrix::shape(&b) == ($r2, $c2));
            mismatch_op!($op, a, b, $r2, $c2);
        }
    };
}
h_rejects!(c20_na_ref_rejects_add_mut_2x3_1x3, Dm, add_mut, 2, 3, 1, 3, 20);
h_rejects!(c20_na_ref_rejects_add_mut_2x3_3x2, Dm, add_mut, 2, 3, 3, 2, 20);
h_rejects!(c20_na_ref_rejects_add_mut_2x3_1x1, Dm, add_mut, 2, 3, 1, 1, 20);
h_rejects!(c20_na_ref_rejects_copy_from_2x3_1x3, Dm, copy_from, 2, 3, 1, 3, 20);
h_rejects!(c20_na_ref_rejects_copy_from_2x3_3x2, Dm, copy_from, 2, 3, 3, 2, 20);
h_rejects!(c20_na_ref_rejects_copy_from_2x3_1x1, Dm, copy_from, 2, 3, 1, 1, 20);
h_rejects!(c20_na_ref_rejects_reshape_2x3_to_2x2, Dm, reshape, 2, 3, 2, 2, 20);
h_rejects!(c20_na_ref_rejects_reshape_2x3_to_4x2, Dm, reshape, 2, 3, 4, 2, 20);
h_rejects!(c20_na_rejects_add_mut_2x3_1x3, Bk, add_mut, 2, 3, 1, 3, 20);
h_rejects!(c20_na_rejects_add_mut_2x3_3x2, Bk, add_mut, 2, 3, 3, 2, 20);
h_rejects!(c20_na_rejects_add_mut_2x3_1x1, Bk, add_mut, 2, 3, 1, 1, 20);
h_rejects!(c20_na_rejects_copy_from_2x3_1x3, Bk, copy_from, 2, 3, 1, 3, 20);
h_rejects!(c20_na_rejects_copy_from_2x3_3x2, Bk, copy_from, 2, 3, 3, 2, 20);
h_rejects!(c20_na_rejects_copy_from_2x3_1x1, Bk, copy_from, 2, 3, 1, 1, 20);
h_rejects!(c20_na_rejects_reshape_2x3_to_2x2, Bk, reshape, 2, 3, 2, 2, 20);
h_rejects!(c20_na_rejects_reshape_2x3_to_4x2, Bk, reshape, 2, 3, 4, 2, 20);


// sub_mut / mul_mut / div_mut (unequal shapes), matmul (inner dimensions differ), dot (sizes differ: 1x3 . 1x4; neither a row
// nor a column vector pair: 2x2 . 2x2): DenseMatrix panics in all of them; constant cells (1.5 and -2.0).
h_rejects!(c20_na_ref_rejects_sub_mut_2x3_1x3, Dm, sub_mut, 2, 3, 1, 3, 20);
h_rejects!(c20_na_ref_rejects_sub_mut_2x3_3x2, Dm, sub_mut, 2, 3, 3, 2, 20);
h_rejects!(c20_na_ref_rejects_mul_mut_2x3_1x3, Dm, mul_mut, 2, 3, 1, 3, 20);
h_rejects!(c20_na_ref_rejects_mul_mut_2x3_3x2, Dm, mul_mut, 2, 3, 3, 2, 20);
h_rejects!(c20_na_ref_rejects_div_mut_2x3_1x3, Dm, div_mut, 2, 3, 1, 3, 20);
h_rejects!(c20_na_ref_rejects_div_mut_2x3_3x2, Dm, div_mut, 2, 3, 3, 2, 20);
h_rejects!(c20_na_ref_rejects_matmul_2x3_2x3, Dm, matmul, 2, 3, 2, 3, 20);
h_rejects!(c20_na_ref_rejects_matmul_1x3_1x3, Dm, matmul, 1, 3, 1, 3, 20);
h_rejects!(c20_na_ref_rejects_dot_1x3_1x4, Dm, dot, 1, 3, 1, 4, 20);
h_rejects!(c20_na_ref_rejects_dot_2x2_2x2, Dm, dot, 2, 2, 2, 2, 20);
h_rejects!(c20_na_rejects_sub_mut_2x3_1x3, Bk, sub_mut, 2, 3, 1, 3, 20);
h_rejects!(c20_na_rejects_sub_mut_2x3_3x2, Bk, sub_mut, 2, 3, 3, 2, 20);
h_rejects!(c20_na_rejects_mul_mut_2x3_1x3, Bk, mul_mut, 2, 3, 1, 3, 20);
h_rejects!(c20_na_rejects_mul_mut_2x3_3x2, Bk, mul_mut, 2, 3, 3, 2, 20);
h_rejects!(c20_na_rejects_div_mut_2x3_1x3, Bk, div_mut, 2, 3, 1, 3, 20);
h_rejects!(c20_na_rejects_div_mut_2x3_3x2, Bk, div_mut, 2, 3, 3, 2, 20);
h_rejects!(c20_na_rejects_matmul_2x3_2x3, Bk, matmul, 2, 3, 2, 3, 20);
h_rejects!(c20_na_rejects_matmul_1x3_1x3, Bk, matmul, 1, 3, 1, 3, 20);
h_rejects!(c20_na_rejects_dot_1x3_1x4, Bk, dot, 1, 3, 1, 4, 20);
h_rejects!(c20_na_rejects_dot_2x2_2x2, Bk, dot, 2, 2, 2, 2, 20);

// ---------------------------------------------------------------------------------------------- dot where DenseMatrix returns
// DenseMatrix::dot accepts any pair of which one operand has a single row or a single column, provided the sizes agree, and
// returns the sum of the products of corresponding elements. Constant data: [1, 2, 3] . [4, 5, 6] = 32 exactly.
// The backend must return (not panic) and return the same value.
macro_rules! h_dot_value {
    ($name:ident, $r1:expr, $c1:expr, $r2:expr, $c2:expr, $unw:expr $(, #[$attr:meta])*) => {
        #[kani::proof]
        #[kani::unwind($unw)]
        $(#[$attr])*
        fn $name() {
            let av = [1.0f64, 2.0, 3.0];
            let bv = [4.0f64, 5.0, 6.0];
            let (d1, b1) = operands($r1, $c1, Lay::Std, &av);
            let (d2, b2) = operands($r2, $c2, Lay::Std, &bv);
            let dd = BaseMatrix::dot(&d1, &d2);
            assert!(dd == 32.0, "harness: DenseMatrix dot of [1, 2, 3] and [4, 5, 6] is 32");
            let bd = BaseMatrix::dot(&b1, &b2);
            assert!(bd == dd, "nalgebra dot: same value as DenseMatrix for a vector pair DenseMatrix accepts ([1, 2, 3] . [4, 5, 6] = 32)");
            kani::cover!(bd == 32.0);
        }
    };
}
h_dot_value!(c20_na_dot_value_1x3_1x3, 1, 3, 1, 3, 20);
h_dot_value!(c20_na_dot_value_3x1_3x1, 3, 1, 3, 1, 20);
h_dot_value!(c20_na_dot_value_1x3_3x1, 1, 3, 3, 1, 20);
h_dot_value!(c20_na_dot_value_3x1_1x3, 3, 1, 1, 3, 20);

// ---------------------------------------------------------------------------------------------- approximate_eq
// DenseMatrix::approximate_eq returns false for operands of different shape (no panic, no broadcast); for equal shapes it is
// the cell-wise |a - b| <= error. Constant cells.
macro_rules! h_approximate_eq {
    ($name:ident, $r1:expr, $c1:expr, $r2:expr, $c2:expr, $x:expr, $y:expr, $err:expr, $expect:expr, $unw:expr) => {
        #[kani::proof]
        #[kani::unwind($unw)]
        fn $name() {
            let d1: Dm = BaseMatrix::fill($r1, $c1, $x);
            let d2: Dm = BaseMatrix::fill($r2, $c2, $y);
            let b1: Bk = BaseMatrix::fill($r1, $c1, $x);
            let b2: Bk = BaseMatrix::fill($r2, $c2, $y);
            let de = BaseMatrix::approximate_eq(&d1, &d2, $err);
            assert!(de == $expect, "harness: DenseMatrix approximate_eq gives the expected answer");
            let be = BaseMatrix::approximate_eq(&b1, &b2, $err);
            assert!(be == de, "nalgebra approximate_eq: same answer as DenseMatrix (false for operands of different shape: no panic, no broadcast)");
            kani::cover!(be == $expect);
        }
    };
}
h_approximate_eq!(c20_na_approximate_eq_2x3_2x3_within, 2, 3, 2, 3, 1.5, 1.75, 0.5, true, 20);
h_approximate_eq!(c20_na_approximate_eq_2x3_2x3_beyond, 2, 3, 2, 3, 1.5, 1.75, 0.125, false, 20);
h_approximate_eq!(c20_na_approximate_eq_2x3_1x3_mismatch, 2, 3, 1, 3, 1.5, 1.5, 0.5, false, 20);
h_approximate_eq!(c20_na_approximate_eq_2x3_3x2_mismatch, 2, 3, 3, 2, 1.5, 1.5, 0.5, false, 20);
h_approximate_eq!(c20_na_approximate_eq_2x3_1x1_mismatch, 2, 3, 1, 1, 1.5, 1.5, 0.5, false, 20);
