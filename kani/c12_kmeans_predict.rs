// Kani harnesses for C12, child module of src/cluster/kmeans.rs: the REAL KMeans::predict on HAND-BUILT models.
// Paired with the Verus unit specs/C12/predict.rs (fallback_for): when somebody restructures predict with constructs Verus
// cannot read (`continue` in a for loop, iterator adapters ...) the unit is inconclusive; these harnesses then decide small
// models on the real code.
//
// The model value is built field by field (this module sees the private fields): k centroids of dimension d whose coordinates
// are drawn by symbolic bytes from the constant set {0, 1, 2, 3}; `size` (the number of training rows fit assigned to each
// cluster) is UNCONSTRAINED per cluster -- in particular 0: fit keeps the last centroid of a cluster that lost all its rows,
// and that centroid is still one of the k centroids of the model.  The query rows are drawn from the same constant set.
// All squared distances are small integers (<= 18), exact in f64, so the harness computes them in INTEGER arithmetic.
//
// Obligations read off the property ("Predicting assigns every row to a centroid at minimal Euclidean distance") and off the
// contract of the Verus unit (ties go to the lowest index):
//   one label per row;  label i is (the conversion of) a centroid index j < k;
//   no centroid is strictly closer to row i than centroid j;  every centroid with a lower index is strictly farther.
use super::*;
use crate::linalg::naive::dense_matrix::DenseMatrix;
use crate::linalg::BaseMatrix;

const COORD: [f64; 4] = [0.0, 1.0, 2.0, 3.0];
const INDEX: [f64; 4] = [0.0, 1.0, 2.0, 3.0];

// a coordinate 0..4 from one symbolic byte
fn verif_coord() -> usize {
    let b: u8 = kani::any();
    kani::assume(b < 4);
    b as usize
}

macro_rules! kmeans_predict_harness {
    ($name:ident, $k:expr, $d:expr, $r:expr, $unw:expr) => {
        #[kani::proof]
        #[kani::unwind($unw)]
        fn $name() {
            const K: usize = $k;
            const D: usize = $d;
            const R: usize = $r;
            let mut ic = [[0usize; D]; K];
            let mut centroids: Vec<Vec<f64>> = Vec::with_capacity(K);
            let mut size: Vec<usize> = Vec::with_capacity(K);
            let mut j = 0;
            while j < K {
                let mut c: Vec<f64> = Vec::with_capacity(D);
                let mut a = 0;
                while a < D {
                    ic[j][a] = verif_coord();
                    c.push(COORD[ic[j][a]]);
                    a += 1;
                }
                centroids.push(c);
                size.push(kani::any()); // any cluster size, 0 (an EMPTY cluster) included
                j += 1;
            }
            let mut ir = [[0usize; D]; R];
            let mut x: DenseMatrix<f64> = DenseMatrix::zeros(R, D);
            let mut i = 0;
            while i < R {
                let mut a = 0;
                while a < D {
                    ir[i][a] = verif_coord();
                    x.set(i, a, COORD[ir[i][a]]);
                    a += 1;
                }
                i += 1;
            }
            let model: KMeans<f64> = KMeans {
                k: K,
                _y: Vec::new(),
                size,
                _distortion: 0.0,
                centroids,
            };
            let res = model.predict(&x);
            assert!(res.is_ok(), "predict: succeeds on rows of the model's dimension");
            let y = match res {
                Ok(y) => y,
                Err(_) => return,
            };
            assert!(y.len() == R, "predict: one label per row of x");
            let mut i = 0;
            while i < R {
                // squared distances of row i, in integers
                let mut dist = [0i32; K];
                let mut j = 0;
                while j < K {
                    let mut a = 0;
                    while a < D {
                        let diff = ir[i][a] as i32 - ic[j][a] as i32;
                        dist[j] += diff * diff;
                        a += 1;
                    }
                    j += 1;
                }
                // which centroid the label names
                let mut lab = K;
                let mut j = 0;
                while j < K {
                    if y[i] == INDEX[j] {
                        lab = j;
                    }
                    j += 1;
                }
                assert!(lab < K, "predict: the label of a row is the index of one of the k centroids");
                let mut j = 0;
                while j < K {
                    assert!(
                        dist[lab] <= dist[j],
                        "predict: every row is assigned to a centroid at MINIMAL Euclidean distance (no centroid of the model, the one of an empty cluster included, is strictly closer)"
                    );
                    assert!(
                        j >= lab || dist[j] > dist[lab],
                        "predict: among the nearest centroids the one with the lowest index is reported"
                    );
                    j += 1;
                }
                i += 1;
            }
            // the centroid of an EMPTY cluster is the unique nearest centroid of row 0 and is reported
            kani::cover!(model.size[K - 1] == 0 && y[0] == INDEX[K - 1] && ir[0][0] == ic[K - 1][0] && ic[0][0] != ic[K - 1][0]);
        }
    };
}

//                      name                    k  d  rows unwind
kmeans_predict_harness!(c12_predict_k2_d1_r2, 2, 1, 2, 4);
kmeans_predict_harness!(c12_predict_k3_d1_r1, 3, 1, 1, 5);
kmeans_predict_harness!(c12_predict_k3_d2_r1, 3, 2, 1, 5);
