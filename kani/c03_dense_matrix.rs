// Kani harnesses for C03 (dense matrix / vector operations), child module of src/linalg/naive/dense_matrix.rs.
//
// Bounded stand-ins for the functions of DenseMatrix<T> / Vec<T> that the Verus units of specs/C03 cannot read
// (`.enumerate()`, `sort_by`, `Vec::from(&[T])`, `clone_from_slice`): get_row, get_row_as_vec, copy_row_as_vec,
// get_col_as_vec, copy_col_as_vec, from_array, from_2d_vec, from_2d_array, BaseMatrix::take / BaseVector::take (default
// bodies in src/linalg/mod.rs), copy_from (accept case), argmax, DenseMatrix::iter, unique, column_mean.
// At the bound they discharge the contracts that Verus units ASSUME:
//   A-MATRIX-TRAIT2-ROWS  (specs/C03/dm_as_matrix_trait.rs, contract text in specs/prelude/matrix_abs2.rs):
//       get_row_as_vec(row), row < nrows:  len == ncols, r[c] == at(row, c)
//       copy_row_as_vec(row, result), row < nrows, result.len() == ncols:  len == ncols, result[c] == at(row, c)
//   A-COLUMN-MEAN         (specs/C03/dm_cov.rs): mu.len() == ncols, mu[c] == (left-fold sum of column c) / from(nrows)
//
// Every shape is FIXED per harness (macro instance); the row / column read by the row and column harnesses is a symbolic
// index below that fixed bound (one call per function instead of one per row: a third of the CBMC time).  T = f64.  Where the function only MOVES values the cells are
// unconstrained symbolic f64 bit patterns (NaN payloads included) compared with to_bits; where it ORDERS values they
// are drawn from the mixed-sign constant set {-2.0, -0.5, 0.0, 1.5, 3.0}; where it does ARITHMETIC (column_mean, ab,
// sum) every cell is one of two constants so that the exact result is a small dyadic number known by counting.
// The logical cell (r, c) of a matrix built from row-major `vals` is vals[r * C + c]; `get` (proved by Verus for all
// shapes: specs/prelude/dm_core.rs) is the reference accessor of the results.
use super::*;

type Dm = DenseMatrix<f64>;

/// One value of the mixed-sign constant set, chosen by a symbolic selector (no arithmetic on unknown floats).
fn pick() -> f64 {
    let s: u8 = kani::any();
    kani::assume(s < 5);
    match s {
        0 => -2.0,
        1 => -0.5,
        2 => 0.0,
        3 => 1.5,
        _ => 3.0,
    }
}

fn pick_n<const N: usize>() -> [f64; N] {
    let mut a = [0.0f64; N];
    for k in 0..N {
        a[k] = pick();
    }
    a
}

/// A symbolic f64 that is not NaN (order-only harnesses: the comparison is total on such values).
fn any_ordered() -> f64 {
    let v: f64 = kani::any();
    kani::assume(v == v);
    v
}

// ---------------------------------------------------------------------------------------------- from_array (+ set)
macro_rules! h_from_array {
    ($name:ident, $r:expr, $c:expr, $unw:expr) => {
        #[kani::proof]
        #[kani::unwind($unw)]
        fn $name() {
            const R: usize = $r;
            const C: usize = $c;
            let vals: [f64; R * C] = kani::any();
            let m: Dm = DenseMatrix::from_array(R, C, &vals);
            assert!(m.shape() == (R, C), "from_array: the result has the requested shape");
            for i in 0..R {
                for j in 0..C {
                    assert!(m.get(i, j).to_bits() == vals[i * C + j].to_bits(), "from_array: cell (r, c) is element r * ncols + c of the row-major input");
                }
            }
            // the same matrix through zeros + set
            let mut z: Dm = DenseMatrix::zeros(R, C);
            for i in 0..R {
                for j in 0..C {
                    z.set(i, j, vals[i * C + j]);
                }
            }
            for i in 0..R {
                for j in 0..C {
                    assert!(z.get(i, j).to_bits() == m.get(i, j).to_bits(), "from_array: same cells as zeros followed by set of every cell");
                }
            }
            kani::cover!(m.shape() == (R, C));
        }
    };
}
h_from_array!(c03_from_array_1x1, 1, 1, 6);
h_from_array!(c03_from_array_1x3, 1, 3, 8);
h_from_array!(c03_from_array_3x1, 3, 1, 8);
h_from_array!(c03_from_array_2x3, 2, 3, 8);
h_from_array!(c03_from_array_3x2, 3, 2, 8);

// ---------------------------------------------------------------------------------------------- row access
// A-MATRIX-TRAIT2-ROWS: the contract of prelude/matrix_abs2.rs, element-wise through `get`.
macro_rules! h_rows {
    ($name:ident, $r:expr, $c:expr, $unw:expr) => {
        #[kani::proof]
        #[kani::unwind($unw)]
        fn $name() {
            const R: usize = $r;
            const C: usize = $c;
            let vals: [f64; R * C] = kani::any();
            let m: Dm = DenseMatrix::from_array(R, C, &vals);
            let filler: f64 = kani::any();
            let i: usize = kani::any();
            kani::assume(i < R);
            {
                let v = m.get_row(i);
                assert!(v.len() == C, "get_row: the result has ncols elements");
                for j in 0..C {
                    assert!(v[j].to_bits() == m.get(i, j).to_bits(), "get_row: returns the logical row (element c is cell (row, c))");
                    assert!(v[j].to_bits() == vals[i * C + j].to_bits(), "get_row: element c is element row * ncols + c of the row-major data the matrix was built from");
                }
                let v = m.get_row_as_vec(i);
                assert!(v.len() == C, "get_row_as_vec: the result has ncols elements");
                for j in 0..C {
                    assert!(v[j].to_bits() == m.get(i, j).to_bits(), "get_row_as_vec: returns the logical row (element c is cell (row, c))");
                }
                // contract case: the buffer has exactly ncols elements
                let mut buf = vec![filler; C];
                m.copy_row_as_vec(i, &mut buf);
                assert!(buf.len() == C, "copy_row_as_vec: the buffer keeps its length ncols");
                for j in 0..C {
                    assert!(buf[j].to_bits() == m.get(i, j).to_bits(), "copy_row_as_vec: the buffer receives the logical row (element c is cell (row, c))");
                }
                // beyond the contract: a longer buffer keeps its tail
                let mut buf = vec![filler; C + 1];
                m.copy_row_as_vec(i, &mut buf);
                assert!(buf.len() == C + 1 && buf[C].to_bits() == filler.to_bits(), "copy_row_as_vec: elements of a longer buffer beyond ncols are untouched");
                for j in 0..C {
                    assert!(buf[j].to_bits() == m.get(i, j).to_bits(), "copy_row_as_vec: the leading ncols elements of a longer buffer are the logical row");
                }
            }
            for i in 0..R {
                for j in 0..C {
                    assert!(m.get(i, j).to_bits() == vals[i * C + j].to_bits(), "get_row / get_row_as_vec / copy_row_as_vec: the matrix is unchanged");
                }
            }
            kani::cover!(m.shape() == (R, C));
        }
    };
}
h_rows!(c03_rows_1x1, 1, 1, 6);
h_rows!(c03_rows_1x3, 1, 3, 8);
h_rows!(c03_rows_3x1, 3, 1, 8);
h_rows!(c03_rows_2x3, 2, 3, 8);
h_rows!(c03_rows_3x2, 3, 2, 8);

// ---------------------------------------------------------------------------------------------- column access
macro_rules! h_cols {
    ($name:ident, $r:expr, $c:expr, $unw:expr) => {
        #[kani::proof]
        #[kani::unwind($unw)]
        fn $name() {
            const R: usize = $r;
            const C: usize = $c;
            let vals: [f64; R * C] = kani::any();
            let m: Dm = DenseMatrix::from_array(R, C, &vals);
            let filler: f64 = kani::any();
            let j: usize = kani::any();
            kani::assume(j < C);
            {
                let v = m.get_col_as_vec(j);
                assert!(v.len() == R, "get_col_as_vec: the result has nrows elements");
                for i in 0..R {
                    assert!(v[i].to_bits() == m.get(i, j).to_bits(), "get_col_as_vec: returns the logical column (element r is cell (r, col))");
                    assert!(v[i].to_bits() == vals[i * C + j].to_bits(), "get_col_as_vec: element r is element r * ncols + col of the row-major data the matrix was built from");
                }
                let mut buf = vec![filler; R];
                m.copy_col_as_vec(j, &mut buf);
                assert!(buf.len() == R, "copy_col_as_vec: the buffer keeps its length nrows");
                for i in 0..R {
                    assert!(buf[i].to_bits() == m.get(i, j).to_bits(), "copy_col_as_vec: the buffer receives the logical column (element r is cell (r, col))");
                }
                let mut buf = vec![filler; R + 1];
                m.copy_col_as_vec(j, &mut buf);
                assert!(buf.len() == R + 1 && buf[R].to_bits() == filler.to_bits(), "copy_col_as_vec: elements of a longer buffer beyond nrows are untouched");
                for i in 0..R {
                    assert!(buf[i].to_bits() == m.get(i, j).to_bits(), "copy_col_as_vec: the leading nrows elements of a longer buffer are the logical column");
                }
            }
            for i in 0..R {
                for j in 0..C {
                    assert!(m.get(i, j).to_bits() == vals[i * C + j].to_bits(), "get_col_as_vec / copy_col_as_vec: the matrix is unchanged");
                }
            }
            kani::cover!(m.shape() == (R, C));
        }
    };
}
h_cols!(c03_cols_1x1, 1, 1, 6);
h_cols!(c03_cols_1x3, 1, 3, 8);
h_cols!(c03_cols_3x1, 3, 1, 8);
h_cols!(c03_cols_2x3, 2, 3, 8);
h_cols!(c03_cols_3x2, 3, 2, 8);

// ---------------------------------------------------------------------------------------------- from_2d_vec / from_2d_array
macro_rules! h_from_2d {
    ($name:ident, $r:expr, $c:expr, $unw:expr) => {
        #[kani::proof]
        #[kani::unwind($unw)]
        fn $name() {
            const R: usize = $r;
            const C: usize = $c;
            let rows: [[f64; C]; R] = kani::any();
            let mut vv: Vec<Vec<f64>> = Vec::with_capacity(R);
            for i in 0..R {
                let mut row: Vec<f64> = Vec::with_capacity(C);
                for j in 0..C {
                    row.push(rows[i][j]);
                }
                vv.push(row);
            }
            let m: Dm = DenseMatrix::from_2d_vec(&vv);
            assert!(m.shape() == (R, C), "from_2d_vec: shape is (number of rows, length of the first row)");
            for i in 0..R {
                for j in 0..C {
                    assert!(m.get(i, j).to_bits() == rows[i][j].to_bits(), "from_2d_vec: cell (r, c) is input[r][c]");
                }
            }
            let mut refs: Vec<&[f64]> = Vec::with_capacity(R);
            for i in 0..R {
                refs.push(&rows[i][..]);
            }
            let a: Dm = DenseMatrix::from_2d_array(&refs[..]);
            assert!(a.shape() == (R, C), "from_2d_array: shape is (number of rows, length of the first row)");
            for i in 0..R {
                for j in 0..C {
                    assert!(a.get(i, j).to_bits() == rows[i][j].to_bits(), "from_2d_array: cell (r, c) is input[r][c]");
                }
            }
            kani::cover!(m.shape() == (R, C) && a.shape() == (R, C));
        }
    };
}
h_from_2d!(c03_from_2d_1x1, 1, 1, 6);
h_from_2d!(c03_from_2d_1x3, 1, 3, 8);
h_from_2d!(c03_from_2d_3x1, 3, 1, 8);
h_from_2d!(c03_from_2d_2x3, 2, 3, 8);
h_from_2d!(c03_from_2d_3x2, 3, 2, 8);

// ---------------------------------------------------------------------------------------------- BaseMatrix::take (default body, src/linalg/mod.rs)
// axis 0: row k of the result is row index[k] of the operand (all columns kept);
// axis 1: column k of the result is column index[k] of the operand (all rows kept).
macro_rules! h_take {
    ($name:ident, $r:expr, $c:expr, $idx:expr, $axis:expr, $rr:expr, $rc:expr, $unw:expr) => {
        #[kani::proof]
        #[kani::unwind($unw)]
        fn $name() {
            const R: usize = $r;
            const C: usize = $c;
            let vals: [f64; R * C] = kani::any();
            let m: Dm = DenseMatrix::from_array(R, C, &vals);
            let idx = $idx;
            let t: Dm = BaseMatrix::take(&m, &idx, $axis);
            assert!(t.shape() == ($rr, $rc), "take: shape is (index.len(), ncols) along axis 0 and (nrows, index.len()) along axis 1");
            for i in 0..$rr {
                for j in 0..$rc {
                    let src = if $axis == 0 { m.get(idx[i], j) } else { m.get(i, idx[j]) };
                    assert!(t.get(i, j).to_bits() == src.to_bits(), "take: row (axis 0) / column (axis 1) k of the result is row / column index[k] of the operand, repeated and out-of-order indices included");
                }
            }
            for i in 0..R {
                for j in 0..C {
                    assert!(m.get(i, j).to_bits() == vals[i * C + j].to_bits(), "take: the operand is unchanged");
                }
            }
            kani::cover!(t.shape() == ($rr, $rc));
        }
    };
}
h_take!(c03_take_rows_1x1, 1, 1, [0usize, 0], 0, 2, 1, 8);
h_take!(c03_take_cols_1x1, 1, 1, [0usize], 1, 1, 1, 8);
h_take!(c03_take_cols_1x3, 1, 3, [2usize, 1], 1, 1, 2, 8);
h_take!(c03_take_rows_3x1, 3, 1, [1usize, 2], 0, 2, 1, 8);
h_take!(c03_take_rows_2x3, 2, 3, [1usize, 0, 1], 0, 3, 3, 8);
h_take!(c03_take_cols_2x3, 2, 3, [2usize, 0, 2, 1], 1, 2, 4, 10);
h_take!(c03_take_rows_3x2, 3, 2, [2usize, 2, 0], 0, 3, 2, 8);
h_take!(c03_take_cols_3x2, 3, 2, [1usize, 0], 1, 3, 2, 8);

// ---------------------------------------------------------------------------------------------- BaseVector::take for Vec (default body)
macro_rules! h_vec_take {
    ($name:ident, $n:expr, $idx:expr, $k:expr, $unw:expr) => {
        #[kani::proof]
        #[kani::unwind($unw)]
        fn $name() {
            const N: usize = $n;
            let vals: [f64; N] = kani::any();
            let v: Vec<f64> = BaseVector::from_array(&vals);
            assert!(v.len() == N, "BaseVector::from_array: same length as the input");
            for i in 0..N {
                assert!(v[i].to_bits() == vals[i].to_bits(), "BaseVector::from_array: same elements as the input");
            }
            let idx = $idx;
            let t: Vec<f64> = BaseVector::take(&v, &idx);
            assert!(t.len() == $k, "BaseVector::take: one element per index");
            for i in 0..$k {
                assert!(t[i].to_bits() == vals[idx[i]].to_bits(), "BaseVector::take: element k of the result is element index[k] of the operand, repeated and out-of-order indices included");
            }
            kani::cover!(t.len() == $k);
        }
    };
}
h_vec_take!(c03_vec_take_1, 1, [0usize, 0], 2, 8);
h_vec_take!(c03_vec_take_3, 3, [2usize, 0, 2, 1], 4, 10);
h_vec_take!(c03_vec_take_4, 4, [3usize, 1], 2, 10);

// ---------------------------------------------------------------------------------------------- copy_from, accept case
macro_rules! h_copy_from {
    ($name:ident, $r:expr, $c:expr, $unw:expr) => {
        #[kani::proof]
        #[kani::unwind($unw)]
        fn $name() {
            const R: usize = $r;
            const C: usize = $c;
            let v1: [f64; R * C] = kani::any();
            let v2: [f64; R * C] = kani::any();
            let mut dst: Dm = DenseMatrix::from_array(R, C, &v1);
            let src: Dm = DenseMatrix::from_array(R, C, &v2);
            BaseMatrix::copy_from(&mut dst, &src);
            assert!(dst.shape() == (R, C) && src.shape() == (R, C), "copy_from: both shapes are unchanged");
            for i in 0..R {
                for j in 0..C {
                    assert!(dst.get(i, j).to_bits() == src.get(i, j).to_bits(), "copy_from: on equal shapes every cell equals the source cell afterwards");
                    assert!(src.get(i, j).to_bits() == v2[i * C + j].to_bits(), "copy_from: the source is unchanged");
                }
            }
            kani::cover!(dst.shape() == (R, C));
        }
    };
}
h_copy_from!(c03_copy_from_1x1, 1, 1, 8);
h_copy_from!(c03_copy_from_1x3, 1, 3, 10);
h_copy_from!(c03_copy_from_3x1, 3, 1, 10);
h_copy_from!(c03_copy_from_2x3, 2, 3, 12);
h_copy_from!(c03_copy_from_3x2, 3, 2, 12);

macro_rules! h_vec_copy_from {
    ($name:ident, $n:expr, $unw:expr) => {
        #[kani::proof]
        #[kani::unwind($unw)]
        fn $name() {
            const N: usize = $n;
            let v1: [f64; N] = kani::any();
            let v2: [f64; N] = kani::any();
            let mut dst: Vec<f64> = BaseVector::from_array(&v1);
            let src: Vec<f64> = BaseVector::from_array(&v2);
            BaseVector::copy_from(&mut dst, &src);
            assert!(dst.len() == N && src.len() == N, "Vec copy_from: both lengths are unchanged");
            for i in 0..N {
                assert!(dst[i].to_bits() == v2[i].to_bits(), "Vec copy_from: on equal lengths every element equals the source element afterwards");
                assert!(src[i].to_bits() == v2[i].to_bits(), "Vec copy_from: the source is unchanged");
            }
            kani::cover!(dst.len() == N);
        }
    };
}
h_vec_copy_from!(c03_vec_copy_from_1, 1, 8);
h_vec_copy_from!(c03_vec_copy_from_3, 3, 10);

// ---------------------------------------------------------------------------------------------- argmax
// per row the FIRST column index of the row maximum, whatever the signs of the data (an all-negative row included).
macro_rules! argmax_checks {
    ($m:expr, $a:expr, $r:expr, $c:expr) => {{
        assert!($a.len() == $r, "argmax: one index per row");
        for i in 0..$r {
            let w = $a[i];
            assert!(w < $c, "argmax: the index is a column index");
            for j in 0..$c {
                assert!($m.get(i, j) <= $m.get(i, w), "argmax: the indexed cell is a maximum of its row (all-negative rows included)");
                if j < w {
                    assert!($m.get(i, j) < $m.get(i, w), "argmax: the index is the FIRST position of the row maximum");
                }
            }
        }
    }};
}
macro_rules! h_argmax {
    ($name:ident, $r:expr, $c:expr, $unw:expr) => {
        #[kani::proof]
        #[kani::unwind($unw)]
        fn $name() {
            const R: usize = $r;
            const C: usize = $c;
            let vals: [f64; R * C] = pick_n::<{ R * C }>();
            let m: Dm = DenseMatrix::from_array(R, C, &vals);
            let a = m.argmax();
            argmax_checks!(m, a, R, C);
            // vacuity guards: an all-negative last row whose maximum is in the last column; a tie resolved to the left
            kani::cover!(m.get(R - 1, C - 1) < 0.0 && a[R - 1] == C - 1);
            kani::cover!(C == 1 || (m.get(0, 0) == m.get(0, C - 1) && a[0] == 0));
        }
    };
}
h_argmax!(c03_argmax_1x1, 1, 1, 6);
h_argmax!(c03_argmax_1x3, 1, 3, 8);
h_argmax!(c03_argmax_3x1, 3, 1, 8);
h_argmax!(c03_argmax_2x3, 2, 3, 8);
h_argmax!(c03_argmax_3x2, 3, 2, 8);

// argmax only compares: every non-NaN f64 (infinities, signed zeros, subnormals) instead of the constant set
macro_rules! h_argmax_sym {
    ($name:ident, $r:expr, $c:expr, $unw:expr) => {
        #[kani::proof]
        #[kani::unwind($unw)]
        fn $name() {
            const R: usize = $r;
            const C: usize = $c;
            let mut vals = [0.0f64; R * C];
            for k in 0..R * C {
                vals[k] = any_ordered();
            }
            let m: Dm = DenseMatrix::from_array(R, C, &vals);
            let a = m.argmax();
            argmax_checks!(m, a, R, C);
            kani::cover!(m.get(R - 1, C - 1) < 0.0 && a[R - 1] == C - 1);
        }
    };
}
h_argmax_sym!(c03_argmax_anyvalue_2x3, 2, 3, 8);

// ---------------------------------------------------------------------------------------------- DenseMatrix::iter
macro_rules! h_iter {
    ($name:ident, $r:expr, $c:expr, $unw:expr) => {
        #[kani::proof]
        #[kani::unwind($unw)]
        fn $name() {
            const R: usize = $r;
            const C: usize = $c;
            let vals: [f64; R * C] = kani::any();
            let m: Dm = DenseMatrix::from_array(R, C, &vals);
            let mut it = m.iter();
            for k in 0..R * C {
                match it.next() {
                    Some(v) => assert!(v.to_bits() == m.get(k / C, k % C).to_bits(), "iter: yields the cells in row-major order (item k is cell (k / ncols, k % ncols))"),
                    None => assert!(false, "iter: yields nrows * ncols items"),
                }
            }
            assert!(it.next().is_none(), "iter: ends after nrows * ncols items");
            assert!(it.next().is_none(), "iter: stays exhausted");
            kani::cover!(m.shape() == (R, C));
        }
    };
}
h_iter!(c03_iter_1x1, 1, 1, 6);
h_iter!(c03_iter_1x3, 1, 3, 8);
h_iter!(c03_iter_3x1, 3, 1, 8);
h_iter!(c03_iter_2x3, 2, 3, 10);
h_iter!(c03_iter_3x2, 3, 2, 10);

// ---------------------------------------------------------------------------------------------- unique
// sorted ascending, no duplicates, same set of values as the operand.
macro_rules! unique_checks {
    ($u:expr, $vals:expr, $n:expr, $what:literal) => {{
        let u = &$u;
        assert!(u.len() >= 1 && u.len() <= $n, concat!($what, ": between 1 and len values"));
        for k in 0..$n {
            if k + 1 < u.len() {
                assert!(u[k] < u[k + 1], concat!($what, ": the result is sorted ascending and free of duplicates"));
            }
        }
        for k in 0..$n {
            if k < u.len() {
                let mut found = false;
                for q in 0..$n {
                    if $vals[q] == u[k] {
                        found = true;
                    }
                }
                assert!(found, concat!($what, ": every value of the result occurs in the operand"));
            }
            let mut found = false;
            for q in 0..$n {
                if q < u.len() && u[q] == $vals[k] {
                    found = true;
                }
            }
            assert!(found, concat!($what, ": every value of the operand occurs in the result"));
        }
    }};
}
macro_rules! h_unique {
    ($name:ident, $r:expr, $c:expr, $unw:expr) => {
        #[kani::proof]
        #[kani::unwind($unw)]
        fn $name() {
            const R: usize = $r;
            const C: usize = $c;
            let vals: [f64; R * C] = pick_n::<{ R * C }>();
            let m: Dm = DenseMatrix::from_array(R, C, &vals);
            let u = BaseMatrix::unique(&m);
            unique_checks!(u, vals, R * C, "unique");
            kani::cover!(u.len() == 1);
            kani::cover!(u.len() == R * C);
        }
    };
}
h_unique!(c03_unique_1x1, 1, 1, 8);
h_unique!(c03_unique_1x3, 1, 3, 10);
h_unique!(c03_unique_2x2, 2, 2, 10);

macro_rules! h_vec_unique {
    ($name:ident, $n:expr, $unw:expr) => {
        #[kani::proof]
        #[kani::unwind($unw)]
        fn $name() {
            const N: usize = $n;
            let vals: [f64; N] = pick_n::<N>();
            let v: Vec<f64> = BaseVector::from_array(&vals);
            let u = BaseVector::unique(&v);
            unique_checks!(u, vals, N, "Vec unique");
            kani::cover!(u.len() == 1);
            kani::cover!(u.len() == N);
        }
    };
}
h_vec_unique!(c03_vec_unique_3, 3, 10);
h_vec_unique!(c03_vec_unique_4, 4, 10);

// ---------------------------------------------------------------------------------------------- column_mean (A-COLUMN-MEAN), structure only
// Row r holds 0.0 or 2^r in every column: the left-fold sum of a column is a small integer whose binary digits say which
// rows were accumulated, all operations are exact, and sum / nrows is known without arithmetic in the harness (nrows = 2).
macro_rules! h_column_mean {
    ($name:ident, $c:expr, $unw:expr) => {
        #[kani::proof]
        #[kani::unwind($unw)]
        fn $name() {
            const R: usize = 2;
            const C: usize = $c;
            let sel: [bool; R * C] = kani::any();
            let mut vals = [0.0f64; R * C];
            for i in 0..R {
                for j in 0..C {
                    vals[i * C + j] = if sel[i * C + j] { if i == 0 { 1.0 } else { 2.0 } } else { 0.0 };
                }
            }
            let m: Dm = DenseMatrix::from_array(R, C, &vals);
            let mu = m.column_mean();
            assert!(mu.len() == C, "column_mean: one mean per column");
            for j in 0..C {
                // (0 + m[0][j] + m[1][j]) / 2 with m[0][j] in {0, 1}, m[1][j] in {0, 2}
                let expect = match (sel[j], sel[C + j]) {
                    (false, false) => 0.0,
                    (true, false) => 0.5,
                    (false, true) => 1.0,
                    (true, true) => 1.5,
                };
                assert!(mu[j] == expect, "column_mean: mean c is the sum of exactly the cells of column c, each once, divided by nrows");
            }
            kani::cover!(mu[0] == 1.5 && mu[C - 1] == 0.5);
        }
    };
}
h_column_mean!(c03_column_mean_2x2, 2, 8);
h_column_mean!(c03_column_mean_2x3, 3, 8);

// ---------------------------------------------------------------------------------------------- ab, paired fallback of the Verus unit dm_matmul
// op(A) is 1 x 2, op(B) is 2 x 2, entries 0.0 / 1.0: cell (0, c) of the product is the NUMBER of i with a(0,i) = b(i,c) = 1.
macro_rules! h_ab {
    ($name:ident, $at:expr, $bt:expr, $unw:expr) => {
        #[kani::proof]
        #[kani::unwind($unw)]
        fn $name() {
            let sa: [bool; 2] = kani::any(); // logical op(A)[0][i]
            let sb: [bool; 4] = kani::any(); // logical op(B)[i][c] at i * 2 + c
            let f = |b: bool| if b { 1.0f64 } else { 0.0f64 };
            let a: Dm = if $at {
                DenseMatrix::from_array(2, 1, &[f(sa[0]), f(sa[1])])
            } else {
                DenseMatrix::from_array(1, 2, &[f(sa[0]), f(sa[1])])
            };
            let b: Dm = if $bt {
                DenseMatrix::from_array(2, 2, &[f(sb[0]), f(sb[2]), f(sb[1]), f(sb[3])])
            } else {
                DenseMatrix::from_array(2, 2, &[f(sb[0]), f(sb[1]), f(sb[2]), f(sb[3])])
            };
            let p = a.ab($at, &b, $bt);
            assert!(p.shape() == (1, 2), "ab: the shape of op(A) * op(B) is (rows of op(A), columns of op(B))");
            for c in 0..2 {
                let mut count = 0u8;
                for i in 0..2 {
                    if sa[i] && sb[i * 2 + c] {
                        count += 1;
                    }
                }
                assert!(p.get(0, c) == count as f64, "ab: cell (r, c) is the sum over i of op(A)(r, i) * op(B)(i, c) for the given transposition flags");
            }
            kani::cover!(p.get(0, 0) == 2.0 && p.get(0, 1) == 0.0);
        }
    };
}
h_ab!(c03_ab_nn_1x2_2x2, false, false, 8);
h_ab!(c03_ab_tn_1x2_2x2, true, false, 8);
h_ab!(c03_ab_nt_1x2_2x2, false, true, 8);
h_ab!(c03_ab_tt_1x2_2x2, true, true, 8);

// matmul with a COLUMN-vector left operand (N x 1 times 1 x 2, an outer product) and a 2 x 2 times 2 x 1 product:
// shapes on which a "vector buffer is already a row" shortcut or a swapped dimension shows; entries 0.0 / 1.0.
macro_rules! h_matmul_shape {
    ($name:ident, $ar:expr, $ac:expr, $bc:expr, $unw:expr) => {
        #[kani::proof]
        #[kani::unwind($unw)]
        fn $name() {
            const AR: usize = $ar;
            const AC: usize = $ac;
            const BC: usize = $bc;
            let sa: [[bool; AC]; AR] = kani::any();
            let sb: [[bool; BC]; AC] = kani::any();
            let f = |b: bool| if b { 1.0f64 } else { 0.0f64 };
            let mut a: Dm = DenseMatrix::zeros(AR, AC);
            let mut b: Dm = DenseMatrix::zeros(AC, BC);
            for r in 0..AR {
                for c in 0..AC {
                    a.set(r, c, f(sa[r][c]));
                }
            }
            for r in 0..AC {
                for c in 0..BC {
                    b.set(r, c, f(sb[r][c]));
                }
            }
            let p = a.matmul(&b);
            assert!(p.shape() == (AR, BC), "matmul: the product of an m x k and a k x n matrix is m x n");
            for r in 0..AR {
                for c in 0..BC {
                    let mut count = 0u8;
                    for i in 0..AC {
                        if sa[r][i] && sb[i][c] {
                            count += 1;
                        }
                    }
                    assert!(p.get(r, c) == count as f64, "matmul: cell (r, c) is the sum over i of A(r, i) * B(i, c)");
                }
            }
            kani::cover!(p.get(AR - 1, BC - 1) == 1.0);
        }
    };
}
h_matmul_shape!(c03_matmul_2x1_1x2, 2, 1, 2, 8);
h_matmul_shape!(c03_matmul_2x2_2x1, 2, 2, 1, 8);
h_matmul_shape!(c03_matmul_3x1_1x1, 3, 1, 1, 8);

// ---------------------------------------------------------------------------------------------- sum / max / min, paired fallback of the Verus unit dm_reduce
macro_rules! h_reduce {
    ($name:ident, $r:expr, $c:expr, $unw:expr) => {
        #[kani::proof]
        #[kani::unwind($unw)]
        fn $name() {
            const R: usize = $r;
            const C: usize = $c;
            let vals: [f64; R * C] = pick_n::<{ R * C }>();
            let m: Dm = DenseMatrix::from_array(R, C, &vals);
            let hi = BaseMatrix::max(&m);
            let lo = BaseMatrix::min(&m);
            let mut hi_in = false;
            let mut lo_in = false;
            for k in 0..R * C {
                assert!(vals[k] <= hi, "max: no cell exceeds the result (all-negative data included)");
                assert!(lo <= vals[k], "min: no cell is below the result (all-positive data included)");
                if vals[k] == hi {
                    hi_in = true;
                }
                if vals[k] == lo {
                    lo_in = true;
                }
            }
            assert!(hi_in, "max: the result is one of the cells");
            assert!(lo_in, "min: the result is one of the cells");
            let sel: [bool; R * C] = kani::any();
            let mut ones = [0.0f64; R * C];
            let mut count = 0u8;
            for k in 0..R * C {
                if sel[k] {
                    ones[k] = 1.0;
                    count += 1;
                }
            }
            let o: Dm = DenseMatrix::from_array(R, C, &ones);
            assert!(BaseMatrix::sum(&o) == count as f64, "sum: every cell is added exactly once");
            kani::cover!(hi < 0.0);
            kani::cover!(lo > 0.0 && count as usize == R * C);
        }
    };
}
h_reduce!(c03_reduce_1x3, 1, 3, 8);
h_reduce!(c03_reduce_2x2, 2, 2, 8);
