use vstd::prelude::*;
use vstd::std_specs::ops::*;
use vstd::std_specs::cmp::{PartialEqSpec};
use std::ops::Div;
verus! {
pub trait RealNumber: Copy + Sized + PartialEq + Div<Output = Self> {
    spec fn from_i64_spec(x: i64) -> Self;
    spec fn from_usize_spec(x: usize) -> Self;
    fn from_i64(x: i64) -> (r: Option<Self>) ensures r == Some(Self::from_i64_spec(x));
    fn from_usize(x: usize) -> (r: Option<Self>) ensures r == Some(Self::from_usize_spec(x));
    // assumption A-OPS-TOTAL: float operators never have a failing precondition
    proof fn ops_total() ensures forall|a: Self, b: Self| #[trigger] a.div_req(b), Self::obeys_eq_spec(), Self::obeys_div_spec();
}
pub trait BaseVector<T: RealNumber> {
    spec fn view(&self) -> Seq<T>;
    fn get(&self, i: usize) -> (r: T) requires i < self.view().len() ensures r == self.view()[i as int];
    fn len(&self) -> (r: usize) ensures r == self.view().len();
}
pub open spec fn count_eq<T: RealNumber>(a: Seq<T>, b: Seq<T>, n: int) -> int
  decreases n
{ if n <= 0 { 0 } else { count_eq(a, b, n - 1) + if a[n-1].eq_spec(&b[n-1]) { 1int } else { 0int } } }

pub struct Accuracy {}
impl Accuracy {
    pub fn get_score<T: RealNumber, V: BaseVector<T>>(&self, y_true: &V, y_pred: &V) -> (r: T) 
      requires y_true.view().len() == y_pred.view().len(), y_true.view().len() <= i64::MAX,
      ensures r == T::from_i64_spec(count_eq(y_true.view(), y_pred.view(), y_true.view().len() as int) as i64).div_spec(T::from_usize_spec(y_true.view().len() as usize))
    {
        proof { T::ops_total(); }
        if y_true.len() != y_pred.len() {
            panic!(
                "The vector sizes don't match: {} != {}",
                y_true.len(),
                y_pred.len()
            );
        }

        let n = y_true.len();

        let mut positive = 0;
        for i in 0..n 
          invariant T::obeys_eq_spec(), n == y_true.view().len(), n == y_pred.view().len(), n <= i64::MAX, positive == count_eq(y_true.view(), y_pred.view(), i as int), 0 <= positive <= i
        {
            if y_true.get(i) == y_pred.get(i) {
                positive += 1;
            }
        }

        T::from_i64(positive).unwrap() / T::from_usize(n).unwrap()
    }
}
}
fn main(){}
