from gate import *
src=strip_test(open('/repo/src/cluster/dbscan.rs').read())
fit=grab_fn(src,'fit',1)
pre='''use vstd::prelude::*;
use vstd::std_specs::iter::*;
use vstd::std_specs::cmp::{PartialOrdSpec,PartialEqSpec};
verus! {
pub trait RealNumber: Copy + Sized + PartialOrd { fn zero() -> Self; }
pub trait BaseMatrix<T: RealNumber>: Sized { fn shape(&self) -> (usize, usize); }
pub trait Matrix<T: RealNumber>: BaseMatrix<T> {}
pub trait Distance<T, F: RealNumber> { fn distance(&self, a: &T, b: &T) -> F; }
pub struct Failed {}
impl Failed { #[verifier::external_body] pub fn fit(msg: &str) -> Self { Failed{} } }
pub enum KNNAlgorithmName { LinearSearch, CoverTree }
pub struct KNNAlgorithm<T: RealNumber, D: Distance<Vec<T>, T>> { d: D, t: Vec<T> }
impl KNNAlgorithmName {
    #[verifier::external_body]
    pub fn fit<T: RealNumber, D: Distance<Vec<T>, T>>(&self, data: Vec<Vec<T>>, distance: D) -> Result<KNNAlgorithm<T, D>, Failed> { unimplemented!() }
}
impl<T: RealNumber, D: Distance<Vec<T>, T>> KNNAlgorithm<T, D> {
    #[verifier::external_body]
    pub fn find_radius(&self, from: &Vec<T>, radius: T) -> Result<Vec<(usize, T, &Vec<T>)>, Failed> { unimplemented!() }
}
// stand-in for crate::linalg::{row_iter, RowIter} and for Iterator::enumerate on it
pub struct RowIter<T> { pub rows: Vec<Vec<T>>, pub pos: usize }
pub struct RowEnum<T> { pub rows: Vec<Vec<T>>, pub pos: usize }
#[verifier::external_body]
pub fn row_iter<F: RealNumber, M: BaseMatrix<F>>(m: &M) -> RowIter<F> { unimplemented!() }
impl<T> RowIter<T> {
    #[verifier::external_body] pub fn enumerate(self) -> RowEnum<T> { unimplemented!() }
    #[verifier::external_body] pub fn collect(self) -> Vec<Vec<T>> { unimplemented!() }
}
impl<T> Iterator for RowEnum<T> {
    type Item = (usize, Vec<T>);
    #[verifier::external_body]
    fn next(&mut self) -> Option<(usize, Vec<T>)> { unimplemented!() }
}
impl<T> IteratorSpecImpl for RowEnum<T> {
    open spec fn obeys_prophetic_iter_laws(&self) -> bool { true }
    open spec fn remaining(&self) -> Seq<(usize, Vec<T>)> { Seq::new((self.rows.len() - self.pos) as nat, |k: int| ((self.pos + k) as usize, self.rows[self.pos + k])) }
    open spec fn will_return_none(&self) -> bool { true }
    open spec fn decrease(&self) -> Option<nat> { Some((self.rows.len() - self.pos) as nat) }
    open spec fn peek(&self, i: int) -> Option<(usize, Vec<T>)> { if 0 <= i < self.rows.len() - self.pos { Some(((self.pos + i) as usize, self.rows[self.pos + i])) } else { None } }
}
pub struct DBSCANParameters<T: RealNumber, D: Distance<Vec<T>, T>> {
    pub distance: D,
    pub min_samples: usize,
    pub eps: T,
    pub algorithm: KNNAlgorithmName,
}
pub struct DBSCAN<T: RealNumber, D: Distance<Vec<T>, T>> {
    cluster_labels: Vec<i16>,
    num_classes: usize,
    knn_algorithm: KNNAlgorithm<T, D>,
    eps: T,
}
impl<T: RealNumber, D: Distance<Vec<T>, T>> DBSCAN<T, D> {
'''+fit+'''
}
}
fn main(){}
'''
open('db_fit.rs','w').write(pre)
