from gate import *
src=strip_test(open('/repo/src/linalg/naive/dense_matrix.rs').read())
# the impl BaseMatrix block
i=src.index('impl<T: RealNumber> BaseMatrix<T> for DenseMatrix<T> {')
e=find_matching(src,src.index('{',i))
block=src[i:e+1]
names=re.findall(r'\n    fn (\w+)',block)
skip={'get_row','get_row_as_vec','copy_row_as_vec','get_col_as_vec','copy_col_as_vec','column_mean','argmax','unique','norm','softmax_mut','rand','pow_mut','norm2','from_row_vector'}
fns=[]
for n in names:
    if n in skip: continue
    fns.append(grab_fn(block,n))
prelude='''use vstd::prelude::*;
use vstd::std_specs::ops::*;
use vstd::std_specs::cmp::{PartialOrdSpec,PartialEqSpec};
use std::ops::{Add,Sub,Mul,Div,AddAssign,SubAssign,MulAssign,DivAssign,Neg,Range};
verus! {
pub trait RealNumber: Copy + Sized + PartialOrd + Add<Output=Self> + Sub<Output=Self> + Mul<Output=Self> + Div<Output=Self> + AddAssign + SubAssign + MulAssign + DivAssign + Neg<Output=Self> {
    fn zero() -> Self;
    fn one() -> Self;
    fn infinity() -> Self;
    fn neg_infinity() -> Self;
    fn abs(self) -> Self;
    fn max(self, other: Self) -> Self;
    fn min(self, other: Self) -> Self;
    fn from(x: usize) -> Option<Self>;
}
pub assume_specification<T: Clone> [ <[T]>::clone_from_slice ] (dst: &mut [T], src: &[T]) requires old(dst)@.len() == src@.len();
pub struct DenseMatrix<T: RealNumber> {
    ncols: usize,
    nrows: usize,
    values: Vec<T>,
}
impl<T: RealNumber> DenseMatrix<T> {
    #[verifier::external_body]
    fn column_mean(&self) -> Vec<T> { unimplemented!() }
    pub fn new(nrows: usize, ncols: usize, values: Vec<T>) -> Self {
        DenseMatrix {
            ncols,
            nrows,
            values,
        }
    }
'''
body='\n'.join(f.replace('Self::RowVector','Vec<T>') for f in fns)
open('dm_all.rs','w').write(prelude+body+'\n}\n}\nfn main(){}\n')
print(len(fns),'functions')
