#[cfg(feature = "ndarray-bindings")]
mod nd {
    use crate::linalg::BaseMatrix;
    use ndarray::Array2;
    #[kani::proof]
    #[kani::unwind(8)]
    fn nd_flatten_after_transpose() {
        let vals: [f64; 6] = kani::any();
        let a: Array2<f64> = BaseMatrix::zeros(2, 3);
        let mut a = a;
        let mut k = 0;
        for r in 0..2 { for c in 0..3 { BaseMatrix::set(&mut a, r, c, vals[k]); k += 1; } }
        let t = BaseMatrix::transpose(&a);
        let v = BaseMatrix::to_row_vector(t);
        assert!(v.len() == 6);
        assert!(v[1].to_bits() == vals[3].to_bits()); // t is 3x2; row-major flatten: t[0][1] = a[1][0]
    }
}
mod tree {
    use crate::linalg::naive::dense_matrix::DenseMatrix;
    use crate::linalg::BaseMatrix;
    use crate::tree::decision_tree_classifier::*;
    use rand::RngCore;
    struct NoRng;
    impl RngCore for NoRng {
        fn next_u32(&mut self) -> u32 { 0 }
        fn next_u64(&mut self) -> u64 { 0 }
        fn fill_bytes(&mut self, d: &mut [u8]) { for b in d.iter_mut() { *b = 0; } }
        fn try_fill_bytes(&mut self, d: &mut [u8]) -> Result<(), rand::Error> { self.fill_bytes(d); Ok(()) }
    }
    #[kani::proof]
    #[kani::unwind(10)]
    fn tree_fit_cost() {
        const N: usize = 3;
        let xs: [u8; N] = kani::any();
        let ys: [bool; N] = kani::any();
        let mut x: DenseMatrix<f64> = DenseMatrix::zeros(N, 1);
        let mut y: Vec<f64> = vec![0.0; N];
        for i in 0..N { kani::assume(xs[i] < 4); x.set(i, 0, xs[i] as f64); y[i] = if ys[i] { 1.0 } else { 0.0 }; }
        kani::assume(ys[0] != ys[1]);
        let t = DecisionTreeClassifier::fit_weak_learner(&x, &y, vec![1; N], 1, Default::default(), &mut NoRng).unwrap();
        let p = t.predict(&x).unwrap();
        assert!(p.len() == N);
    }
}
