use vstd::prelude::*;
use std::cmp::Ordering;
use vstd::std_specs::cmp::{PartialOrdSpec,PartialEqSpec};
verus!{
// trusted-std: core::cmp::Ordering's derived PartialEq is structural equality
#[verifier::external_body]
pub broadcast proof fn axiom_ordering_eq(a: Ordering, b: Ordering)
  ensures #[trigger] a.eq_spec(&b) == (a == b)
{}
#[verifier::external_body]
pub proof fn axiom_ordering_obeys() ensures Ordering::obeys_eq_spec() {}

fn is_less<T: PartialOrd>(a: &T, b: &T) -> (r: bool)
  requires T::obeys_partial_cmp_spec(),
  ensures r == (a.partial_cmp_spec(b) == Some(Ordering::Less))
{
    proof { axiom_ordering_obeys(); }
    broadcast use vstd::laws_eq::group_laws_eq;
    broadcast use axiom_ordering_eq;
    a.partial_cmp(b) == Some(Ordering::Less)
}
}
fn main(){}
