#[cfg(kani)]
mod verif_kani {
    use super::*;
    fn spec_new_idx(j: usize, cat_sizes: &[usize], cat_idxs: &[usize]) -> usize {
        let mut off = 0usize; let mut i = 0;
        while i < cat_idxs.len() { if cat_idxs[i] < j { off += cat_sizes[i] - 1; } i += 1; }
        j + off
    }
    macro_rules! h { ($name:ident, $p:expr, $m:expr) => {
        #[kani::proof]
        #[kani::unwind(7)]
        fn $name() {
            const P: usize = $p; const M: usize = $m;
            let sizes: [usize; M] = kani::any();
            let idxs: [usize; M] = kani::any();
            let mut i = 0; while i < M { kani::assume(sizes[i] >= 1 && sizes[i] <= 3); kani::assume(idxs[i] < P); if i > 0 { kani::assume(idxs[i-1] < idxs[i]); } i += 1; }
            let r = find_new_idxs(P, &sizes, &idxs);
            assert!(r.len() == P);
            let j: usize = kani::any(); kani::assume(j < P);
            assert!(r[j] == spec_new_idx(j, &sizes, &idxs));
            kani::cover!(r[P-1] > P-1);
        }
    }}
    h!(fni_p3_m2, 3, 2);
    h!(fni_p4_m2, 4, 2);
}
