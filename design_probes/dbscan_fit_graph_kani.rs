#[cfg(kani)]
mod verif_kani {
    use super::*;
    use crate::algorithm::neighbour::KNNAlgorithmName;
    use crate::linalg::naive::dense_matrix::DenseMatrix;
    use crate::linalg::BaseMatrix;
    use crate::math::distance::Distance;

    const N: usize = 4;
    #[derive(Clone, Debug)]
    struct GraphDist { adj: [[bool; N]; N] }
    impl Distance<Vec<f64>, f64> for GraphDist {
        fn distance(&self, a: &Vec<f64>, b: &Vec<f64>) -> f64 {
            let i = a[0] as usize; let j = b[0] as usize;
            if i == j { 0.0 } else if self.adj[i][j] { 0.5 } else { 2.0 }
        }
    }

    fn stub_ct_new<T: std::fmt::Debug + PartialEq, F: crate::math::num::RealNumber, D: Distance<T, F>>(_data: Vec<T>, _distance: D) -> Result<crate::algorithm::neighbour::cover_tree::CoverTree<T, F, D>, Failed> { kani::assume(false); loop {} }

    fn stub_ct_fr<'a, T: std::fmt::Debug + PartialEq, F: crate::math::num::RealNumber, D: Distance<T, F>>(_s: &'a crate::algorithm::neighbour::cover_tree::CoverTree<T, F, D>, _p: &T, _radius: F) -> Result<Vec<(usize, F, &'a T)>, Failed> { kani::assume(false); loop {} }
    #[kani::proof]
    #[kani::stub(crate::algorithm::neighbour::cover_tree::CoverTree::find_radius, stub_ct_fr)]
    #[kani::stub(crate::algorithm::neighbour::cover_tree::CoverTree::new, stub_ct_new)]
    #[kani::unwind(7)]
    fn dbscan_fit_graph4() {
        let mut adj = [[false; N]; N];
        let edges = [(0usize,1usize),(1,2)]; for (i,j) in edges { adj[i][j] = true; adj[j][i] = true; }
        let min_samples: usize = 3;
        let mut x: DenseMatrix<f64> = DenseMatrix::zeros(N, 1);
        for i in 0..N { x.set(i, 0, i as f64); }
        let params = DBSCANParameters { distance: GraphDist { adj }, min_samples, eps: 1.0, algorithm: KNNAlgorithmName::LinearSearch };
        let m = DBSCAN::fit(&x, params).unwrap();
        let y = &m.cluster_labels;
        // core points
        let mut core = [false; N];
        for i in 0..N { let mut c = 1; for j in 0..N { if j != i && adj[i][j] { c += 1; } } core[i] = c >= min_samples; }
        for i in 0..N {
            if core[i] { assert!(y[i] >= 0); }
            for j in 0..N { if core[i] && core[j] && adj[i][j] { assert!(y[i] == y[j]); } }
            if !core[i] {
                let mut has = false; let mut ok = false;
                for j in 0..N { if adj[i][j] && core[j] { has = true; if y[j] == y[i] { ok = true; } } }
                if has { assert!(ok); } else { assert!(y[i] == -1); }
            }
            assert!((y[i] as i64) < m.num_classes as i64);
        }
        kani::cover!(m.num_classes == 1);
    }
}
