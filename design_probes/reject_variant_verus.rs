use vstd::prelude::*;
verus!{
#[verifier::external_body]
fn verif_reject() -> ! 
  ensures false
{ panic!() }

fn dot_len(a: &Vec<u64>, b: &Vec<u64>) -> (r: usize)
  requires a.len() != b.len()
  ensures false
{
    if a.len() != b.len() {
        verif_reject();
    }
    a.len()
}
}
fn main(){}
