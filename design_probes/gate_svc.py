from gate import *
src=strip_test(open('/repo/src/svm/svc.rs').read())
i=src.index("impl<'a, T: RealNumber, M: Matrix<T>, K: Kernel<T, M::RowVector>> Optimizer<'a, T, M, K> {"); e=find_matching(src,src.index('{',i))
block=src[i:e+1]
block=block.replace(grab_fn(block,'optimize'),'')
for n in ['clean','permutate','select_pair']:
    f=grab_fn(block,n)
    sig=f[:f.index('{')]
    block=block.replace(f,'    #[verifier::external_body]\n'+sig+'{ unimplemented!() }')
block=block.replace('    fn optimize(mut self)','    #[verifier::exec_allows_no_decreases_clause]\n    fn optimize(mut self)')
i=src.index("impl<T: RealNumber, V: BaseVector<T>> SupportVector<T, V> {"); e=find_matching(src,src.index('{',i))
svblock=src[i:e+1]
def grab_struct(name):
    m=re.search(r'\nstruct '+name+r'\b',src)
    i=m.start()+1; e=find_matching(src,src.index('{',i)); return src[i:e+1]
structs='\n'.join(grab_struct(n) for n in ['SupportVector','Optimizer'])
params=re.search(r'pub struct SVCParameters',src)
pi=params.start(); pe=find_matching(src,src.index('{',pi)); pstruct=re.sub(r'\n\s*///[^\n]*','',src[pi:pe+1])
prelude='''use vstd::prelude::*;
use std::marker::PhantomData;
use vstd::std_specs::ops::*;
use vstd::std_specs::cmp::{PartialOrdSpec,PartialEqSpec};
use std::ops::{Add,Sub,Mul,Div,AddAssign,SubAssign,MulAssign,DivAssign,Neg,Range};
verus! {
pub trait RealNumber: Copy + Sized + PartialOrd + std::fmt::Display + std::fmt::Debug + Add<Output=Self> + Sub<Output=Self> + Mul<Output=Self> + Div<Output=Self> + AddAssign + SubAssign + MulAssign + DivAssign + Neg<Output=Self> {
    fn zero() -> Self; fn one() -> Self; fn two() -> Self;
    fn max_value() -> Self; fn min_value() -> Self;
    fn from_f64(x: f64) -> Option<Self>; fn from_i32(x: i32) -> Option<Self>;
}
pub trait BaseVector<T: RealNumber>: Sized { fn get(&self, i: usize) -> T; fn len(&self) -> usize; }
pub trait BaseMatrix<T: RealNumber>: Sized { type RowVector: BaseVector<T>; fn shape(&self) -> (usize, usize); fn get_row(&self, r: usize) -> Self::RowVector; }
pub trait Matrix<T: RealNumber>: BaseMatrix<T> {}
pub trait Kernel<T: RealNumber, V: BaseVector<T>> { fn apply(&self, x_i: &V, x_j: &V) -> T; }
'''+pstruct+'''
pub struct Cache<'a, T: RealNumber, M: Matrix<T>, K: Kernel<T, M::RowVector>> { kernel: &'a K, phantom: PhantomData<M>, t: PhantomData<T> }
impl<'a, T: RealNumber, M: Matrix<T>, K: Kernel<T, M::RowVector>> Cache<'a, T, M, K> {
    #[verifier::external_body] fn new(kernel: &'a K) -> Cache<'a, T, M, K> { unimplemented!() }
    #[verifier::external_body] fn get(&mut self, i: &SupportVector<T, M::RowVector>, j: &SupportVector<T, M::RowVector>) -> T { unimplemented!() }
    #[verifier::external_body] fn insert(&mut self, key: (usize, usize), value: T) { unimplemented!() }
}
'''+structs+'\n'+svblock+'\n'+block+'''
}
fn main(){}
'''
open('svc_all.rs','w').write(prelude)
