import re,sys,subprocess
def find_matching(src,i):
    d=0;k=i;n=len(src)
    while k<n:
        c=src[k]
        if c=='"':
            k+=1
            while src[k]!='"':
                if src[k]=='\\': k+=1
                k+=1
        elif c=="'" :
            # char literal or lifetime
            m=re.match(r"'(\\.|[^'\\])'",src[k:])
            if m: k+=m.end()-1
        elif src.startswith('//',k):
            k=src.index('\n',k)
        elif c=='{': d+=1
        elif c=='}':
            d-=1
            if d==0: return k
        k+=1
    raise Exception('unbalanced')
def grab_fn(src,name,occurrence=0):
    ms=[m for m in re.finditer(r'\n([ \t]*)(pub(\([a-z ]+\))? )?fn '+re.escape(name)+r'\b',src)]
    m=ms[occurrence]
    i=m.start()+1
    # body start: first '{' at depth 0 of parens/angle after signature
    k=m.end(); depth=0
    while True:
        c=src[k]
        if c in '([': depth+=1
        elif c in ')]': depth-=1
        elif c=='{' and depth==0: break
        elif c==';' and depth==0: return src[i:k+1]
        k+=1
    e=find_matching(src,k)
    return src[i:e+1]
def strip_test(src): return src.split('#[cfg(test)]\nmod tests')[0]
