use vstd::prelude::*;
use vstd::std_specs::ops::*;
use std::ops::{Mul, AddAssign};
verus! {
pub trait RealNumber: Copy + Sized + Mul<Output = Self> + AddAssign {
    proof fn ops_total() ensures forall|a: Self, b: Self| #[trigger] a.mul_req(b), forall|a: Self, b: Self| #[trigger] a.add_assign_req(b), Self::obeys_mul_spec(), Self::obeys_add_assign_spec();
    spec fn zero_spec() -> Self;
    fn zero() -> (r: Self) ensures r == Self::zero_spec();
}
pub struct DenseMatrix<T: RealNumber> {
    ncols: usize,
    nrows: usize,
    values: Vec<T>,
}
proof fn lemma_idx(r: int, c: int, nr: int, nc: int)
    requires 0 <= r < nr, 0 <= c < nc
    ensures 0 <= c * nr + r < nr * nc
{
    assert(c * nr + r < nr * nc) by(nonlinear_arith) requires 0 <= r < nr, 0 <= c < nc;
    assert(0 <= c * nr) by(nonlinear_arith) requires 0 <= c, 0 <= nr;
}
proof fn lemma_idx_inj(r: int, c: int, r2: int, c2: int, nr: int)
    requires 0 <= r < nr, 0 <= r2 < nr, 0 <= c, 0 <= c2, c * nr + r == c2 * nr + r2
    ensures r == r2, c == c2
{
    assert(c == c2) by(nonlinear_arith) requires 0 <= r < nr, 0 <= r2 < nr, 0 <= c, 0 <= c2, c * nr + r == c2 * nr + r2;
}
impl<T: RealNumber> DenseMatrix<T> {
    spec fn wf(&self) -> bool { self.values.len() == self.nrows * self.ncols }
    spec fn at(&self, r: int, c: int) -> T { self.values[c * self.nrows + r] }

    fn get(&self, row: usize, col: usize) -> (r: T) 
        requires self.wf(), row < self.nrows, col < self.ncols,
        ensures r == self.at(row as int, col as int)
    {
        proof { lemma_idx(row as int, col as int, self.nrows as int, self.ncols as int); }
        if row >= self.nrows || col >= self.ncols {
            panic!(
                "Invalid index ({},{}) for {}x{} matrix",
                row, col, self.nrows, self.ncols
            );
        }
        self.values[col * self.nrows + row]
    }

    fn set(&mut self, row: usize, col: usize, x: T) 
        requires old(self).wf(), row < old(self).nrows, col < old(self).ncols,
        ensures final(self).wf(), final(self).nrows == old(self).nrows, final(self).ncols == old(self).ncols,
           final(self).at(row as int, col as int) == x,
           forall|r:int, c:int| 0<=r<old(self).nrows && 0<=c<old(self).ncols && !(r == row && c == col) ==> final(self).at(r, c) == old(self).at(r, c)
    {
        proof { lemma_idx(row as int, col as int, self.nrows as int, self.ncols as int); 
        }
        let ghost pre = *self;
        self.values[col * self.nrows + row] = x;
        proof {
          assert forall|r:int, c:int| 0<=r<pre.nrows && 0<=c<pre.ncols && !(r == row && c == col) implies #[trigger] self.at(r, c) == pre.at(r, c) by {
             if c * pre.nrows + r == col * pre.nrows + row { lemma_idx_inj(r, c, row as int, col as int, pre.nrows as int); }
             lemma_idx(r, c, pre.nrows as int, pre.ncols as int);
          }
        }
    }


    fn new(nrows: usize, ncols: usize, values: Vec<T>) -> (m: Self) 
        ensures m.nrows == nrows, m.ncols == ncols, m.values == values
    {
        DenseMatrix {
            ncols,
            nrows,
            values,
        }
    }

    fn fill(nrows: usize, ncols: usize, value: T) -> (m: Self) 
        requires nrows * ncols <= usize::MAX,
        ensures m.wf(), m.nrows == nrows, m.ncols == ncols, forall|r:int,c:int| 0<=r<nrows && 0<=c<ncols ==> #[trigger] m.at(r,c) == value
    {
        proof { assert(ncols * nrows == nrows * ncols) by(nonlinear_arith); }
        let m = DenseMatrix::new(nrows, ncols, vec![value; ncols * nrows]);
        proof { assert forall|r:int,c:int| 0<=r<nrows && 0<=c<ncols implies #[trigger] m.at(r,c) == value by { lemma_idx(r,c,nrows as int,ncols as int); assert(ncols * nrows == nrows * ncols) by(nonlinear_arith); } }
        m
    }

    fn zeros(nrows: usize, ncols: usize) -> (m: Self) 
        requires nrows * ncols <= usize::MAX,
        ensures m.wf(), m.nrows == nrows, m.ncols == ncols, forall|r:int,c:int| 0<=r<nrows && 0<=c<ncols ==> m.at(r,c) == T::zero_spec()
    {
        DenseMatrix::fill(nrows, ncols, T::zero())
    }

    spec fn dot_rc(&self, other: &Self, r: int, c: int, n: int) -> T 
        decreases n
    { if n <= 0 { T::zero_spec() } else { *self.dot_rc(other, r, c, n-1).add_assign_spec(self.at(r, n-1).mul_spec(other.at(n-1, c))) } }

    fn matmul(&self, other: &Self) -> (result: Self) 
        requires self.wf(), other.wf(), self.ncols == other.nrows, self.nrows * other.ncols <= usize::MAX,
        ensures result.wf(), result.nrows == self.nrows, result.ncols == other.ncols,
            forall|r:int,c:int| 0<=r<self.nrows && 0<=c<other.ncols ==> result.at(r,c) == self.dot_rc(other, r, c, self.ncols as int)
    {
        proof { T::ops_total(); }
        if self.ncols != other.nrows {
            panic!("Number of rows of A should equal number of columns of B");
        }
        let inner_d = self.ncols;
        let mut result = Self::zeros(self.nrows, other.ncols);

        for r in 0..self.nrows 
            invariant forall|a: T, b: T| #[trigger] a.mul_req(b), forall|a: T, b: T| #[trigger] a.add_assign_req(b), T::obeys_mul_spec(), T::obeys_add_assign_spec(), self.wf(), other.wf(), self.ncols == other.nrows, inner_d == self.ncols,
               result.wf(), result.nrows == self.nrows, result.ncols == other.ncols,
               forall|r2:int,c2:int| 0<=r2<r && 0<=c2<other.ncols ==> result.at(r2,c2) == self.dot_rc(other, r2, c2, self.ncols as int)
        {
            for c in 0..other.ncols 
              invariant forall|a: T, b: T| #[trigger] a.mul_req(b), forall|a: T, b: T| #[trigger] a.add_assign_req(b), T::obeys_mul_spec(), T::obeys_add_assign_spec(), self.wf(), other.wf(), self.ncols == other.nrows, inner_d == self.ncols, r < self.nrows,
                result.wf(), result.nrows == self.nrows, result.ncols == other.ncols,
                forall|r2:int,c2:int| 0<=r2<r && 0<=c2<other.ncols ==> result.at(r2,c2) == self.dot_rc(other, r2, c2, self.ncols as int),
                forall|c2:int| 0<=c2<c ==> result.at(r as int,c2) == self.dot_rc(other, r as int, c2, self.ncols as int)
            {
                let mut s = T::zero();
                for i in 0..inner_d 
                  invariant self.wf(), other.wf(), self.ncols == other.nrows, inner_d == self.ncols, r < self.nrows, c < other.ncols,
                    s == self.dot_rc(other, r as int, c as int, i as int),
                    forall|a: T, b: T| #[trigger] a.mul_req(b), forall|a: T, b: T| #[trigger] a.add_assign_req(b), T::obeys_mul_spec(), T::obeys_add_assign_spec()
                {
                    s += self.get(r, i) * other.get(i, c);
                }
                result.set(r, c, s);
            }
        }

        result
    }

    fn transpose(&self) -> (m: Self) 
        requires self.wf(),
        ensures m.wf(), m.nrows == self.ncols, m.ncols == self.nrows,
           forall|r:int, c:int| 0<=r<self.nrows && 0<=c<self.ncols ==> m.at(c, r) == self.at(r, c)
    {
        let mut m = DenseMatrix {
            ncols: self.nrows,
            nrows: self.ncols,
            values: vec![T::zero(); self.ncols * self.nrows],
        };
        proof { assert(self.ncols * self.nrows == self.nrows * self.ncols) by(nonlinear_arith); }
        for c in 0..self.ncols 
            invariant self.wf(), m.wf(), m.nrows == self.ncols, m.ncols == self.nrows,
              forall|r:int, c2:int| 0<=r<self.nrows && 0<=c2<c ==> m.at(c2, r) == self.at(r, c2)
        {
            for r in 0..self.nrows 
              invariant self.wf(), m.wf(), m.nrows == self.ncols, m.ncols == self.nrows, c < self.ncols,
                forall|r2:int, c2:int| 0<=r2<self.nrows && 0<=c2<c ==> m.at(c2, r2) == self.at(r2, c2),
                forall|r2:int| 0<=r2<r ==> m.at(c as int, r2) == self.at(r2, c as int)
            {
                m.set(c, r, self.get(r, c));
            }
        }
        m
    }
}
}
fn main() {}
