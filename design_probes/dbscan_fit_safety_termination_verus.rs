use vstd::prelude::*;
use vstd::std_specs::iter::*;
use vstd::std_specs::cmp::{PartialOrdSpec,PartialEqSpec};
verus! {
pub trait RealNumber: Copy + Sized + PartialOrd { fn zero() -> Self; }
pub trait BaseMatrix<T: RealNumber>: Sized { spec fn nrows(&self) -> usize; fn shape(&self) -> (r: (usize, usize)) ensures r.0 == self.nrows(); }
pub trait Matrix<T: RealNumber>: BaseMatrix<T> {}
pub trait Distance<T, F: RealNumber> { fn distance(&self, a: &T, b: &T) -> F; }
#[derive(Debug)]
pub struct Failed {}
impl Failed { #[verifier::external_body] pub fn fit(msg: &str) -> Self { Failed{} } }
pub enum KNNAlgorithmName { LinearSearch, CoverTree }
pub struct KNNAlgorithm<T: RealNumber, D: Distance<Vec<T>, T>> { pub d: D, pub t: Vec<T>, pub n: Ghost<nat> }
impl KNNAlgorithmName {
    #[verifier::external_body]
    pub fn fit<T: RealNumber, D: Distance<Vec<T>, T>>(&self, data: Vec<Vec<T>>, distance: D) -> (r: Result<KNNAlgorithm<T, D>, Failed>) ensures r is Ok ==> r.unwrap().n@ == data.len() { unimplemented!() }
}
impl<T: RealNumber, D: Distance<Vec<T>, T>> KNNAlgorithm<T, D> {
    #[verifier::external_body]
    pub fn find_radius(&self, from: &Vec<T>, radius: T) -> (r: Result<Vec<(usize, T, &Vec<T>)>, Failed>) ensures r is Ok ==> forall|q:int| 0<=q<r.unwrap().len() ==> (#[trigger] r.unwrap()[q]).0 < self.n@ { unimplemented!() }
}
// stand-in for crate::linalg::{row_iter, RowIter} and for Iterator::enumerate on it
pub struct RowIter<T> { pub rows: Vec<Vec<T>>, pub pos: usize }
pub struct RowEnum<T> { pub rows: Vec<Vec<T>>, pub pos: usize }
#[verifier::external_body]
pub fn row_iter<F: RealNumber, M: BaseMatrix<F>>(m: &M) -> (r: RowIter<F>) ensures r.rows.len() == m.nrows(), r.pos == 0 { unimplemented!() }
impl<T> RowIter<T> {
    #[verifier::external_body] pub fn enumerate(self) -> (r: RowEnum<T>) ensures r.rows == self.rows, r.pos == self.pos { unimplemented!() }
    #[verifier::external_body] pub fn collect(self) -> (r: Vec<Vec<T>>) requires self.pos == 0 ensures r == self.rows { unimplemented!() }
}
impl<T> Iterator for RowEnum<T> {
    type Item = (usize, Vec<T>);
    #[verifier::external_body]
    fn next(&mut self) -> Option<(usize, Vec<T>)> { unimplemented!() }
}
impl<T> IteratorSpecImpl for RowEnum<T> {
    open spec fn obeys_prophetic_iter_laws(&self) -> bool { true }
    open spec fn remaining(&self) -> Seq<(usize, Vec<T>)> { Seq::new((self.rows.len() - self.pos) as nat, |k: int| ((self.pos + k) as usize, self.rows[self.pos + k])) }
    open spec fn will_return_none(&self) -> bool { true }
    open spec fn decrease(&self) -> Option<nat> { Some((self.rows.len() - self.pos) as nat) }
    open spec fn peek(&self, i: int) -> Option<(usize, Vec<T>)> { if 0 <= i < self.rows.len() - self.pos { Some(((self.pos + i) as usize, self.rows[self.pos + i])) } else { None } }
}
pub open spec fn unlabelled(y: Seq<i16>, n: int) -> int decreases n { if n <= 0 { 0 } else { unlabelled(y, n-1) + if y[n-1] < 0 { 1int } else { 0int } } }
proof fn lemma_unl_bound(y: Seq<i16>, n: int) requires 0 <= n <= y.len() ensures 0 <= unlabelled(y, n) <= n decreases n { if n > 0 { lemma_unl_bound(y, n-1); } }
proof fn lemma_unl_update(y: Seq<i16>, idx: int, v: i16, n: int)
    requires 0 <= idx < y.len(), 0 <= n <= y.len()
    ensures unlabelled(y.update(idx, v), n) == unlabelled(y, n) + (if idx < n { (if v < 0 {1int} else {0int}) - (if y[idx] < 0 {1int} else {0int}) } else { 0int })
    decreases n
{ if n > 0 { lemma_unl_update(y, idx, v, n-1); } }
pub struct DBSCANParameters<T: RealNumber, D: Distance<Vec<T>, T>> {
    pub distance: D,
    pub min_samples: usize,
    pub eps: T,
    pub algorithm: KNNAlgorithmName,
}
pub struct DBSCAN<T: RealNumber, D: Distance<Vec<T>, T>> {
    cluster_labels: Vec<i16>,
    num_classes: usize,
    knn_algorithm: KNNAlgorithm<T, D>,
    eps: T,
}
impl<T: RealNumber, D: Distance<Vec<T>, T>> DBSCAN<T, D> {
    fn fit<M: Matrix<T>>(
        x: &M,
        parameters: DBSCANParameters<T, D>,
    ) -> (res: Result<DBSCAN<T, D>, Failed>) 
        requires x.nrows() < i16::MAX,
        ensures res is Ok ==> res.unwrap().cluster_labels.len() == x.nrows()
            && 0 <= res.unwrap().num_classes <= x.nrows()
            && forall|q:int| 0<=q<x.nrows() ==> -1 <= #[trigger] res.unwrap().cluster_labels[q] < res.unwrap().num_classes
    {
        if parameters.min_samples < 1 {
            return Err(Failed::fit("Invalid minPts"));
        }

        if parameters.eps <= T::zero() {
            return Err(Failed::fit("Invalid radius: "));
        }

        let mut k = 0;
        let ghost it0 = RowEnum::<T> { rows: arbitrary(), pos: 0 };
        let queued = -2;
        let outlier = -1;
        let undefined = -3;

        let n = x.shape().0;
        let mut y = vec![undefined; n];

        let algo = parameters
            .algorithm
            .fit(row_iter(x).collect(), parameters.distance)?;

        for (i, e) in wi: row_iter(x).enumerate() 
            invariant n == x.nrows(), n < i16::MAX, y.len() == n, algo.n@ == n, wi.seq().len() == n, wi.index@ <= n,
               forall|q:int| 0<=q<n ==> (#[trigger] wi.seq()[q]).0 == q,
               0 <= k <= wi.index@, queued == -2, outlier == -1, undefined == -3,
               forall|q:int| 0<=q<n ==> (#[trigger] y[q] == -3 || y[q] == -1 || 0 <= y[q] < k),
               forall|q:int| 0<=q<wi.index@ ==> #[trigger] y[q] != -3,
        {
            if y[i] == undefined {
                let mut neighbors = algo.find_radius(&e, parameters.eps)?;
                if neighbors.len() < parameters.min_samples {
                    y[i] = outlier;
                } else {
                    y[i] = k;

                    for j in 0..neighbors.len() 
                        invariant y.len() == n, algo.n@ == n, i < n, 0 <= k < n, n < i16::MAX, queued == -2, undefined == -3, outlier == -1,
                          forall|q:int| 0<=q<neighbors.len() ==> (#[trigger] neighbors[q]).0 < n,
                          forall|q:int| 0<=q<n ==> (#[trigger] y[q] == -3 || y[q] == -2 || y[q] == -1 || 0 <= y[q] <= k),
                          forall|q:int| 0<=q<i ==> #[trigger] y[q] != -3, y[i as int] == k,
                    {
                        if y[neighbors[j].0] == undefined {
                            y[neighbors[j].0] = queued;
                        }
                    }

                    while !neighbors.is_empty() 
                        invariant y.len() == n, algo.n@ == n, i < n, 0 <= k < n, n < i16::MAX, queued == -2, undefined == -3, outlier == -1,
                          forall|q:int| 0<=q<neighbors.len() ==> (#[trigger] neighbors[q]).0 < n,
                          forall|q:int| 0<=q<n ==> (#[trigger] y[q] == -3 || y[q] == -2 || y[q] == -1 || 0 <= y[q] <= k),
                          forall|q:int| 0<=q<i ==> #[trigger] y[q] != -3, y[i as int] == k,
                        decreases unlabelled(y@, n as int), neighbors.len()
                    {
                        proof { lemma_unl_bound(y@, n as int); }
                        let ghost y_pre = y@;
                        let neighbor = neighbors.pop().unwrap();
                        let index = neighbor.0;

                        if y[index] == outlier {
                            y[index] = k;
                            proof { lemma_unl_update(y_pre, index as int, k, n as int); }
                        }
                        let ghost y_mid = y@;

                        if y[index] == undefined || y[index] == queued {
                            y[index] = k;
                            proof { lemma_unl_update(y_mid, index as int, k, n as int); }
                            let ghost y_k = y@;

                            let secondary_neighbors =
                                algo.find_radius(neighbor.2, parameters.eps)?;

                            if secondary_neighbors.len() >= parameters.min_samples {
                                for j in 0..secondary_neighbors.len() 
                                    invariant y.len() == n, algo.n@ == n, i < n, 0 <= k < n, n < i16::MAX, queued == -2, undefined == -3, outlier == -1,
                                      forall|q:int| 0<=q<neighbors.len() ==> (#[trigger] neighbors[q]).0 < n,
                                      forall|q:int| 0<=q<secondary_neighbors.len() ==> (#[trigger] secondary_neighbors[q]).0 < n,
                                      forall|q:int| 0<=q<n ==> (#[trigger] y[q] == -3 || y[q] == -2 || y[q] == -1 || 0 <= y[q] <= k),
                                      forall|q:int| 0<=q<i ==> #[trigger] y[q] != -3, y[i as int] == k,
                                      unlabelled(y@, n as int) == unlabelled(y_k, n as int),
                                {
                                    let ghost y_b = y@;
                                    let label = y[secondary_neighbors[j].0];
                                    if label == undefined {
                                        y[secondary_neighbors[j].0] = queued;
                                        proof { lemma_unl_update(y_b, secondary_neighbors[j as int].0 as int, -2i16, n as int); }
                                    }

                                    if label == undefined || label == outlier {
                                        neighbors.push(secondary_neighbors[j]);
                                    }
                                }
                            }
                        }
                        proof {
                            lemma_unl_bound(y@, n as int);
                            if y_pre[index as int] >= 0 { assert(y@ == y_pre); }
                            else { assert(unlabelled(y@, n as int) < unlabelled(y_pre, n as int)); }
                        }
                    }

                    k += 1;
                }
            }
        }

        Ok(DBSCAN {
            cluster_labels: y,
            num_classes: k as usize,
            knn_algorithm: algo,
            eps: parameters.eps,
        })
    }
}
}
fn main(){}
