use vstd::prelude::*;
use vstd::std_specs::iter::*;
verus!{
// prelude stand-in for `row_iter(x).enumerate()`: yields (i, row_i) for i in 0..n
pub struct RowEnum { pub n: usize, pub pos: usize }
pub uninterp spec fn row_of(i: int) -> u64;
impl Iterator for RowEnum {
    type Item = (usize, u64);
    #[verifier::external_body]
    fn next(&mut self) -> Option<(usize, u64)> { unimplemented!() }
}
impl IteratorSpecImpl for RowEnum {
    open spec fn obeys_prophetic_iter_laws(&self) -> bool { true }
    open spec fn remaining(&self) -> Seq<(usize, u64)> { Seq::new((self.n - self.pos) as nat, |k: int| ((self.pos + k) as usize, row_of(self.pos + k))) }
    open spec fn will_return_none(&self) -> bool { true }
    open spec fn decrease(&self) -> Option<nat> { Some((self.n - self.pos) as nat) }
    open spec fn peek(&self, i: int) -> Option<(usize, u64)> { if 0 <= i < self.n - self.pos { Some(((self.pos + i) as usize, row_of(self.pos + i))) } else { None } }
}
fn f(n: usize) -> (c: usize) 
  ensures c == n
{
    let it = RowEnum { n, pos: 0 };
    let mut c: usize = 0;
    for (i, e) in wi: it 
      invariant c == wi.index@, wi.index@ <= n, wi.seq() == IteratorSpec::remaining(&(RowEnum { n, pos: 0 }))
    { 
        assert(i == c);
        c = c + 1; 
    }
    c
}
}
fn main(){}
