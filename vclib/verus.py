"""Run Verus on a rendered unit, classify the outcome, name the failed obligations."""
import json
import os
import re
import subprocess
import time

VERIFICATION_FAILURES = (
    'postcondition not satisfied',
    'precondition not satisfied',
    'invariant not satisfied',
    'assertion failed',
    'possible arithmetic underflow/overflow',
    'possible division by zero',
    'possible bit shift underflow/overflow',
    'decreases not satisfied',
    'could not prove termination',
    'loop invariant not preserved',
    'assert_by_compute',
    'unable to prove assertion safely',
    'unreachable',            # "unreachable code reached"? kept conservative: see classify()
    'cannot show invariant holds',
    'failed precondition',
    'index out of bounds',
    'may fail',
    'possible',
    'call to panic',
)
INCONCLUSIVE_MARKERS = ('rlimit', 'resource limit', 'timed out', 'time limit', 'not supported', 'unsupported',
                        'internal error', 'panicked')


class UnitResult:
    def __init__(self):
        self.status = None          # 'pass' | 'violation' | 'inconclusive'
        self.verified = 0
        self.errors = 0
        self.failed = []            # [dict(obligation, message, gen_line, origin, fn, rendered)]
        self.reason = ''
        self.smt_ms = 0
        self.total_ms = 0
        self.fn_times = []
        self.fn_success = {}
        self.cmd = ''
        self.stderr_tail = ''
        self.wall_s = 0.0


def run_verus(gen_path, rlimit=30, threads=2, extra=(), timeout=900):
    cmd = ['verus', gen_path, '--output-json', '--time', '--multiple-errors', '5', '--rlimit', str(rlimit),
           '--num-threads', str(threads)] + list(extra) + ['--', '--error-format=json']
    t0 = time.time()
    try:
        p = subprocess.run(cmd, stdout=subprocess.PIPE, stderr=subprocess.PIPE, timeout=timeout,
                           cwd=os.path.dirname(gen_path), universal_newlines=True)
        rc, out, err = p.returncode, p.stdout, p.stderr
    except subprocess.TimeoutExpired as e:
        rc, out, err = 124, '', 'verus timed out after %ds' % timeout
    return cmd, rc, out, err, time.time() - t0


def parse(cmd, rc, out, err, wall, R, gen_name):
    U = UnitResult()
    U.cmd = ' '.join(cmd)
    U.wall_s = wall
    diags = []
    for l in err.split('\n'):
        l = l.strip()
        if l.startswith('{') and '"$message_type"' in l:
            try:
                diags.append(json.loads(l))
            except ValueError:
                pass
    U.stderr_tail = '\n'.join([d.get('rendered') or d.get('message', '') for d in diags if d.get('level') == 'error'][:8]) or err[-2000:]
    try:
        J = json.loads(out) if out.strip() else None
    except ValueError:
        J = None
    if J is None:
        U.status = 'inconclusive'
        U.reason = 'verus produced no JSON result (rc=%s): %s' % (rc, (err or '')[-400:])
        return U
    vr = J.get('verification-results', {})
    U.verified = vr.get('verified', 0)
    U.errors = vr.get('errors', 0)
    tm = J.get('times-ms', {})
    U.total_ms = tm.get('total', 0)
    smt = tm.get('smt', {})
    U.smt_ms = smt.get('total', 0)
    for mod in smt.get('smt-run-module-times', []):
        for fb in mod.get('function-breakdown', []):
            U.fn_times.append((fb['function'], fb.get('time', 0), fb.get('rlimit', 0), fb.get('success', True)))
            U.fn_success[fb['function']] = U.fn_success.get(fb['function'], True) and fb.get('success', True)
    errs = [d for d in diags if d.get('level') == 'error' and not d.get('message', '').startswith('aborting due to')]
    if vr.get('success') and rc == 0 and not errs:
        U.status = 'pass'
        return U
    if vr.get('encountered-vir-error') or ('verified' not in vr):
        U.status = 'inconclusive'
        U.reason = 'verus front-end error (construct outside the subset, or the spec no longer type-checks against the code): ' + \
                   '; '.join(d.get('message', '') for d in errs[:3])
        for d in errs[:6]:
            U.failed.append(dict(kind='inconclusive', message=d.get('message', ''), gen_line=0, origin=('?',), fn=None,
                                 obligation=None, rendered=d.get('rendered', '')))
        return U
    if not errs:
        U.status = 'inconclusive'
        U.reason = 'verus failed without diagnostics (rc=%s)' % rc
        return U
    # classify each error
    for d in errs:
        msg = d.get('message', '')
        low = msg.lower()
        prim = None
        for s in d.get('spans', []):
            if s.get('is_primary'):
                prim = s
                break
        gl = prim['line_start'] if prim else 0
        origin = R.origin[gl - 1] if 0 < gl <= len(R.origin) else ('?',)
        fn = None
        # the function the error belongs to: any span inside a fn range
        spans_sorted = sorted(d.get('spans', []), key=lambda sp: 0 if sp.get('is_primary') else 1)
        for s in spans_sorted:
            if os.path.basename(s.get('file_name', '')) != gen_name:
                continue
            for fr in R.fn_ranges:
                if fr['start'] <= s['line_start'] <= fr['end']:
                    fn = fr
                    break
            if fn:
                break
        label = _label(R, gl, prim['line_end'] if prim else gl)
        if any(m in low for m in INCONCLUSIVE_MARKERS):
            U.failed.append(dict(kind='inconclusive', message=msg, gen_line=gl, origin=origin, fn=fn['name'] if fn else None,
                                 obligation=None, rendered=d.get('rendered', '')))
            continue
        if prim is None or os.path.basename(prim.get('file_name', '')) != gen_name:
            # e.g. an inherited trait-level `ensures` of vstd (PartialOrd::partial_cmp): the clause lives in vstd, the
            # function that fails it lives in the generated file -> use the first span inside the generated file
            alt = [sp for sp in d.get('spans', []) if os.path.basename(sp.get('file_name', '')) == gen_name]
            if not alt or _kindword(low) is None:
                U.failed.append(dict(kind='inconclusive', message=msg, gen_line=gl, origin=origin, fn=None, obligation=None,
                                     rendered=d.get('rendered', '')))
                continue
            gl = alt[0]['line_start']
            origin = R.origin[gl - 1] if 0 < gl <= len(R.origin) else ('?',)
            label = _label(R, gl, alt[0]['line_end'])
        kindword = _kindword(low)
        if kindword is None:
            U.failed.append(dict(kind='inconclusive', message=msg, gen_line=gl, origin=origin, fn=fn['name'] if fn else None,
                                 obligation=None, rendered=d.get('rendered', '')))
            continue
        if origin[0] == 'src':
            where = 'src:%s:%d' % (origin[1], origin[2])
        elif origin[0] == 'spec':
            where = 'spec:%s:%d' % (origin[1], origin[2])
        else:
            where = 'tmpl:%s:%d' % (origin[1], origin[2]) if len(origin) > 2 else '?'
        ob = '%s/%s#%s' % (fn['name'] if fn else '<lemma>', kindword, label or where)
        U.failed.append(dict(kind='violation', message=msg, gen_line=gl, origin=origin, fn=fn['name'] if fn else None,
                             obligation=ob, where=where, rendered=d.get('rendered', '')))
    if any(f['kind'] == 'inconclusive' for f in U.failed):
        U.status = 'inconclusive'
        U.reason = 'non-verification diagnostics: ' + '; '.join(f['message'] for f in U.failed if f['kind'] == 'inconclusive')[:600]
    else:
        U.status = 'violation'
    return U


def _kindword(low):
    table = [
        ('postcondition not satisfied', 'ensures'),
        ('precondition not satisfied', 'call-precondition'),
        ('fails to satisfy `callee.requires(args)`', 'call-precondition'),
        ('precondition not met', 'call-precondition'),
        ('index in bounds', 'call-precondition'),
        ('invariant not satisfied before loop', 'invariant-init'),
        ('invariant not satisfied at end of loop body', 'invariant-preserved'),
        ('invariant not satisfied', 'invariant'),
        ('assertion failed', 'assert'),
        ('arithmetic underflow/overflow', 'overflow'),
        ('division by zero', 'div-by-zero'),
        ('decreases not satisfied', 'decreases'),
        ('could not prove termination', 'decreases'),
        ('loop must have a decreases', None),
        ('assert forall', 'assert'),
        ('cannot prove that call to', 'unreachable-panic'),
        ('panic', 'unreachable-panic'),
        ('unreachable', 'unreachable-panic'),
        ('bit shift', 'overflow'),
    ]
    for pat, kw in table:
        if pat in low:
            return kw
    return None


_LABEL = re.compile(r'//#\s*([A-Za-z0-9_.:-]+)')


def _label(R, gl, gl_end=None):
    """An obligation label: `//# name` comment on one of the generated lines of the failing clause."""
    for k in range(gl, (gl_end or gl) + 1):
        if 0 < k <= len(R.lines):
            m = _LABEL.search(R.lines[k - 1])
            if m:
                return m.group(1)
    return None
