"""Mechanical extraction of function text from /repo and splicing of contracts.

No third-party parser: a lexer-aware brace matcher that understands strings, raw strings,
chars, lifetimes, line and block comments.  Function text is copied byte for byte; the only
edits are the documented ones (DESIGN.md section 3.1, X1..X8):
  X1  doc comments / attributes in front of the item are not copied
  X3  visibility modifiers in front of `fn` are removed
  X5  (variant=reject only) `panic!( ... )` -> `verif_reject()`
  X8  (ret=<name>) the return type `-> T` becomes `-> (name: T)`
Everything else that appears in the generated file inside an extracted function and is not
source text is contract text spliced from the template (only ever *added* lines).
"""
import re


class ExtractError(Exception):
    """Lost anchor / ambiguous anchor / malformed template: always 'inconclusive', never a violation."""


def _skip_string(src, k):
    # src[k] == '"'
    n = len(src)
    k += 1
    while k < n and src[k] != '"':
        if src[k] == '\\':
            k += 1
        k += 1
    return k  # index of closing quote


_RAW = re.compile(r'b?r(#*)"')
_CHAR = re.compile(r"'(\\x[0-9a-fA-F]{2}|\\u\{[0-9a-fA-F]+\}|\\.|[^'\\])'")


def scan(src, start=0, end=None):
    """Yield (index, char) for every code character (outside strings/comments/char literals)."""
    n = len(src) if end is None else end
    k = start
    while k < n:
        c = src[k]
        if c == '"':
            k = _skip_string(src, k) + 1
            continue
        if c in 'br':
            m = _RAW.match(src, k)
            if m and (k == 0 or not (src[k - 1].isalnum() or src[k - 1] == '_')):
                hashes = m.group(1)
                close = '"' + hashes
                e = src.find(close, m.end())
                if e < 0:
                    raise ExtractError('unterminated raw string')
                k = e + len(close)
                continue
            if c == 'b' and k + 1 < n and src[k + 1] == '"' and (k == 0 or not (src[k - 1].isalnum() or src[k - 1] == '_')):
                k = _skip_string(src, k + 1) + 1
                continue
        if c == "'":
            m = _CHAR.match(src, k)
            if m:
                k = m.end()
                continue
            # lifetime: skip the quote only
            k += 1
            continue
        if c == '/' and k + 1 < n and src[k + 1] == '/':
            e = src.find('\n', k)
            k = n if e < 0 else e
            continue
        if c == '/' and k + 1 < n and src[k + 1] == '*':
            depth = 1
            k += 2
            while k < n and depth:
                if src.startswith('/*', k):
                    depth += 1
                    k += 2
                elif src.startswith('*/', k):
                    depth -= 1
                    k += 2
                else:
                    k += 1
            continue
        yield k, c
        k += 1


def match_brace(src, open_idx):
    """Index of the `}` matching the `{` at open_idx."""
    assert src[open_idx] == '{'
    depth = 0
    for k, c in scan(src, open_idx):
        if c == '{':
            depth += 1
        elif c == '}':
            depth -= 1
            if depth == 0:
                return k
    raise ExtractError('unbalanced braces')


def strip_tests(src):
    """Drop the trailing `#[cfg(test)] mod tests { .. }` (unit tests are not library code)."""
    m = re.search(r'\n#\[cfg\(test\)\]\s*\nmod\s+\w+\s*\{', src)
    return src[:m.start() + 1] if m else src


def _norm(s):
    return re.sub(r'\s+', ' ', s).strip()


def code_mask(src):
    """Boolean list: True where the character is code (not string/comment)."""
    mask = [False] * len(src)
    for k, _ in scan(src):
        mask[k] = True
    return mask


def find_container(src, header):
    """Locate `header {` (whitespace-normalised match of an impl/trait header); return (open, close)."""
    want = _norm(header)
    hits = []
    for m in re.finditer(r'(?m)^[ \t]*(pub(\([^)]*\))?\s+)?(unsafe\s+)?(impl|trait)\b', src):
        # header text up to the first code '{'
        ob = None
        for k, c in scan(src, m.start()):
            if c == '{':
                ob = k
                break
            if c == ';':
                break
        if ob is None:
            continue
        got = _norm(src[m.start():ob])
        got_nopub = re.sub(r'^pub(\([^)]*\))?\s+', '', got)
        if got == want or got_nopub == want:
            hits.append(ob)
    if not hits:
        raise ExtractError('lost anchor: container `%s` not found' % header)
    if len(hits) > 1:
        raise ExtractError('ambiguous anchor: container `%s` found %d times' % (header, len(hits)))
    ob = hits[0]
    return ob, match_brace(src, ob)


_FN = re.compile(r'(?m)^([ \t]*)((?:pub(?:\([^)]*\))?\s+)?(?:const\s+)?(?:unsafe\s+)?)fn\s+(\w+)\b')


def find_fn(src, container, name, nth=0):
    """Return dict(start, sig_end, body_open, body_close, line) for `fn name` directly inside container
    (container == '-' means module level)."""
    if container == '-':
        lo, hi = 0, len(src)
        want_depth = 0
    else:
        ob, cb = find_container(src, container)
        lo, hi = ob + 1, cb
        want_depth = 0
    mask = code_mask(src)
    # depth of every position relative to lo
    depth_at = {}
    d = 0
    cands = [m for m in _FN.finditer(src, lo, hi) if m.group(3) == name and mask[m.start(3)]]
    if not cands:
        raise ExtractError('lost anchor: fn `%s` not found in `%s`' % (name, container))
    # compute depth for candidates
    good = []
    for m in cands:
        d = 0
        for k, c in scan(src, lo, m.start()):
            if c == '{':
                d += 1
            elif c == '}':
                d -= 1
        if d == want_depth:
            good.append(m)
    if len(good) <= nth:
        raise ExtractError('lost anchor: fn `%s` (occurrence %d) not at item level of `%s`' % (name, nth, container))
    if len(good) > 1 and nth == 0 and container != '-':
        raise ExtractError('ambiguous anchor: fn `%s` found %d times in `%s`' % (name, len(good), container))
    m = good[nth]
    # find body-opening brace: first code '{' at paren/bracket depth 0 after the name
    pd = 0
    body_open = None
    for k, c in scan(src, m.end()):
        if c in '([':
            pd += 1
        elif c in ')]':
            pd -= 1
        elif c == '{' and pd == 0:
            body_open = k
            break
        elif c == ';' and pd == 0:
            return dict(start=m.start(), fn_kw=m.start() + len(m.group(1)) + len(m.group(2)), indent=m.group(1),
                        body_open=None, body_close=k, line=src.count('\n', 0, m.start()) + 1, decl_only=True)
    if body_open is None:
        raise ExtractError('no body for fn `%s`' % name)
    return dict(start=m.start(), fn_kw=m.start() + len(m.group(1)) + len(m.group(2)), indent=m.group(1),
                body_open=body_open, body_close=match_brace(src, body_open),
                line=src.count('\n', 0, m.start()) + 1, decl_only=False)


_LOOP_KW = re.compile(r'\b(for|while|loop)\b')


def find_loops(text):
    """Positions (keyword index, body-open-brace index) of every loop in `text` (a fn body), source order."""
    mask = code_mask(text)
    out = []
    for m in _LOOP_KW.finditer(text):
        if not mask[m.start()]:
            continue
        kw = m.group(1)
        # `for<'a>` HRTB or `impl X for Y` cannot occur at statement level in bodies we extract; guard anyway
        rest = text[m.end():m.end() + 1]
        if kw == 'for' and rest == '<':
            continue
        # previous code char must not be '.' or identifier char (e.g. `x.for`), or `'label:` is fine
        pd = 0
        ob = None
        for k, c in scan(text, m.end()):
            if c in '([':
                pd += 1
            elif c in ')]':
                pd -= 1
            elif c == '{' and pd == 0:
                ob = k
                break
            elif c == ';' and pd == 0:
                break
        if ob is None:
            continue
        out.append((m.start(), ob))
    return out


def _split_ret(sig):
    """Split a signature (text from `fn` up to but excluding the body `{`) into (before_ret, ret_type, where_clause)."""
    # find `->` at paren depth 0
    pd = 0
    arrow = None
    k = 0
    for k, c in scan(sig):
        if c in '([<':
            # '<' only counts for generics; treat conservatively: track only () and []
            if c != '<':
                pd += 1
        elif c in ')]':
            pd -= 1
        elif c == '-' and pd == 0 and sig[k:k + 2] == '->':
            arrow = k
            break
    if arrow is None:
        return None
    m = re.search(r'\bwhere\b', sig[arrow:])
    if m:
        w = arrow + m.start()
        return sig[:arrow], sig[arrow + 2:w].strip(), sig[w:]
    return sig[:arrow], sig[arrow + 2:].strip(), ''


_PANIC = re.compile(r'\bpanic!\s*\(')


def replace_panics(body):
    """X5: `panic!( ... )` -> `verif_reject()` (token level; arguments dropped)."""
    mask = code_mask(body)
    out = []
    pos = 0
    n = 0
    for m in _PANIC.finditer(body):
        if m.start() < pos or not mask[m.start()]:
            continue
        # match the paren
        d = 0
        end = None
        for k, c in scan(body, m.end() - 1):
            if c == '(':
                d += 1
            elif c == ')':
                d -= 1
                if d == 0:
                    end = k
                    break
        if end is None:
            raise ExtractError('unbalanced panic!(')
        seg = body[m.start():end + 1]
        out.append(body[pos:m.start()])
        # keep line structure so that line maps stay aligned
        out.append('verif_reject()' + '\n' * seg.count('\n'))
        pos = end + 1
        n += 1
    out.append(body[pos:])
    return ''.join(out), n


def body_skeleton(blines):
    """Line/brace structure of a function body: per line, indentation and the braces/parens outside strings and comments.
    Unchanged by in-place edits of expressions, identifiers, literals and operators; changed by added/removed lines or blocks."""
    import hashlib
    parts = []
    for l in blines:
        st = l.strip()
        if st.startswith('//'):
            parts.append('c')
            continue
        ind = len(l) - len(l.lstrip(' '))
        br = ''.join(c for _, c in scan(l) if c in '{}')
        parts.append('%d%s' % (ind, br))
    return hashlib.sha1('|'.join(parts).encode()).hexdigest()[:16] + ':%d' % len(blines)


class Splice:
    """Contract text for one extracted function."""

    def __init__(self):
        self.spec = []          # [(tline, text)] between signature and body
        self.loops = {}         # ordinal(1-based) -> [(tline, text)]
        self.enter = []         # at start of body
        self.before = []        # [(pattern, occurrence, [(tline,text)])]
        self.after = []
        self.tail = []          # before the last non-blank line of the body (a one-line tail expression)
        self.exit = []          # before the closing brace of the body (functions that end without a tail expression)
        self.loopbody = {}      # ordinal -> lines spliced at the START of the n-th loop's body (right after its `{` line)
        self.loopend = {}       # ordinal -> lines spliced at the END of the n-th loop's body (before its closing `}` line)


def extract_function(src, relpath, container, name, splice, opts, lock=None):
    """Return list of (text_line, origin) for the spliced function.
    origin = ('src', relpath, lineno) | ('spec', template_line)"""
    info = find_fn(src, container, name, int(opts.get('nth', 0)))
    if info['decl_only']:
        raise ExtractError('fn `%s` has no body' % name)
    sig = src[info['fn_kw']:info['body_open']]
    body = src[info['body_open']:info['body_close'] + 1]
    first_line = src.count('\n', 0, info['fn_kw']) + 1
    body_first_line = src.count('\n', 0, info['body_open']) + 1
    notes = []
    if opts.get('rename'):
        sig = re.sub(r'^fn\s+' + re.escape(name) + r'\b', 'fn ' + opts['rename'], sig)
        notes.append('rename')
    if opts.get('ret'):
        sp = _split_ret(sig)
        if sp is None:
            raise ExtractError('ret= given but fn `%s` has no return type' % name)
        before, rty, wh = sp
        sig = '%s-> (%s: %s) %s' % (before, opts['ret'], rty, wh)
    if opts.get('sigsub'):
        # list of (old,new) token substitutions in the signature, e.g. Self::RowVector -> Vec<T>
        for old, new in opts['sigsub']:
            if old not in sig:
                raise ExtractError('signature drift: `%s` not in signature of `%s`' % (old, name))
            sig = sig.replace(old, new)
    if opts.get('expect_sig'):
        if _norm(src[info['fn_kw']:info['body_open']]) != _norm(opts['expect_sig']):
            raise ExtractError('signature drift for `%s`: now `%s`' % (name, _norm(src[info['fn_kw']:info['body_open']])))
    npanic = 0
    if opts.get('variant') == 'reject':
        body, npanic = replace_panics(body)
        if npanic == 0:
            raise ExtractError('variant=reject but fn `%s` contains no panic!' % name)
    out = []
    indent = info['indent']
    # signature lines
    sig_lines = sig.rstrip().split('\n')
    for i, l in enumerate(sig_lines):
        out.append(((indent if i == 0 else '') + l, ('src', relpath, first_line + i)))
    for tl, t in splice.spec:
        out.append((t, ('spec', tl)))
    # body with loop / before / after insertions
    blines = body.split('\n')
    # loop insertion: map loop ordinal -> (line index in blines, col) of the loop's body-open brace
    loops = find_loops(body)
    inserts_before_line = {}   # line idx -> list of (tl,text)   (inserted before that line)
    inserts_after_line = {}
    brace_splits = {}          # line idx -> col where line must be split (loop body brace)
    if opts.get('variant') == 'reject' and opts.get('loops') != 'manual':
        # rejection variant: everything after the diverging verif_reject() is dead code; loops get `invariant false`
        for k, (kw, ob) in enumerate(loops):
            if (k + 1) not in splice.loops:
                is_for = body[kw:kw + 3] == 'for'
                splice.loops[k + 1] = [(('<auto-reject>', 0), '            invariant false,' + ('' if is_for else ' decreases 0int,'))]
    for ordn, items in splice.loops.items():
        if ordn < 1 or ordn > len(loops):
            raise ExtractError('lost anchor: fn `%s` has %d loops, spec refers to loop %d' % (name, len(loops), ordn))
        kw, ob = loops[ordn - 1]
        li = body.count('\n', 0, ob)
        col = ob - (body.rfind('\n', 0, ob) + 1)
        if li in brace_splits:
            raise ExtractError('two loop braces on one line in `%s`' % name)
        brace_splits[li] = (col, items)
    if len(splice.loops) and opts.get('nloops') is not None and int(opts['nloops']) != len(loops):
        raise ExtractError('loop count drift in `%s`: expected %s, found %d' % (name, opts['nloops'], len(loops)))
    mask_lines = None

    skeleton = body_skeleton(blines)
    anchor_record = {}
    fallbacks = []

    def find_line(pattern, occ, kind):
        key = '%s|%s|%s' % (kind, pattern, occ)
        try:
            hits = [i for i, l in enumerate(blines) if pattern in l and not l.strip().startswith('//')]
            if not hits:
                raise ExtractError('lost anchor: no line containing `%s` in fn `%s`' % (pattern, name))
            if occ is None:
                if len(hits) > 1:
                    raise ExtractError('ambiguous anchor: `%s` matches %d lines in fn `%s`' % (pattern, len(hits), name))
                idx = hits[0]
            else:
                if occ > len(hits):
                    raise ExtractError('lost anchor: occurrence %d of `%s` in fn `%s`' % (occ, pattern, name))
                idx = hits[occ - 1]
        except ExtractError:
            # Positional fallback: the text of the anchor line changed but the body has exactly the line/brace structure
            # recorded when the unit was admitted (vc lock): the hint goes where it was.  Any other drift stays 'lost anchor'.
            if lock and lock.get('skeleton') == skeleton and key in lock.get('anchors', {}):
                idx = lock['anchors'][key]
                fallbacks.append(key)
            else:
                raise
        anchor_record[key] = idx
        return idx

    for pattern, occ, items in splice.before:
        inserts_before_line.setdefault(find_line(pattern, occ, 'before'), []).extend(items)
    for pattern, occ, items in splice.after:
        inserts_after_line.setdefault(find_line(pattern, occ, 'after'), []).extend(items)
    for ordn, items in list(splice.loopbody.items()) + list(splice.loopend.items()):
        if ordn < 1 or ordn > len(loops):
            raise ExtractError('lost anchor: fn `%s` has %d loops, spec refers to loop body %d' % (name, len(loops), ordn))
    for ordn, items in splice.loopbody.items():
        kw, ob = loops[ordn - 1]
        li = body.count('\n', 0, ob)
        if blines[li].rstrip()[-1:] != '{':
            raise ExtractError('loop %d of `%s`: code follows the opening brace on the same line' % (ordn, name))
        inserts_after_line.setdefault(li, []).extend(items)
    for ordn, items in splice.loopend.items():
        kw, ob = loops[ordn - 1]
        cb = match_brace(body, ob)
        li = body.count('\n', 0, cb)
        if blines[li].strip() not in ('}', '};'):
            raise ExtractError('loop %d of `%s`: closing brace is not on its own line' % (ordn, name))
        inserts_before_line.setdefault(li, []).extend(items)
    if splice.tail:
        k = len(blines) - 2
        while k > 0 and not blines[k].strip():
            k -= 1
        if k <= 0:
            raise ExtractError('no tail line in fn `%s`' % name)
        inserts_before_line.setdefault(k, []).extend(splice.tail)
    if splice.exit:
        if blines[-1].strip() != '}':
            raise ExtractError('closing brace of fn `%s` is not on its own line' % name)
        inserts_before_line.setdefault(len(blines) - 1, []).extend(splice.exit)
    for i, l in enumerate(blines):
        org = ('src', relpath, body_first_line + i)
        for tl, t in inserts_before_line.get(i, []):
            out.append((t, ('spec', tl)))
        if i in brace_splits:
            col, items = brace_splits[i]
            head, tail = l[:col], l[col:]
            if i == 0:
                raise ExtractError('loop on signature line')
            out.append((head, org))
            for tl, t in items:
                out.append((t, ('spec', tl)))
            out.append((tail, org))
        elif i == 0:
            # the body's opening brace line: `{` possibly followed by code
            out.append((l, org))
            for tl, t in splice.enter:
                out.append((t, ('spec', tl)))
        else:
            out.append((l, org))
        for tl, t in inserts_after_line.get(i, []):
            out.append((t, ('spec', tl)))
    meta = dict(file=relpath, container=container, name=name, line=first_line, nloops=len(loops),
                panics_replaced=npanic, body_lines=len(blines), src_sig=_norm(src[info['fn_kw']:info['body_open']]),
                skeleton=skeleton, anchors=anchor_record, anchor_fallbacks=fallbacks)
    return out, meta


def extract_decl(src, container, name):
    """Signature text of a trait method declaration (for prelude drift checks)."""
    info = find_fn(src, container, name)
    end = info['body_open'] if not info['decl_only'] else info['body_close']
    return _norm(src[info['fn_kw']:end])


def extract_struct(src, name):
    m = re.search(r'(?m)^[ \t]*(pub(\([^)]*\))?\s+)?(struct|enum)\s+' + re.escape(name) + r'\b', src)
    if not m:
        raise ExtractError('lost anchor: struct/enum `%s`' % name)
    ob = None
    for k, c in scan(src, m.end()):
        if c == '{':
            ob = k
            break
        if c == ';':
            return src[m.start():k + 1]
    cb = match_brace(src, ob)
    return src[m.start():cb + 1]
