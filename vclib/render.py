"""Template (specs/<ID>/<unit>.rs) -> generated single-file Verus input + line map.

Directives (each on its own line, starting at column 0 or indented):
  //@unit key=value ...                      metadata (tier=quick|thorough, canary=all|none, rlimit=N)
  //@include <path relative to /verif/specs> textual include (preludes); nested directives allowed
  //@checkdecl <file> :: <container> :: <fn> :: <normalised signature>
                                             prelude drift check (X2): the declaration in /repo must still read so
  //@struct <file> :: <Name>                 copy a struct/enum definition verbatim (attributes/doc lines dropped)
  //@extract <file> :: <container|-> :: <fn> [:: key=value ...]
        keys: ret=<name>  variant=reject  rename=<new>  nth=<k>  nloops=<n>  canary=no  sub=<old>=><new> (signature only)
     //@spec                                 following lines go between signature and body
     //@loop <n>                             following lines go before the body brace of the n-th loop (source order)
     //@enter                                following lines go right after the body's opening brace line
     //@tail                                 following lines go before the last non-blank line of the body (one-line tail expression)
     //@before <substring>[ ##k]             following lines go before the (k-th) body line containing substring
     //@after <substring>[ ##k]              ... after that line
  //@end
Anything else is copied as is (it is our text: prelude, spec fns, lemmas).
"""
import os
import re
from . import extract as X

SPECS = os.path.join(os.path.dirname(os.path.dirname(os.path.abspath(__file__))), 'specs')


class Rendered:
    def __init__(self):
        self.lines = []       # generated text lines
        self.origin = []      # per line: ('tmpl', file, line) | ('src', relpath, line) | ('spec', file, line)
        self.fn_ranges = []   # dict(name, container, file, start, end (generated line numbers, 1-based), meta, opts, spec_lines)
        self.meta = {}
        self.checkdecls = []
        self.assumption_hits = []

    def add(self, text, origin):
        self.lines.append(text)
        self.origin.append(origin)

    def text(self):
        return '\n'.join(self.lines) + '\n'


def _parse_kv(parts):
    d = {}
    for p in parts:
        p = p.strip()
        if not p:
            continue
        if '=' not in p:
            raise X.ExtractError('bad option `%s`' % p)
        k, v = p.split('=', 1)
        if k == 'sub':
            old, new = v.split('=>')
            d.setdefault('sigsub', []).append((old, new))
        else:
            d[k.strip()] = v.strip()
    return d


_SRC_CACHE = {}


def load_src(repo, rel):
    key = (repo, rel)
    if key not in _SRC_CACHE:
        p = os.path.join(repo, rel)
        if not os.path.exists(p):
            raise X.ExtractError('lost anchor: file %s missing' % rel)
        _SRC_CACHE[key] = X.strip_tests(open(p).read())
    return _SRC_CACHE[key]


def clear_cache():
    _SRC_CACHE.clear()


LOCKS = os.path.join(SPECS, 'locks')


def lock_path(template_path):
    rel = os.path.relpath(template_path, SPECS)
    return os.path.join(LOCKS, rel.replace(os.sep, '__') + '.json')


def load_lock(template_path):
    p = lock_path(template_path)
    if os.path.exists(p):
        import json
        return json.load(open(p))
    return {}


def write_lock(template_path, R):
    import json
    os.makedirs(LOCKS, exist_ok=True)
    d = {}
    for k, fr in enumerate(R.fn_ranges):
        d['%d:%s' % (k, fr['src_name'])] = dict(skeleton=fr['meta']['skeleton'], anchors=fr['meta']['anchors'])
    json.dump(d, open(lock_path(template_path), 'w'), indent=1, sort_keys=True)


def render(template_path, repo, canary_fn=None, canary_kind='post'):
    """canary_fn: index into fn_ranges order (int) of the function that gets the canary clause."""
    R = Rendered()
    R.lock = load_lock(template_path)
    _render_file(R, template_path, repo, canary_fn, canary_kind, depth=0)
    return R


def _clean_struct(text):
    out = []
    # X3 for type definitions: a restricted visibility (`pub(crate) enum ..`) becomes `pub` (all modules are flattened into one
    # file; Verus refuses open spec items of a type that is less visible than `pub`)
    text = re.sub(r'^(\s*)pub\([^)]*\)(\s+(?:struct|enum)\b)', r'\1pub\2', text, count=1)
    for l in text.split('\n'):
        s = l.strip()
        if s.startswith('///') or s.startswith('#[') or s.startswith('//'):
            continue
        out.append(re.sub(r'^(\s*)pub(\([^)]*\))?\s+', r'\1pub ', l) if False else l)
    return '\n'.join(out)


def _render_file(R, path, repo, canary_fn, canary_kind, depth):
    if depth > 5:
        raise X.ExtractError('include depth')
    rel = os.path.relpath(path, SPECS)
    lines = open(path).read().split('\n')
    i = 0
    n = len(lines)
    while i < n:
        l = lines[i]
        s = l.strip()
        if not s.startswith('//@'):
            R.add(l, ('tmpl', rel, i + 1))
            i += 1
            continue
        d = s[3:].strip()
        if d.startswith('unit'):
            R.meta.update(_parse_kv(d[4:].split()))
            i += 1
        elif d.startswith('include'):
            inc = os.path.join(SPECS, d[len('include'):].strip())
            _render_file(R, inc, repo, canary_fn, canary_kind, depth + 1)
            i += 1
        elif d.startswith('checkdecl'):
            parts = [p.strip() for p in re.split(r'\s+::\s+', d[len('checkdecl'):].strip(), maxsplit=3)]
            # the signature may itself contain '::' -> split only 3 times
            f, cont, name, want = parts
            src = load_src(repo, f)
            got = X.extract_decl(src, cont, name)
            if X._norm(got) != X._norm(want):
                raise X.ExtractError('signature drift (X2): %s `%s::%s` now reads `%s`, prelude assumes `%s`' % (f, cont, name, got, want))
            R.checkdecls.append((f, cont, name))
            i += 1
        elif d.startswith('struct'):
            f, name = [p.strip() for p in re.split(r'\s+::\s+', d[len('struct'):].strip())]
            src = load_src(repo, f)
            txt = _clean_struct(X.extract_struct(src, name))
            for tl in txt.split('\n'):
                R.add(tl, ('src', f, 0))
            i += 1
        elif d.startswith('extract'):
            parts = [p.strip() for p in re.split(r'\s+::\s+', d[len('extract'):].strip())]
            if len(parts) < 3:
                raise X.ExtractError('%s:%d: bad extract directive' % (rel, i + 1))
            f, cont, name = parts[0], parts[1], parts[2]
            # containers may contain '::' (e.g. std::ops::Add) -> allow escaping as ':.:'
            cont = cont.replace(':.:', '::')
            opts = _parse_kv(parts[3].split() if len(parts) > 3 else [])
            sp = X.Splice()
            cur = None
            i += 1
            spec_line_count = 0
            while i < n:
                l2 = lines[i]
                s2 = l2.strip()
                if s2.startswith('//@'):
                    d2 = s2[3:].strip()
                    if d2 == 'end':
                        break
                    if d2 == 'spec':
                        cur = sp.spec
                    elif d2 == 'enter':
                        cur = sp.enter
                    elif d2 == 'tail':
                        cur = sp.tail
                    elif d2 == 'exit':
                        cur = sp.exit
                    elif d2.startswith('loopbody'):
                        cur = sp.loopbody.setdefault(int(d2.split()[1]), [])
                    elif d2.startswith('loopend'):
                        cur = sp.loopend.setdefault(int(d2.split()[1]), [])
                    elif d2.startswith('loop'):
                        cur = sp.loops.setdefault(int(d2.split()[1]), [])
                    elif d2.startswith('before') or d2.startswith('after'):
                        kind = 'before' if d2.startswith('before') else 'after'
                        pat = d2[len(kind):].strip()
                        occ = None
                        m = re.search(r'\s+##(\d+)$', pat)
                        if m:
                            occ = int(m.group(1))
                            pat = pat[:m.start()]
                        cur = []
                        getattr(sp, kind).append((pat, occ, cur))
                    else:
                        raise X.ExtractError('%s:%d: unknown directive `%s`' % (rel, i + 1, d2))
                else:
                    if cur is None:
                        if s2:
                            raise X.ExtractError('%s:%d: text outside a section in extract block' % (rel, i + 1))
                    else:
                        cur.append(((rel, i + 1), l2))
                        spec_line_count += 1
                i += 1
            else:
                raise X.ExtractError('%s: unterminated //@extract' % rel)
            i += 1  # skip //@end
            idx = len(R.fn_ranges)
            if canary_fn is not None and canary_fn == idx:
                _add_canary(sp, canary_kind)
            src = load_src(repo, f)
            out, meta = X.extract_function(src, f, cont, name, sp, opts, lock=getattr(R, 'lock', {}).get('%d:%s' % (idx, name)))
            start = len(R.lines) + 1
            # loops see the function's context (facts about hoisted locals, parameters) unless the unit opts out: an edit that
            # merely hoists a loop-invariant read into a local must not break the proof (measured on harmless refactorings)
            prev = R.lines[-1].strip() if R.lines else ''
            if opts.get('isolation') != 'yes' and R.meta.get('isolation') != 'yes' and 'loop_isolation' not in prev:
                R.add('#[verifier::loop_isolation(false)]', ('tmpl', rel, i))
            for text, org in out:
                if org[0] == 'spec':
                    R.add(text, ('spec', org[1][0], org[1][1]))
                else:
                    R.add(text, org)
            R.fn_ranges.append(dict(name=opts.get('rename', name), src_name=name, container=cont, file=f, start=start,
                                    end=len(R.lines), meta=meta, opts=opts, spec_lines=spec_line_count, from_include=(depth > 0 and rel.startswith('prelude' + os.sep)), from_any_include=depth > 0))
        else:
            raise X.ExtractError('%s:%d: unknown directive `%s`' % (rel, i + 1, d))


CANARY_TAG = '/*VERIF-CANARY*/'


def _add_canary(sp, kind):
    if kind == 'entry':
        sp.enter.insert(0, (('<canary>', 0), '        assert(false); ' + CANARY_TAG))
        return
    # post canary: `false` as an extra postcondition
    for k, (tl, t) in enumerate(sp.spec):
        if re.search(r'\bensures\b', t) and not t.strip().startswith('//'):
            sp.spec[k] = (tl, re.sub(r'\bensures\b', 'ensures false, ' + CANARY_TAG, t, count=1))
            return
    for k, (tl, t) in enumerate(sp.spec):
        if re.search(r'^\s*decreases\b', t):
            sp.spec.insert(k, (('<canary>', 0), '        ensures false, ' + CANARY_TAG))
            return
    sp.spec.append((('<canary>', 0), '        ensures false, ' + CANARY_TAG))


ASSUMPTION_PATTERNS = [
    (r'\bassume\s*\(', 'assume'),
    (r'\badmit\s*\(', 'admit'),
    (r'#\[verifier::external_body\]', 'external_body'),
    (r'\bassume_specification\b', 'assume_specification'),
    (r'#\[verifier::external\b', 'external'),
    (r'#\[verifier::exec_allows_no_decreases_clause\]', 'no_decreases'),
    (r'\buninterp\s+spec\s+fn\b', 'uninterp'),
    (r'#\[verifier::truncate\]', 'truncate'),
    (r'#\[verifier::nonlinear\]', None),
]
_ASSUME_ID = re.compile(r'//\s*ASSUME\[([A-Za-z0-9_.:-]+)\]')


def scan_assumptions(R):
    """Every trusted construct in the generated file must carry an id: a comment `// ASSUME[id]` on the same line
    or on one of the 3 lines above.  Returns (registered {id: [kinds]}, unregistered [(line, kind, text)])."""
    reg = {}
    unreg = []
    for i, l in enumerate(R.lines):
        m0 = _ASSUME_ID.search(l)
        if m0:
            reg.setdefault(m0.group(1), set()).add('stated')
        code = l.split('//')[0]
        for pat, kind in ASSUMPTION_PATTERNS:
            if kind is None:
                continue
            if re.search(pat, code):
                ident = None
                for j in range(i, max(-1, i - 4), -1):
                    m = _ASSUME_ID.search(R.lines[j])
                    if m:
                        ident = m.group(1)
                        break
                if ident:
                    reg.setdefault(ident, set()).add(kind)
                else:
                    unreg.append((i + 1, kind, l.strip()))
    return {k: sorted(v) for k, v in reg.items()}, unreg


def count_clauses(R):
    """Rough, syntactic count of contract clauses in spliced spec text of extracted functions
    (top-level comma separated expressions after requires/ensures/invariant/decreases, plus assert/assert forall)."""
    total = 0
    per_fn = {}
    for fr in R.fn_ranges:
        txt = '\n'.join(R.lines[k] for k in range(fr['start'] - 1, fr['end']) if R.origin[k][0] == 'spec')
        c = _count_clause_text(txt)
        per_fn[fr['name']] = c
        total += c
    return total, per_fn


def _count_clause_text(txt):
    txt = re.sub(r'//[^\n]*', '', txt)
    cnt = len(re.findall(r'\bassert\b', txt))
    for m in re.finditer(r'\b(requires|ensures|invariant|invariant_except_break|decreases)\b', txt):
        # count top-level commas until next keyword / end
        k = m.end()
        depth = 0
        items = 0
        seen = False
        while k < len(txt):
            c = txt[k]
            if c in '([{':
                depth += 1
            elif c in ')]}':
                depth -= 1
                if depth < 0:
                    break
            elif c == ',' and depth == 0:
                if seen:
                    items += 1
                seen = False
                k += 1
                continue
            elif depth == 0 and re.match(r'\b(requires|ensures|invariant|invariant_except_break|decreases|proof|assert)\b', txt[k:]) and (k == 0 or not (txt[k - 1].isalnum() or txt[k - 1] == '_')):
                break
            if not c.isspace():
                seen = True
            k += 1
        if seen:
            items += 1
        cnt += items
    return cnt
