"""Kani runner (filled in later)."""


def run_property(pid, cfg, tier, repo, work, here):
    return []
