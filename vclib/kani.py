"""Kani runner: the real crate (scratch copy of the working tree) + cfg(kani) harness modules appended as child modules.

Nothing in the copied sources is deleted or rewritten: one line
    #[cfg(kani)] #[path = "/verif/kani/<m>.rs"] mod verif_kani_<m>;
is appended to each target source file.  With cfg(kani) off the overlay is inert.

Harness descriptors (specs/<ID>/property.json -> "kani": [...]):
  harness      name of the #[kani::proof] function
  module       file under /verif/kani/
  inject_into  source file of /repo the module becomes a child of
  tier         quick | thorough
  bound        text: the bound of this stand-in (always reported; bounded units never count as proved)
  strength     'bounded' (default) | 'complete-loop-free'
  features     cargo features to enable (e.g. ["ndarray-bindings"])
  timeout_s    default 600
  fn           function under test (for reports)
  also_inject  [[module, inject_into], ...] further helper modules to inject (e.g. a constructor living in another source file)
"""
import concurrent.futures as cf
import hashlib
import json
import os
import re
import shutil
import subprocess
import time

KANI_DIR = 'kani'


def prepare_copy(repo, work, modules, here):
    dst = os.path.join(work, 'kani-repo')
    if os.path.exists(dst):
        shutil.rmtree(dst)
    os.makedirs(dst)
    for item in ('src', 'benches', 'Cargo.toml', 'Cargo.lock'):
        s = os.path.join(repo, item)
        if os.path.isdir(s):
            shutil.copytree(s, os.path.join(dst, item))
        elif os.path.exists(s):
            shutil.copy(s, os.path.join(dst, item))
    os.makedirs(os.path.join(dst, '.cargo'), exist_ok=True)
    open(os.path.join(dst, '.cargo', 'config.toml'), 'w').write('[net]\noffline = true\n')
    done = set()
    for (module, inject) in modules:
        if (module, inject) in done:
            continue
        done.add((module, inject))
        tgt = os.path.join(dst, inject)
        if not os.path.exists(tgt):
            return dst, 'lost anchor: %s missing' % inject
        modname = module_name(module)
        with open(tgt, 'a') as f:
            f.write('\n#[cfg(kani)]\n#[path = "%s"]\nmod %s;\n' % (os.path.join(here, KANI_DIR, module), modname))
    return dst, None


def module_name(module):
    return 'verif_kani_' + re.sub(r'\W', '_', os.path.splitext(os.path.basename(module))[0])


def qualified_name(h):
    rel = h['inject_into']
    parts = rel.split('/')
    assert parts[0] == 'src'
    parts = parts[1:]
    parts[-1] = os.path.splitext(parts[-1])[0]
    if parts[-1] in ('mod', 'lib'):
        parts = parts[:-1]
    return '::'.join(parts + [module_name(h['module']), h['harness']])


_RES = re.compile(r'VERIFICATION:- (SUCCESSFUL|FAILED)')
_SUMMARY = re.compile(r'\*\* (\d+) of (\d+) failed')
_COVER = re.compile(r'\*\* (\d+) of (\d+) cover properties satisfied')
_FAILED_CHECK = re.compile(r'^Failed Checks: (.*)$', re.M)


def run_harness(copy, h, jobs_env, extra_args=()):
    # --no-assertion-reach-checks: with concrete playback on, Kani's reachability checks make CBMC emit one multi-million-line
    #   trace per reachable assertion (measured: 12 min / 27 GB -> 24 s / 1.2 GB); vacuity is guarded by the final kani::cover!.
    # --exact: the harness filter is otherwise a substring match.
    cmd = ['cargo', 'kani', '-Z', 'stubbing', '-Z', 'function-contracts', '-Z', 'concrete-playback', '--concrete-playback=print',
           '-Z', 'unstable-options', '--no-assertion-reach-checks', '--exact', '--harness', qualified_name(h)]
    if h.get('features'):
        cmd += ['--features', ','.join(h['features'])]
    cmd += list(extra_args)
    extra_k = [a for a in (h.get('kani_args') or [])]
    # drop flags that are now defaults
    cleaned = []
    i = 0
    while i < len(extra_k):
        if extra_k[i] == '-Z' and i + 1 < len(extra_k) and extra_k[i + 1] == 'unstable-options':
            i += 2
            continue
        if extra_k[i] == '--no-assertion-reach-checks':
            i += 1
            continue
        cleaned.append(extra_k[i])
        i += 1
    if '--cbmc-args' not in cleaned:
        # CBMC constant-propagates only through arrays of <= 64 cells by default; Vec<Vec<_>> buffers are larger
        cleaned += ['--cbmc-args', '--max-field-sensitivity-array-size', '512']
    cmd += cleaned
    env = dict(os.environ)
    env['CARGO_NET_OFFLINE'] = 'true'
    env.update(jobs_env)
    t0 = time.time()
    timeout = max(int(h.get('timeout_s', 600)), 1500)   # floor: a loaded machine must not turn an admitted harness into 'inconclusive'
    mem_kb = int(h.get('mem_gb', 20)) * 1024 * 1024
    try:
        p = subprocess.run(['bash', '-c', 'ulimit -v %d; exec "$@"' % mem_kb, 'bash'] + cmd, cwd=copy, env=env,
                           stdout=subprocess.PIPE, stderr=subprocess.STDOUT, timeout=timeout, universal_newlines=True)
        out, rc = p.stdout, p.returncode
    except subprocess.TimeoutExpired as e:
        out = (e.stdout or '') if isinstance(e.stdout, str) else ((e.stdout or b'').decode('utf8', 'replace'))
        out += '\n<<timeout after %ds>>' % timeout
        rc = 124
        subprocess.run(['pkill', '-f', copy], stdout=subprocess.DEVNULL, stderr=subprocess.DEVNULL)
    return cmd, rc, out, time.time() - t0


def classify(h, cmd, rc, out, wall):
    r = dict(harness=h['harness'], fn=h.get('fn', ''), bound=h.get('bound', ''), strength=h.get('strength', 'bounded'),
             wall_s=round(wall, 1), status=None, reason='', checks=0, checks_ok=0, covers='', cmd=' '.join(cmd))
    m = _SUMMARY.search(out)
    if m:
        r['checks'] = int(m.group(2))
        r['checks_ok'] = int(m.group(2)) - int(m.group(1))
    mc = _COVER.search(out)
    if mc:
        r['covers'] = '%s/%s' % (mc.group(1), mc.group(2))
    res = _RES.search(out)
    if rc == 124:
        r.update(status='inconclusive', reason='timeout after %ss' % h.get('timeout_s', 600))
        return r
    if res is None:
        tail = out[-1500:]
        r.update(status='inconclusive', reason='kani gave no verdict (rc=%s): %s' % (rc, tail.replace('\n', ' | ')[-700:]))
        return r
    if res.group(1) == 'SUCCESSFUL':
        if mc and mc.group(1) != mc.group(2):
            r.update(status='inconclusive', reason='vacuity guard: only %s cover properties satisfied' % r['covers'])
            return r
        if h.get('expect_stub') and ('- Stub:' not in out and 'Stub' not in out):
            r.update(status='inconclusive', reason='requested stub was not applied')
            return r
        if r['checks'] == 0:
            r.update(status='inconclusive', reason='zero checks')
            return r
        r['status'] = 'pass'
        return r
    # FAILED
    failed = _FAILED_CHECK.findall(out)
    descs = [f.strip() for f in failed]
    unwind = [d for d in descs if 'unwinding assertion' in d]
    # a failed check "X is not currently supported by Kani" is a tool limit (the construct is merely reachable), never a violation
    unsupported = [d for d in descs if 'not currently supported by Kani' in d or 'is not supported by Kani' in d]
    real = [d for d in descs if 'unwinding assertion' not in d and d not in unsupported]
    if unsupported and not real:
        r.update(status='inconclusive', reason='unsupported construct reached: %s' % unsupported[0][:160])
        return r
    if unwind and not real:
        r.update(status='inconclusive', reason='unwinding assertion failed (bound too small): %s' % unwind[0])
        return r
    if not real and 'encountered no panics, but at least one was expected' in out:
        r['status'] = 'violation'
        r['raw_out'] = out
        r['failed_desc'] = 'the call returned normally where the property demands rejection (should_panic harness saw no panic)'
        r['failed_check'] = 'expected-panic-did-not-occur'
        r['detail'] = out[-1500:]
        return r
    if not real:
        # e.g. unsupported construct reached, or cover unsatisfied
        if 'unsupported' in out.lower() or 'not currently supported' in out.lower():
            r.update(status='inconclusive', reason='unsupported construct reached')
            i = out.lower().find('not currently supported')
            r['detail'] = out[max(0, i - 1200):i + 800] if i >= 0 else out[-2500:]
            if os.environ.get('VERIF_KANI_DUMP'):
                open(os.environ['VERIF_KANI_DUMP'], 'w').write(out)
            return r
        r.update(status='inconclusive', reason='FAILED without failed checks')
        r['detail'] = out[-3000:]
        return r
    r['status'] = 'violation'
    r['raw_out'] = out
    r['failed_desc'] = '; '.join(real[:4])
    r['failed_check'] = re.sub(r'\W+', '-', real[0])[:80].strip('-')
    # excerpt
    i = out.find('Failed Checks')
    r['detail'] = out[max(0, i - 200):i + 1500]
    return r


_PLAYBACK_TEST = re.compile(r'```\s*\n(.*?)```', re.S)


def playback(copy, h, here, r):
    """Concrete playback: ask Kani for the counterexample as a unit test, put it next to the harness (scratch only),
    and run it with `cargo kani playback` = the harness body executed natively on the REAL code with the concrete values."""
    out = r.get('raw_out') or ''
    # Kani prints one playback test per failed check AND per satisfied cover; take a test generated for a failed
    # check (`/// Check for `assertion`` / overflow / ...), never a cover witness
    cands = list(re.finditer(r'((?:///[^\n]*\n)*)\s*(#\[test\]\s*fn (kani_concrete_playback_\w+)\(\)\s*\{.*?\n\})', out, re.S))
    cands = [c for c in cands if 'Check for `cover`' not in c.group(1)] or cands
    if not cands:
        return None
    test_src, test_name = cands[0].group(2), cands[0].group(3)
    vals = re.findall(r'//\s*(.*)\n\s*vec!\[([^\]]*)\]', test_src)
    key = hashlib.sha1(test_src.encode()).hexdigest()[:12]
    cex = dict(key=key, playback_test=test_src, values=[dict(comment=c.strip(), bytes=b.strip()) for c, b in vals][:40])
    # write the test into a scratch module that is a sibling of the harness module
    modfile = os.path.join(copy, 'verif_playback_%s.rs' % key)
    # the test must live in the same module as the harness: append to a copy of the harness module
    src_mod = os.path.join(here, KANI_DIR, h['module'])
    scratch_mod = os.path.join(copy, 'verif_mod_%s.rs' % key)
    open(scratch_mod, 'w').write(open(src_mod).read() + '\n' + test_src + '\n')
    tgt = os.path.join(copy, h['inject_into'])
    s = open(tgt).read()
    s2 = s.replace('#[path = "%s"]' % src_mod, '#[path = "%s"]' % scratch_mod)
    open(tgt, 'w').write(s2)
    pcmd = ['cargo', 'kani', 'playback', '-Z', 'concrete-playback', '--lib']
    if h.get('features'):
        pcmd += ['--features', ','.join(h['features'])]
    pcmd += ['--', test_name]
    env = dict(os.environ)
    env['CARGO_NET_OFFLINE'] = 'true'
    try:
        p = subprocess.run(pcmd, cwd=copy, env=env, stdout=subprocess.PIPE, stderr=subprocess.STDOUT, timeout=900, universal_newlines=True)
        pout = p.stdout
        reproduced = bool(re.search(r'test \S*%s \.\.\. FAILED' % re.escape(test_name), pout)) or \
            bool(re.search(r"thread '\S*%s'[^\n]*panicked" % re.escape(test_name), pout))
    except subprocess.TimeoutExpired:
        pout = 'playback timed out'
        reproduced = False
    open(tgt, 'w').write(s)
    cex['playback_cmd'] = ' '.join(pcmd)
    cex['playback_output_tail'] = pout[-1500:]
    r['replayed'] = reproduced
    return cex


def run_property(pid, descs, tier, repo, work, here, parallel=6):
    hs = [h for h in descs if tier == 'thorough' or h.get('tier', 'quick') == 'quick']
    if not hs:
        return []
    results = []
    # group by feature set (each needs its own build)
    groups = {}
    for h in hs:
        groups.setdefault(tuple(h.get('features', [])), []).append(h)
    for feats, group in groups.items():
        copy, err = prepare_copy(repo, os.path.join(work, 'k-' + ('_'.join(feats) or 'default')), [(h['module'], h['inject_into']) for h in group] + [tuple(x) for h in group for x in h.get('also_inject', [])], here)
        if err:
            for h in group:
                results.append(dict(harness=h['harness'], status='inconclusive', reason=err, bound=h.get('bound', '')))
            continue
        # warm the build with the first harness alone, then the rest in parallel
        first = group[0]
        cmd, rc, out, wall = run_harness(copy, first, {})
        r0 = classify(first, cmd, rc, out, wall)
        rs = [r0]
        if 'error: could not compile' in out or 'error[E' in out:
            msg = re.findall(r'error(?:\[E\d+\])?: .*', out)[:3]
            for h in group:
                results.append(dict(harness=h['harness'], status='inconclusive', bound=h.get('bound', ''),
                                    reason='harness module does not compile against this tree (signature drift?): %s' % ' / '.join(msg)))
            continue
        rest = group[1:]
        if rest:
            with cf.ThreadPoolExecutor(max_workers=parallel) as ex:
                futs = [ex.submit(run_harness, copy, h, {}) for h in rest]
                for h, f in zip(rest, futs):
                    cmd, rc, out, wall = f.result()
                    rs.append(classify(h, cmd, rc, out, wall))
        for h, r in zip(group, rs):
            if r['status'] == 'violation':
                try:
                    r['counterexample'] = playback(copy, h, here, r)
                except Exception as e:  # noqa
                    r['counterexample'] = None
                    r['detail'] = r.get('detail', '') + '\n(playback failed: %s)' % e
        results.extend(rs)
    return results
