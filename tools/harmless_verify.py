#!/usr/bin/env python3
"""Run the checks against behaviour-preserving refactorings (false-alarm test).

usage: harmless_verify.py <dir with Rxx/patch.diff ...>
For each patch: scratch worktree of /repo HEAD + patch, then `./vc check <ID> --tier quick` for every property whose
anchor files the patch touches.  A VIOLATION (exit 1) on such a patch is a FALSE ALARM.  Results -> /verif/harmless/<Rxx>/.
"""
import json
import os
import re
import shutil
import subprocess
import sys
import time

HERE = os.path.dirname(os.path.dirname(os.path.abspath(__file__)))
SCR = '/var/tmp/harmlessverify'
MAP = [
    ('src/linalg/naive/dense_matrix.rs', ['C03']), ('src/linalg/mod.rs', ['C03']), ('src/linalg/stats.rs', ['C03']),
    ('src/metrics/', ['C15']), ('src/algorithm/sort/quick_sort.rs', ['C15', 'C04']),
    ('src/math/distance/', ['C17', 'C12']),
    ('src/algorithm/sort/heap_select.rs', ['C04']), ('src/algorithm/neighbour/linear_search.rs', ['C04']),
    ('src/algorithm/neighbour/cover_tree.rs', ['C04']), ('src/algorithm/neighbour/bbd_tree.rs', ['C12']),
    ('src/cluster/dbscan.rs', ['C13']), ('src/cluster/kmeans.rs', ['C12']),
    ('src/svm/', ['C10']), ('src/preprocessing/', ['C18']), ('src/model_selection/', ['C16']),
    ('src/ensemble/', ['C06']), ('src/naive_bayes/', ['C11']), ('src/math/vector.rs', ['C11']),
    ('src/linalg/ndarray_bindings.rs', ['C20']), ('src/linalg/nalgebra_bindings.rs', ['C20']),
]


def sh(cmd, cwd=None, env=None, timeout=7200):
    p = subprocess.run(cmd, shell=True, cwd=cwd, env=env, stdout=subprocess.PIPE, stderr=subprocess.STDOUT, universal_newlines=True, timeout=timeout)
    return p.returncode, p.stdout


def main(src):
    os.makedirs(SCR, exist_ok=True)
    for r in sorted(os.listdir(src)):
        patch = os.path.join(src, r, 'patch.diff')
        if not os.path.exists(patch):
            continue
        files = re.findall(r'^\+\+\+ b/(\S+)', open(patch).read(), re.M)
        pids = []
        for f in files:
            for pref, ps in MAP:
                if f.startswith(pref):
                    for p in ps:
                        if p not in pids:
                            pids.append(p)
        d = os.path.join(SCR, r)
        sh('git -C /repo worktree remove --force %s' % d)
        shutil.rmtree(d, ignore_errors=True)
        rc, out = sh('git -C /repo worktree add -q --detach %s HEAD' % d)
        rc, out = sh('git apply %s' % patch, cwd=d)
        dst = os.path.join(HERE, 'harmless', r)
        os.makedirs(dst, exist_ok=True)
        shutil.copy(patch, os.path.join(dst, 'patch.diff'))
        if os.path.exists(os.path.join(src, r, 'README.md')):
            shutil.copy(os.path.join(src, r, 'README.md'), os.path.join(dst, 'README.md'))
        meta = dict(id=r, files=files, properties=pids, applies=(rc == 0), results={})
        if rc == 0:
            env = dict(os.environ)
            env['VERIF_REPO'] = d
            for pid in pids:
                t0 = time.time()
                rc2, out2 = sh('./vc check %s --tier quick' % pid, cwd=HERE, env=env)
                lines = [l for l in out2.split('\n') if l.startswith('VIOLATION') or 'failed obligation' in l or l.startswith('INCONCLUSIVE')]
                meta['results'][pid] = dict(exit=rc2, wall_s=round(time.time() - t0, 1), lines=lines[:6])
                print(r, pid, 'exit', rc2, {0: 'pass', 1: 'FALSE ALARM', 2: 'inconclusive'}.get(rc2, '?'), (lines[:1] or [''])[0][:160])
        else:
            print(r, 'patch does not apply')
        json.dump(meta, open(os.path.join(dst, 'meta.json'), 'w'), indent=1)
        sh('git -C /repo worktree remove --force %s' % d)
        shutil.rmtree(d, ignore_errors=True)


if __name__ == '__main__':
    main(sys.argv[1])
