#!/usr/bin/env python3
"""Fill the generated tables of DESIGN.md section 8 (between BEGIN/END markers) from specs/, evidence/ and seeded/."""
import glob
import json
import os
import re

HERE = os.path.dirname(os.path.dirname(os.path.abspath(__file__)))


def status_table():
    claimed = json.load(open(os.path.join(HERE, 'specs', 'claimed.json')))
    na = json.load(open(os.path.join(HERE, 'specs', 'not_applicable.json')))
    out = ['| id | level | Verus units (fns under contract) | bounded Kani harnesses (quick/all) | open or assumed contracts | not decided (abridged) |',
           '|---|---|---|---|---|---|']
    adesc = json.load(open(os.path.join(HERE, 'specs', 'assumptions.json')))
    for pid in claimed:
        cfg = json.load(open(os.path.join(HERE, 'specs', pid, 'property.json')))
        units = sorted(glob.glob(os.path.join(HERE, 'specs', pid, '*.rs')))
        nfn = 0
        ids = set()
        for u in units:
            txt = open(u).read()
            nfn += len(re.findall(r'^//@extract ', txt, re.M))
            for inc in re.findall(r'^//@include (\S+)', txt, re.M):
                ip = os.path.join(HERE, 'specs', inc)
                if os.path.exists(ip) and not inc.startswith('prelude/'):
                    nfn += len(re.findall(r'^//@extract ', open(ip).read(), re.M))
        evp = os.path.join(HERE, 'evidence', pid + '.json')
        if os.path.exists(evp):
            ev = json.load(open(evp))
            for t in ev['coverage'].get('trusted_base', []):
                m = re.match(r'(\S+) \[[^;]*; ([^\]]*)\]', t)
                if m and ('open' in m.group(2) or 'assum' in m.group(2)):
                    ids.add(m.group(1))
        k = cfg.get('kani', [])
        kq = sum(1 for h in k if h.get('tier', 'quick') == 'quick' and not h.get('fallback_for'))
        nd = '; '.join(x[:90] for x in cfg.get('not_decided', [])[:4])
        out.append('| %s | %s | %d units, %d extracted fns | %d / %d | %s | %s |' % (
            pid, cfg['level'], len(units), nfn, kq, len(k), ', '.join(sorted(ids)) or '-', nd or '-'))
    out.append('')
    out.append('Not applicable (MANIFEST.not_applicable): ' + '; '.join('**%s** %s' % (p, r[:140]) for p, r in sorted(na.items())))
    return '\n'.join(out)


def seeded_table():
    out = ['| id | file / what breaks (from the author\'s README) | needs, to manifest | quick check | obligation that reports it |', '|---|---|---|---|---|']
    tot = det = inc = miss = 0
    for f in sorted(glob.glob(os.path.join(HERE, 'seeded', '*', 'meta.json'))):
        m = json.load(open(f))
        if not m.get('confirmed'):
            continue
        c = (m.get('checks') or {}).get('quick')
        what = m.get('what', '')
        needs = m.get('needs', '')
        if not c:
            res, ob = 'not run', ''
        else:
            tot += 1
            if c['exit'] == 1:
                res = 'detected'
                det += 1
            elif c['exit'] == 2:
                res = 'inconclusive'
                inc += 1
            else:
                res = 'MISSED'
                miss += 1
            ob = ''
            for l in c.get('lines', []):
                mm = re.search(r'failed obligation: (\S+)', l)
                if mm:
                    ob = '`%s`' % mm.group(1)[:110]
                    break
                mm = re.search(r'INCONCLUSIVE \S+ (.*)', l)
                if mm and not ob:
                    ob = mm.group(1)[:110]
        out.append('| %s | %s | %s | %s | %s |' % (m['id'], what[:170], needs[:140], res, ob))
    out.append('')
    out.append('Totals (confirmed changes with a quick run): %d - detected %d, inconclusive %d, missed %d.' % (tot, det, inc, miss))
    return '\n'.join(out)


def harmless_table():
    out = ['| id | files | checks run | outcome |', '|---|---|---|---|']
    tot = fa = inc = 0
    for f in sorted(glob.glob(os.path.join(HERE, 'harmless', '*', 'meta.json'))):
        m = json.load(open(f))
        res = []
        worst = 0
        for pid, r in sorted(m.get('results', {}).items()):
            res.append('%s: %s' % (pid, {0: 'pass', 1: 'FALSE ALARM', 2: 'inconclusive'}.get(r['exit'], '?')))
            worst = max(worst, {0: 0, 2: 1, 1: 2}.get(r['exit'], 0))
        tot += 1
        fa += worst == 2
        inc += worst == 1
        why = ''
        for pid, r in m.get('results', {}).items():
            if r['exit'] == 2 and r.get('lines'):
                why = r['lines'][0][:110]
        out.append('| %s | %s | %s | %s |' % (m['id'], ', '.join(os.path.basename(x) for x in m.get('files', [])), '; '.join(res), why))
    out.append('')
    out.append('Totals: %d behaviour-preserving refactorings - false alarms %d, inconclusive %d, pass %d.' % (tot, fa, inc, tot - fa - inc))
    return '\n'.join(out)


def fill(s, name, body):
    a = '<!-- BEGIN:%s -->' % name
    b = '<!-- END:%s -->' % name
    i = s.index(a) + len(a)
    j = s.index(b)
    return s[:i] + '\n' + body + '\n' + s[j:]


p = os.path.join(HERE, 'DESIGN.md')
s = open(p).read()
s = fill(s, 'STATUS', status_table())
s = fill(s, 'SEEDED', seeded_table())
if '<!-- BEGIN:HARMLESS -->' in s:
    s = fill(s, 'HARMLESS', harmless_table())
open(p, 'w').write(s)
print('tables written')
