#!/usr/bin/env python3
"""Regenerate MANIFEST.json from specs/<ID>/property.json (claimed) and specs/not_applicable.json."""
import json
import os

HERE = os.path.dirname(os.path.dirname(os.path.abspath(__file__)))
SPECS = os.path.join(HERE, 'specs')
props = [json.loads(l)['id'] for l in open(os.path.join(HERE, 'properties.jsonl'))]
na = json.load(open(os.path.join(SPECS, 'not_applicable.json')))
CLAIMED = json.load(open(os.path.join(SPECS, 'claimed.json')))
checks = []
claimed = []
for pid in props:
    p = os.path.join(SPECS, pid, 'property.json')
    if not os.path.exists(p):
        continue
    cfg = json.load(open(p))
    if pid not in CLAIMED:
        continue
    claimed.append(pid)
    checks.append(dict(
        property_id=pid,
        quick_cmd='./vc check %s --tier quick' % pid,
        thorough_cmd='./vc check %s --tier thorough' % pid,
        evidence_file='/verif/evidence/%s.json' % pid,
        replay_cmd_template='./vc replay {path}',
        engine='vc',
        level_claimed=dict(category=cfg['level'], text=cfg['level_text'], design_ref=cfg.get('design_ref', 'DESIGN.md section 5 / ' + pid)),
        level_note=cfg['level_note'],
        technique=cfg.get('technique', 'contract-based deductive verification (Verus) of function text extracted from /repo on every run'),
    ))
m = dict(
    version=1,
    setup_cmd='./vc setup',
    hooks=dict(
        guard='cfg(kani)',
        enable='no source hook in /repo: Kani harness modules are appended as `#[cfg(kani)] #[path=..] mod ..;` lines to a scratch copy of the working tree at check time; Verus works on function text extracted from /repo',
        baseline_off_cmd='cd /repo && cargo test --workspace --no-fail-fast --offline',
        source_commits=[],
        add_only=True,
    ),
    engines=[
        dict(name='vc', path='/verif/vc', serves_properties=claimed,
             kind_free_text='driver: mechanical extraction of /repo functions + contract splicing -> Verus (proof); overlay of cfg(kani) harness modules on a scratch copy -> Kani/CBMC (bounded stand-ins, counterexamples)'),
    ],
    checks=checks,
    notes='See DESIGN.md. exit 0 = all obligations discharged; exit 1 + VIOLATION line = an obligation that is discharged on the unchanged tree fails; exit 2 = inconclusive (lost anchor, construct outside the verifier subset, solver limit) - never an alarm.',
    not_applicable=[dict(property_id=pid, reason=na[pid]) for pid in props if pid not in claimed],
)
for pid in props:
    if pid not in claimed and pid not in na:
        raise SystemExit('property %s neither claimed nor in not_applicable.json' % pid)
json.dump(m, open(os.path.join(HERE, 'MANIFEST.json'), 'w'), indent=1)
print('claimed:', claimed)
print('not applicable:', [x['property_id'] for x in m['not_applicable']])
