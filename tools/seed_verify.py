#!/usr/bin/env python3
"""Confirm seeded changes produced by independent sub-agents and run the checks against them.

usage: seed_verify.py confirm <PID> <LETTER> <src_dir>     -> /verif/seeded/<PID>-<LETTER>/{patch.diff,demo.rs,README.md,meta.json}
       seed_verify.py check <PID>-<LETTER> [tier]          -> runs ./vc check <PID> with VERIF_REPO = scratch worktree + patch

confirm: in a scratch worktree of /repo HEAD (outside /repo and /verif): patch applies; full test suite passes with it;
the demo fails with it; the demo passes without it.
"""
import json
import os
import re
import shutil
import subprocess
import sys
import time

HERE = os.path.dirname(os.path.dirname(os.path.abspath(__file__)))
SCR = '/var/tmp/seedverify'


def sh(cmd, cwd=None, timeout=3600, env=None):
    p = subprocess.run(cmd, shell=True, cwd=cwd, stdout=subprocess.PIPE, stderr=subprocess.STDOUT, universal_newlines=True, timeout=timeout, env=env)
    return p.returncode, p.stdout


def worktree(tag):
    d = os.path.join(SCR, tag)
    if os.path.exists(d):
        sh('git -C /repo worktree remove --force %s' % d)
        shutil.rmtree(d, ignore_errors=True)
    os.makedirs(SCR, exist_ok=True)
    rc, out = sh('git -C /repo worktree add -q --detach %s HEAD' % d)
    if rc:
        raise SystemExit(out)
    return d


def drop(d):
    sh('git -C /repo worktree remove --force %s' % d)
    shutil.rmtree(d, ignore_errors=True)


def suite(d, features=''):
    rc, out = sh('cargo test --offline %s 2>&1 | grep -E "^test result|FAILED|failed"' % features, cwd=d)
    res = re.findall(r'test result: (\w+)\. (\d+) passed; (\d+) failed', out)
    ok = bool(res) and all(r[0] == 'ok' for r in res)
    return ok, out[-800:]


def demo(d, demo_src, features=''):
    os.makedirs(os.path.join(d, 'tests'), exist_ok=True)
    shutil.copy(demo_src, os.path.join(d, 'tests', 'demo.rs'))
    rc, out = sh('cargo test --offline %s --test demo 2>&1 | tail -40' % features, cwd=d)
    shutil.rmtree(os.path.join(d, 'tests'))
    res = re.findall(r'test result: (\w+)\. (\d+) passed; (\d+) failed', out)
    if not res:
        return None, out[-1500:]
    return all(r[0] == 'ok' for r in res), out[-1500:]


def confirm(pid, letter, src):
    sid = '%s-%s' % (pid, letter)
    patch = os.path.join(src, 'patch.diff')
    dm = os.path.join(src, 'demo.rs')
    feats = '--features ndarray-bindings,nalgebra-bindings' if pid == 'C20' else ''
    d = worktree(sid)
    meta = dict(id=sid, property=pid, source='independent sub-agent given only the property text and a scratch worktree', ran=[])
    try:
        rc, out = sh('git apply --check %s' % patch, cwd=d)
        meta['applies'] = rc == 0
        if rc:
            meta['ran'].append('git apply --check: FAILED: ' + out[-300:])
            return meta
        sh('git apply %s' % patch, cwd=d)
        ok, out = suite(d)
        if not ok:
            # flaky SVC test on the clean tree (randomised schedule): retry once
            ok, out = suite(d)
        meta['suite_passes_with_change'] = ok
        meta['ran'].append('cargo test --offline (with change): %s' % out.strip().replace('\n', ' | ')[-300:])
        if feats:
            ok2, out2 = suite(d, feats)
            meta['suite_with_features_passes_with_change'] = ok2
            meta['ran'].append('cargo test --offline %s (with change): %s' % (feats, out2.strip().replace('\n', ' | ')[-300:]))
        r, out = demo(d, dm, feats)
        meta['demo_fails_with_change'] = (r is False)
        meta['ran'].append('demo with change: %s' % ('FAILS' if r is False else ('passes' if r else 'did not run')))
        meta['demo_with_change_tail'] = out[-600:]
        sh('git checkout -- .', cwd=d)
        r, out = demo(d, dm, feats)
        meta['demo_passes_without_change'] = (r is True)
        meta['ran'].append('demo without change: %s' % ('passes' if r else ('FAILS' if r is False else 'did not run')))
        meta['confirmed'] = bool(meta.get('suite_passes_with_change') and meta['demo_fails_with_change'] and meta['demo_passes_without_change'])
    finally:
        drop(d)
    dst = os.path.join(HERE, 'seeded', sid)
    os.makedirs(dst, exist_ok=True)
    for f in ('patch.diff', 'demo.rs', 'README.md'):
        if os.path.exists(os.path.join(src, f)) and os.path.abspath(src) != os.path.abspath(dst):
            shutil.copy(os.path.join(src, f), os.path.join(dst, f))
    old = {}
    mp = os.path.join(dst, 'meta.json')
    if os.path.exists(mp):
        old = json.load(open(mp))
    old.update(meta)
    # what it breaks / needs: first lines of the agent's README
    rd = os.path.join(src, 'README.md')
    if os.path.exists(rd):
        old['readme_head'] = open(rd).read()[:1200]
    json.dump(old, open(mp, 'w'), indent=1)
    return meta


def check(sid, tier='quick'):
    pid = sid.split('-')[0]
    dst = os.path.join(HERE, 'seeded', sid)
    d = worktree('chk-' + sid)
    try:
        rc, out = sh('git apply %s' % os.path.join(dst, 'patch.diff'), cwd=d)
        if rc:
            print('patch does not apply', out)
            return
        env = dict(os.environ)
        env['VERIF_REPO'] = d
        t0 = time.time()
        # the check rewrites evidence/<pid>.json; evidence must describe /repo itself, so put the file back afterwards
        evp = os.path.join(HERE, 'evidence', pid + '.json')
        ev_saved = open(evp).read() if os.path.exists(evp) else None
        rc, out = sh('./vc check %s --tier %s' % (pid, tier), cwd=HERE, env=env, timeout=7200)
        if ev_saved is not None:
            open(evp, 'w').write(ev_saved)
        viol = [l for l in out.split('\n') if l.startswith('VIOLATION') or 'failed obligation' in l or l.startswith('INCONCLUSIVE')]
        mp = os.path.join(dst, 'meta.json')
        meta = json.load(open(mp))
        meta.setdefault('checks', {})[tier] = dict(exit=rc, detected=(rc == 1), wall_s=round(time.time() - t0, 1), lines=viol[:12],
                                                   cmd='VERIF_REPO=<scratch worktree of /repo HEAD + patch.diff> ./vc check %s --tier %s' % (pid, tier))
        json.dump(meta, open(mp, 'w'), indent=1)
        print(sid, tier, 'exit', rc, 'DETECTED' if rc == 1 else ('inconclusive' if rc == 2 else 'MISSED'))
        for l in viol[:8]:
            print('   ', l[:220])
    finally:
        drop(d)


if __name__ == '__main__':
    if sys.argv[1] == 'confirm':
        m = confirm(sys.argv[2], sys.argv[3], sys.argv[4])
        print(json.dumps({k: v for k, v in m.items() if k not in ('demo_with_change_tail',)}, indent=1))
    elif sys.argv[1] == 'check':
        check(sys.argv[2], sys.argv[3] if len(sys.argv) > 3 else 'quick')
