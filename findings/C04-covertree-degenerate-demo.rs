use smartcore::algorithm::neighbour::cover_tree::CoverTree;
use smartcore::math::distance::Distances;
#[test]
fn single_point() {
    let data = vec![vec![1.0f64, 2.0]];
    let t = CoverTree::new(data, Distances::euclidian()).unwrap();
    let r = t.find_radius(&vec![1.0, 2.0], 0.5).unwrap();
    assert_eq!(r.len(), 1, "radius");
    let k = t.find(&vec![1.5, 2.0], 1).unwrap();
    assert_eq!(k.len(), 1, "knn");
    assert_eq!(k[0].0, 0);
}
#[test]
fn identical_points() {
    let data = vec![vec![1.0f64, 2.0], vec![1.0, 2.0], vec![1.0, 2.0]];
    let t = CoverTree::new(data, Distances::euclidian()).unwrap();
    let r = t.find_radius(&vec![1.0, 2.0], 0.5).unwrap();
    assert_eq!(r.len(), 3, "radius");
    let k = t.find(&vec![1.5, 2.0], 2).unwrap();
    assert_eq!(k.len(), 2, "knn");
}
#[test]
fn two_points_one_dup() {
    let data = vec![vec![1.0f64, 2.0], vec![1.0, 2.0], vec![3.0, 2.0]];
    let t = CoverTree::new(data, Distances::euclidian()).unwrap();
    let r = t.find_radius(&vec![1.0, 2.0], 0.5).unwrap();
    assert_eq!(r.len(), 2, "radius");
    let k = t.find(&vec![2.9, 2.0], 3).unwrap();
    assert_eq!(k.len(), 3, "knn");
    assert_eq!(k[0].0, 2);
}
