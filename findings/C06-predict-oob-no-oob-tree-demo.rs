// Finding C06/predict-oob-answers-only-rows-that-have-an-oob-tree: RandomForestRegressor::predict_oob returns NaN for every training row
// that no tree left out of its bootstrap sample (0 trees aggregated: T::zero() / T::from(0)).  With n_trees = 1 that is every in-bag row.
// Observed on the unchanged tree (cargo test, seeds 0..2, 6 rows, targets 1..6):
//   seed=0 masks=[[true, true, false, true, true, false]] oob=[NaN, NaN, 2.0, NaN, NaN, 5.0]
//   seed=1 masks=[[false, true, true, false, true, false]] oob=[2.0, NaN, NaN, 3.0, NaN, 5.0]
//   seed=2 masks=[[true, true, false, false, false, false]] oob=[NaN, NaN, 2.0, 2.0, 2.0, 2.0]
// (The classifier answers the FIRST class label for such a row -- an all-zero tally -- independent of x: seed=0, row 3 of class 7.0 -> 5.0.)
use smartcore::ensemble::random_forest_regressor::*;
use smartcore::linalg::naive::dense_matrix::DenseMatrix;
#[test]
fn predict_oob_values_lie_within_the_range_of_the_training_targets() {
    let x = DenseMatrix::from_2d_array(&[&[1.], &[2.], &[3.], &[4.], &[5.], &[6.]]);
    let y = vec![1., 2., 3., 4., 5., 6.];
    let params = RandomForestRegressorParameters::default().with_n_trees(1).with_keep_samples(true).with_seed(0);
    let forest = RandomForestRegressor::fit(&x, &y, params).unwrap();
    match forest.predict_oob(&x) {
        Ok(oob) => {
            for v in oob.iter() {
                assert!(*v >= 1. && *v <= 6., "out-of-bag prediction {} is not a mean of member predictions (range of the targets is [1, 6])", v);
            }
        }
        Err(_) => {} // refusing rows without an out-of-bag tree is fine
    }
}
