// C11 findings F1-F3: naive Bayes predict PANICS (Option::unwrap on None, src/naive_bayes/mod.rs: `.max_by(|(_, p1), (_, p2)| p1.partial_cmp(p2).unwrap())`)
// on the TRAINING rows of training sets that fit accepts, because a class score is NaN.
// Build: in a copy of /repo `cargo build --lib --offline`, then
//   rustc --edition 2018 -L dependency=target/debug/deps --extern smartcore=target/debug/libsmartcore.rlib C11-predict-nan-demo.rs && ./C11-predict-nan-demo
// Observed on the unchanged tree (2026-09-28):
//   multinomial flp = [[0.0, -inf], [-inf, 0.0]]
//   multinomial alpha=0 predict on training rows: Err(Any { .. })                      <- panic, expected Ok([0.0, 0.0, 1.0])
//   categorical classes = [0.0, 1.0, 2.0] counts = [1, 0, 2] flp = [[[0.0, -inf], [NaN, NaN], [-inf, 0.0]], [[-inf, 0.0], [NaN, NaN], [-0.69.., -0.69..]]]
//   categorical alpha=0 labels {0,2} predict on training rows: Err(Any { .. })         <- panic, expected Ok([0.0, 2.0, 2.0])
//   categorical alpha=1 labels {0,2} predict on training rows: Ok([0.0, 2.0, 2.0])
//   gaussian single-row class predict on training rows: Err(Any { .. })                <- panic, expected Ok([3.0, -2.0, 3.0])
use smartcore::linalg::naive::dense_matrix::DenseMatrix;
use smartcore::naive_bayes::categorical::{CategoricalNB, CategoricalNBParameters};
use smartcore::naive_bayes::gaussian::GaussianNB;
use smartcore::naive_bayes::multinomial::{MultinomialNB, MultinomialNBParameters};
use std::panic;

fn main() {
    // 1. multinomial, alpha = 0, a feature that never occurs in class 0
    let x = DenseMatrix::from_2d_array(&[&[2., 0.], &[1., 0.], &[0., 3.]]);
    let y = vec![0., 0., 1.];
    let nb = MultinomialNB::fit(&x, &y, MultinomialNBParameters::default().with_alpha(0.0)).unwrap();
    println!("multinomial flp = {:?}", nb.feature_log_prob());
    let r = panic::catch_unwind(|| nb.predict(&x));
    println!("multinomial alpha=0 predict on training rows: {:?}", r.map(|v| v.unwrap()));

    // 2. categorical, alpha = 0, labels {0, 2}: class 1 empty
    let x = DenseMatrix::from_2d_array(&[&[0., 1.], &[1., 0.], &[1., 1.]]);
    let y = vec![0., 2., 2.];
    let nb = CategoricalNB::fit(&x, &y, CategoricalNBParameters::default().with_alpha(0.0)).unwrap();
    println!("categorical classes = {:?} counts = {:?} flp = {:?}", nb.classes(), nb.class_count(), nb.feature_log_prob());
    let r = panic::catch_unwind(|| nb.predict(&x));
    println!("categorical alpha=0 labels {{0,2}} predict on training rows: {:?}", r.map(|v| v.unwrap()));
    // 2b. same with default alpha = 1
    let nb = CategoricalNB::fit(&x, &y, CategoricalNBParameters::default()).unwrap();
    let r = panic::catch_unwind(|| nb.predict(&x));
    println!("categorical alpha=1 labels {{0,2}} predict on training rows: {:?}", r.map(|v| v.unwrap()));

    // 3. gaussian, a class with a single row (variance 0)
    let x = DenseMatrix::from_2d_array(&[&[1., 2.], &[3., 1.], &[4., 5.]]);
    let y = vec![3., -2., 3.];
    let nb = GaussianNB::fit(&x, &y, Default::default()).unwrap();
    let r = panic::catch_unwind(|| nb.predict(&x));
    println!("gaussian single-row class predict on training rows: {:?}", r.map(|v| v.unwrap()));
}
