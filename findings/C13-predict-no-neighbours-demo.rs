// Finding C13/predict-no-neighbours-is-noise: a query row with no training point within eps must be labelled noise (-1).
use smartcore::cluster::dbscan::*;
use smartcore::linalg::naive::dense_matrix::DenseMatrix;
use smartcore::math::distance::Distances;
#[test]
fn predict_row_without_neighbours_is_noise() {
    let x = DenseMatrix::from_2d_array(&[&[0.0, 0.0], &[0.1, 0.0], &[0.0, 0.1], &[0.1, 0.1]]);
    let model = DBSCAN::fit(&x, DBSCANParameters::default().with_eps(0.5).with_min_samples(2)).unwrap();
    let q = DenseMatrix::from_2d_array(&[&[100.0, 100.0]]);
    let label: Vec<f64> = model.predict(&q).unwrap();
    assert_eq!(label, vec![-1.0], "no training point within eps of (100,100): must be noise");
}
