// ---------------------------------------------------------------------------------------------
// prelude/realnumber.rs -- stand-in for crate::math::num::RealNumber (+ the num_traits::Float /
// FromPrimitive supertrait methods the verified bodies use), flattened into one trait.
// ASSUME[A-ABS] arithmetic on T is uninterpreted: +,-,*,/ are the vstd `*_spec` functions; nothing is
//   known about them except that the executable operator returns exactly that spec value.
// ASSUME[A-OPS-TOTAL] operators on T have no failing precondition and agree with their spec functions
//   (true for f32/f64: IEEE operations are total).
// ASSUME[A-REALNUMBER-TRAIT] the named constants/conversions/functions return their spec values
//   (from_usize/from_i64 never return None for f32/f64).
// ---------------------------------------------------------------------------------------------
pub trait RealNumber: Copy + Sized + PartialEq + PartialOrd
    + Add<Output = Self> + Sub<Output = Self> + Mul<Output = Self> + Div<Output = Self> + Neg<Output = Self>
    + AddAssign + SubAssign + MulAssign + DivAssign
{
    proof fn ops_total()
        ensures
            forall|a: Self, b: Self| #[trigger] a.add_req(b),
            forall|a: Self, b: Self| #[trigger] a.sub_req(b),
            forall|a: Self, b: Self| #[trigger] a.mul_req(b),
            forall|a: Self, b: Self| #[trigger] a.div_req(b),
            forall|a: Self| #[trigger] a.neg_req(),
            forall|a: Self, b: Self| #[trigger] a.add_assign_req(b),
            forall|a: Self, b: Self| #[trigger] a.sub_assign_req(b),
            forall|a: Self, b: Self| #[trigger] a.mul_assign_req(b),
            forall|a: Self, b: Self| #[trigger] a.div_assign_req(b),
            Self::obeys_add_spec(), Self::obeys_sub_spec(), Self::obeys_mul_spec(), Self::obeys_div_spec(),
            Self::obeys_neg_spec(),
            Self::obeys_add_assign_spec(), Self::obeys_sub_assign_spec(), Self::obeys_mul_assign_spec(),
            Self::obeys_div_assign_spec(),
            Self::obeys_eq_spec(), Self::obeys_partial_cmp_spec(),
            // compound assignment is the binary operator (true for f32/f64)
            forall|a: Self, b: Self| *(#[trigger] a.add_assign_spec(b)) == a.add_spec(b),
            forall|a: Self, b: Self| *(#[trigger] a.sub_assign_spec(b)) == a.sub_spec(b),
            forall|a: Self, b: Self| *(#[trigger] a.mul_assign_spec(b)) == a.mul_spec(b),
            forall|a: Self, b: Self| *(#[trigger] a.div_assign_spec(b)) == a.div_spec(b);

    spec fn zero_spec() -> Self;
    spec fn one_spec() -> Self;
    spec fn two_spec() -> Self;
    spec fn half_spec() -> Self;
    spec fn infinity_spec() -> Self;
    spec fn neg_infinity_spec() -> Self;
    spec fn max_value_spec() -> Self;
    spec fn epsilon_spec() -> Self;
    spec fn from_i64_spec(x: i64) -> Self;
    spec fn from_usize_spec(x: usize) -> Self;
    spec fn from_f64_spec(x: f64) -> Self;
    spec fn abs_spec(self) -> Self;
    spec fn sqrt_spec(self) -> Self;
    spec fn powf_spec(self, p: Self) -> Self;
    spec fn powi_spec(self, p: i32) -> Self;
    spec fn exp_spec(self) -> Self;
    spec fn ln_spec(self) -> Self;
    spec fn tanh_spec(self) -> Self;
    spec fn max_spec(self, o: Self) -> Self;
    spec fn min_spec(self, o: Self) -> Self;
    spec fn is_nan_spec(self) -> bool;
    spec fn to_usize_spec(self) -> Option<usize>;

    fn zero() -> (r: Self) ensures r == Self::zero_spec();
    fn one() -> (r: Self) ensures r == Self::one_spec();
    fn two() -> (r: Self) ensures r == Self::two_spec();
    fn half() -> (r: Self) ensures r == Self::half_spec();
    fn infinity() -> (r: Self) ensures r == Self::infinity_spec();
    fn neg_infinity() -> (r: Self) ensures r == Self::neg_infinity_spec();
    fn max_value() -> (r: Self) ensures r == Self::max_value_spec();
    fn epsilon() -> (r: Self) ensures r == Self::epsilon_spec();
    fn from_i64(x: i64) -> (r: Option<Self>) ensures r == Some(Self::from_i64_spec(x));
    fn from_usize(x: usize) -> (r: Option<Self>) ensures r == Some(Self::from_usize_spec(x));
    fn from_f64(x: f64) -> (r: Option<Self>) ensures r == Some(Self::from_f64_spec(x));
    fn abs(self) -> (r: Self) ensures r == self.abs_spec();
    fn sqrt(self) -> (r: Self) ensures r == self.sqrt_spec();
    fn powf(self, p: Self) -> (r: Self) ensures r == self.powf_spec(p);
    fn powi(self, p: i32) -> (r: Self) ensures r == self.powi_spec(p);
    fn exp(self) -> (r: Self) ensures r == self.exp_spec();
    fn ln(self) -> (r: Self) ensures r == self.ln_spec();
    fn tanh(self) -> (r: Self) ensures r == self.tanh_spec();
    fn max(self, o: Self) -> (r: Self) ensures r == self.max_spec(o);
    fn min(self, o: Self) -> (r: Self) ensures r == self.min_spec(o);
    fn is_nan(self) -> (r: bool) ensures r == self.is_nan_spec();
    fn to_usize(self) -> (r: Option<usize>) ensures r == self.to_usize_spec();
    // added for C17 (Minkowski): FromPrimitive::from_u16
    spec fn from_u16_spec(x: u16) -> Self;
    fn from_u16(x: u16) -> (r: Option<Self>) ensures r == Some(Self::from_u16_spec(x));
    // added for C10 (SVC optimiser): Float::min_value
    spec fn min_value_spec() -> Self;
    fn min_value() -> (r: Self) ensures r == Self::min_value_spec();
    // added for C13 (DBSCAN::predict): num_traits::NumCast::from, called as `T::from(class)` with class: usize
    // (covered by A-REALNUMBER-TRAIT: never None for f32/f64; the value is uninterpreted per source type N)
    spec fn from_spec<N>(n: N) -> Self;
    fn from<N>(n: N) -> (r: Option<Self>) ensures r == Some(Self::from_spec(n));
    // added for C12 (KMeans::fit: `T::from(sums[i][j])` with sums[i][j]: T): NumCast::from applied to a value of the
    // SAME type returns that value (f32 -> f32 / f64 -> f64 is `*self as Self`; covered by A-REALNUMBER-TRAIT)
    proof fn from_self_is_identity()
        ensures forall|x: Self| #[trigger] Self::from_spec::<Self>(x) == x;


    // ---- the rest of the num_traits::Float / RealNumber API, each an uninterpreted function of its arguments (A-REALNUMBER-TRAIT):
    // present so that a change which starts using one of them is still readable by Verus (and then fails the contract it breaks)
    spec fn signum_spec(self) -> Self;
    fn signum(self) -> (r: Self) ensures r == self.signum_spec();
    spec fn floor_spec(self) -> Self;
    fn floor(self) -> (r: Self) ensures r == self.floor_spec();
    spec fn ceil_spec(self) -> Self;
    fn ceil(self) -> (r: Self) ensures r == self.ceil_spec();
    spec fn round_spec(self) -> Self;
    fn round(self) -> (r: Self) ensures r == self.round_spec();
    spec fn trunc_spec(self) -> Self;
    fn trunc(self) -> (r: Self) ensures r == self.trunc_spec();
    spec fn fract_spec(self) -> Self;
    fn fract(self) -> (r: Self) ensures r == self.fract_spec();
    spec fn recip_spec(self) -> Self;
    fn recip(self) -> (r: Self) ensures r == self.recip_spec();
    spec fn exp2_spec(self) -> Self;
    fn exp2(self) -> (r: Self) ensures r == self.exp2_spec();
    spec fn exp_m1_spec(self) -> Self;
    fn exp_m1(self) -> (r: Self) ensures r == self.exp_m1_spec();
    spec fn ln_1p_spec(self) -> Self;
    fn ln_1p(self) -> (r: Self) ensures r == self.ln_1p_spec();
    spec fn log2_spec(self) -> Self;
    fn log2(self) -> (r: Self) ensures r == self.log2_spec();
    spec fn log10_spec(self) -> Self;
    fn log10(self) -> (r: Self) ensures r == self.log10_spec();
    spec fn cbrt_spec(self) -> Self;
    fn cbrt(self) -> (r: Self) ensures r == self.cbrt_spec();
    spec fn sin_spec(self) -> Self;
    fn sin(self) -> (r: Self) ensures r == self.sin_spec();
    spec fn cos_spec(self) -> Self;
    fn cos(self) -> (r: Self) ensures r == self.cos_spec();
    spec fn tan_spec(self) -> Self;
    fn tan(self) -> (r: Self) ensures r == self.tan_spec();
    spec fn asin_spec(self) -> Self;
    fn asin(self) -> (r: Self) ensures r == self.asin_spec();
    spec fn acos_spec(self) -> Self;
    fn acos(self) -> (r: Self) ensures r == self.acos_spec();
    spec fn atan_spec(self) -> Self;
    fn atan(self) -> (r: Self) ensures r == self.atan_spec();
    spec fn sinh_spec(self) -> Self;
    fn sinh(self) -> (r: Self) ensures r == self.sinh_spec();
    spec fn cosh_spec(self) -> Self;
    fn cosh(self) -> (r: Self) ensures r == self.cosh_spec();
    spec fn asinh_spec(self) -> Self;
    fn asinh(self) -> (r: Self) ensures r == self.asinh_spec();
    spec fn acosh_spec(self) -> Self;
    fn acosh(self) -> (r: Self) ensures r == self.acosh_spec();
    spec fn atanh_spec(self) -> Self;
    fn atanh(self) -> (r: Self) ensures r == self.atanh_spec();
    spec fn to_degrees_spec(self) -> Self;
    fn to_degrees(self) -> (r: Self) ensures r == self.to_degrees_spec();
    spec fn to_radians_spec(self) -> Self;
    fn to_radians(self) -> (r: Self) ensures r == self.to_radians_spec();
    spec fn ln_1pe_spec(self) -> Self;
    fn ln_1pe(self) -> (r: Self) ensures r == self.ln_1pe_spec();
    spec fn sigmoid_spec(self) -> Self;
    fn sigmoid(self) -> (r: Self) ensures r == self.sigmoid_spec();
    spec fn log_spec(self, o: Self) -> Self;
    fn log(self, o: Self) -> (r: Self) ensures r == self.log_spec(o);
    spec fn hypot_spec(self, o: Self) -> Self;
    fn hypot(self, o: Self) -> (r: Self) ensures r == self.hypot_spec(o);
    spec fn atan2_spec(self, o: Self) -> Self;
    fn atan2(self, o: Self) -> (r: Self) ensures r == self.atan2_spec(o);
    spec fn abs_sub_spec(self, o: Self) -> Self;
    fn abs_sub(self, o: Self) -> (r: Self) ensures r == self.abs_sub_spec(o);
    spec fn copysign_spec(self, o: Self) -> Self;
    fn copysign(self, o: Self) -> (r: Self) ensures r == self.copysign_spec(o);
    spec fn is_infinite_spec(self) -> bool;
    fn is_infinite(self) -> (r: bool) ensures r == self.is_infinite_spec();
    spec fn is_finite_spec(self) -> bool;
    fn is_finite(self) -> (r: bool) ensures r == self.is_finite_spec();
    spec fn is_normal_spec(self) -> bool;
    fn is_normal(self) -> (r: bool) ensures r == self.is_normal_spec();
    spec fn is_sign_positive_spec(self) -> bool;
    fn is_sign_positive(self) -> (r: bool) ensures r == self.is_sign_positive_spec();
    spec fn is_sign_negative_spec(self) -> bool;
    fn is_sign_negative(self) -> (r: bool) ensures r == self.is_sign_negative_spec();
    spec fn mul_add_spec(self, a: Self, b: Self) -> Self;
    fn mul_add(self, a: Self, b: Self) -> (r: Self) ensures r == self.mul_add_spec(a, b);
    spec fn to_f64_spec(self) -> Option<f64>;
    fn to_f64(self) -> (r: Option<f64>) ensures r == self.to_f64_spec();
    spec fn to_i64_spec(self) -> Option<i64>;
    fn to_i64(self) -> (r: Option<i64>) ensures r == self.to_i64_spec();
    spec fn nan_spec() -> Self;
    fn nan() -> (r: Self) ensures r == Self::nan_spec();
    spec fn min_positive_value_spec() -> Self;
    fn min_positive_value() -> (r: Self) ensures r == Self::min_positive_value_spec();

    // crate::math::num::RealNumber::square has a default body in /repo: extracted verbatim
//@extract src/math/num.rs :: pub trait RealNumber: Float + FromPrimitive + Debug + Display + Copy + Sum + Product + AddAssign + SubAssign + MulAssign + DivAssign :: square :: ret=r canary=no
//@spec
        ensures r == self.mul_spec(self)
//@enter
        proof { Self::ops_total(); }
//@end
}

// rejection variant (X5): `panic!(..)` is replaced by a call to this diverging function
// ASSUME[X5-REJECT] a call to verif_reject() never returns (it stands for panic!)
#[verifier::external_body]
fn verif_reject() -> !
    ensures false
{ panic!() }
