// prelude/hashmap_uses.rs -- imports for units over std::collections::HashMap (vstd model: `m@` : Map<K, V>,
// valid under `obeys_key_model::<K>()`); include after prelude/uses.rs, before `verus! {`
use vstd::std_specs::hash::*;
use vstd::std_specs::iter::*;
use std::collections::HashMap;
use std::hash::Hash;
