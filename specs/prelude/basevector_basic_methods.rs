// methods of crate::linalg::BaseVector<T> that generic callers use (shared by basevector.rs and basevector_full.rs)
    spec fn vview(&self) -> Seq<T>;
//@checkdecl src/linalg/mod.rs :: pub trait BaseVector<T: RealNumber>: Clone + Debug :: get :: fn get(&self, i: usize) -> T
    fn get(&self, i: usize) -> (r: T)
        requires i < self.vview().len(),
        ensures r == self.vview()[i as int];
//@checkdecl src/linalg/mod.rs :: pub trait BaseVector<T: RealNumber>: Clone + Debug :: len :: fn len(&self) -> usize
    fn len(&self) -> (r: usize)
        ensures r == self.vview().len();
//@checkdecl src/linalg/mod.rs :: pub trait BaseVector<T: RealNumber>: Clone + Debug :: set :: fn set(&mut self, i: usize, x: T)
    fn set(&mut self, i: usize, x: T)
        requires i < old(self).vview().len(),
        ensures final(self).vview() == old(self).vview().update(i as int, x);
    // ASSUME[A-BASEVECTOR-ZEROS] `zeros(len)` is the all-zero vector of length len (part of the trait contract;
    //   to be discharged for Vec<T> with the other BaseVector methods in C03, assumed for the other backends)
//@checkdecl src/linalg/mod.rs :: pub trait BaseVector<T: RealNumber>: Clone + Debug :: zeros :: fn zeros(len: usize) -> Self
    fn zeros(len: usize) -> (r: Self)
        ensures
            r.vview().len() == len,
            forall|i: int| 0 <= i < len ==> #[trigger] r.vview()[i] == T::zero_spec();
//@checkdecl src/linalg/mod.rs :: pub trait BaseVector<T: RealNumber>: Clone + Debug :: to_vec :: fn to_vec(&self) -> Vec<T>
    // added for C15 (AUC): copy of the elements as a Vec
    fn to_vec(&self) -> (r: Vec<T>)
        ensures r@ == self.vview();
