// ---------------------------------------------------------------------------------------------
// prelude/mahalanobis_defs.rs -- closed form of the Mahalanobis distance over an abstract matrix
// (prelude/matrix_abs.rs):  sqrt( sum_{j<n} sum_{i<n} S[i,j] * z_i * z_j ),  z = a - b,  S = `sigmaInv`.
// One running sum over the pairs (j, i) in lexicographic order (A-ABS fixes the order of the additions).
// ---------------------------------------------------------------------------------------------
pub open spec fn vec_diff<T: RealNumber>(a: Seq<T>, b: Seq<T>) -> Seq<T> {
    Seq::new(a.len(), |i: int| a[i].sub_spec(b[i]))
}
// acc + sum_{i<m} S[i,j] * z_i * z_j
pub open spec fn maha_col<T: RealNumber, M: Matrix<T>>(s: &M, z: Seq<T>, j: int, m: int, acc: T) -> T
    decreases m
{
    if m <= 0 { acc } else {
        maha_col(s, z, j, m - 1, acc).add_spec(s.at(m - 1, j).mul_spec(z[m - 1]).mul_spec(z[j]))
    }
}
// sum_{j<k} sum_{i<n} S[i,j] * z_i * z_j
pub open spec fn maha_sum<T: RealNumber, M: Matrix<T>>(s: &M, z: Seq<T>, n: int, k: int) -> T
    decreases k
{
    if k <= 0 { T::zero_spec() } else { maha_col(s, z, k - 1, n, maha_sum(s, z, n, k - 1)) }
}
pub open spec fn mahalanobis<T: RealNumber, M: Matrix<T>>(s: &M, a: Seq<T>, b: Seq<T>) -> T {
    maha_sum(s, vec_diff(a, b), a.len() as int, a.len() as int).sqrt_spec()
}
