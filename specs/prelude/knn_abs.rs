// ---------------------------------------------------------------------------------------------
// prelude/knn_abs.rs -- stand-ins for crate::algorithm::neighbour::{KNNAlgorithmName, KNNAlgorithm}
// as seen by callers of the radius search (DBSCAN).  Needs realnumber.rs, order.rs, distance.rs, error.rs.
//
// The search backend (linear scan / cover tree) enters the callers' proofs ONLY through the contract of
// `find_radius` below, which is stated over a relation that does not mention the backend:
//     within_eps(d, q, r, p)   "the distance d between query q and data point p is at most r"
// so everything proved about a caller holds for either backend (and is the same statement for both).
// ---------------------------------------------------------------------------------------------

// ASSUME[A-FIND-RADIUS] the relation the radius search decides: dist_d(q, p) <= r (rows as sequences); uninterpreted here
pub uninterp spec fn within_eps<T: RealNumber, D: Distance<Vec<T>, T>>(d: D, q: Seq<T>, r: T, p: Seq<T>) -> bool;

//@struct src/algorithm/neighbour/mod.rs :: KNNAlgorithmName

// stand-in for the two-variant enum of /repo: the metric and the stored points are what both variants hold
pub struct KNNAlgorithm<T: RealNumber, D: Distance<Vec<T>, T>> {
    pub distance: D,
    pub data: Vec<Vec<T>>,
}

impl<T: RealNumber, D: Distance<Vec<T>, T>> KNNAlgorithm<T, D> {
    pub open spec fn npoints(&self) -> int { self.data@.len() as int }
    pub open spec fn point(&self, j: int) -> Seq<T> { self.data@[j]@ }
    // data point j lies within `radius` of the query
    pub open spec fn within(&self, q: Seq<T>, radius: T, j: int) -> bool {
        within_eps(self.distance, q, radius, self.point(j))
    }
    // v lists exactly the indices j < npoints with within(q, radius, j), each once (in any order: the two
    // backends order differently), each together with a reference to the stored point
    pub open spec fn radius_answer(&self, q: Seq<T>, radius: T, v: Seq<(usize, T, &Vec<T>)>) -> bool {
        &&& forall|a: int| 0 <= a < v.len() ==> {
                &&& 0 <= (#[trigger] v[a]).0 < self.npoints()
                &&& self.within(q, radius, v[a].0 as int)
                &&& (*v[a].2)@ == self.point(v[a].0 as int)
            }
        &&& forall|a: int, b: int| 0 <= a < b < v.len() ==> (#[trigger] v[a]).0 != (#[trigger] v[b]).0
        &&& forall|j: int| 0 <= j < self.npoints() && #[trigger] self.within(q, radius, j)
                ==> exists|a: int| 0 <= a < v.len() && (#[trigger] v[a]).0 == j
    }

//@checkdecl src/algorithm/neighbour/mod.rs :: impl<T: RealNumber, D: Distance<Vec<T>, T>> KNNAlgorithm<T, D> :: find_radius :: fn find_radius( &self, from: &Vec<T>, radius: T, ) -> Result<Vec<(usize, T, &Vec<T>)>, Failed>
    // ASSUME[A-FIND-RADIUS] contract of the radius search of either backend (proved for LinearKNNSearch::find_radius in
    //   C04/linear_radius with within = `le(dist_spec(from, data[j]), radius)`; for CoverTree relative to tree_wf in C04)
    #[verifier::external_body]
    pub fn find_radius(&self, from: &Vec<T>, radius: T) -> (r: Result<Vec<(usize, T, &Vec<T>)>, Failed>)
        ensures
            r is Err <==> le(radius, T::zero_spec()),
            r is Ok ==> self.radius_answer(from@, radius, r->Ok_0@),
    { unimplemented!() }
}

impl KNNAlgorithmName {
//@checkdecl src/algorithm/neighbour/mod.rs :: impl KNNAlgorithmName :: fit :: fn fit<T: RealNumber, D: Distance<Vec<T>, T>>( &self, data: Vec<Vec<T>>, distance: D, ) -> Result<KNNAlgorithm<T, D>, Failed>
    // ASSUME[A-KNN-FIT] building either backend stores the given points (in order) and the given metric
    //   (LinearKNNSearch::new: proved in C04/linear_radius `new-stores-data-and-metric`; CoverTree::new: assumed)
    #[verifier::external_body]
    pub fn fit<T: RealNumber, D: Distance<Vec<T>, T>>(&self, data: Vec<Vec<T>>, distance: D) -> (r: Result<KNNAlgorithm<T, D>, Failed>)
        ensures
            r is Ok ==> {
                &&& r->Ok_0.distance == distance
                &&& r->Ok_0.data@.len() == data@.len()
                &&& forall|j: int| 0 <= j < data@.len() ==> (#[trigger] r->Ok_0.data@[j])@ == data@[j]@
            },
    { unimplemented!() }
}
