// ---------------------------------------------------------------------------------------------
// prelude/error.rs -- stand-ins for crate::error::{Failed, FailedError}.  Error *values* are irrelevant to
// every contract (only Ok / Err matters), so `Failed` is opaque and its constructors are unspecified.
// ---------------------------------------------------------------------------------------------
//@struct src/error/mod.rs :: FailedError
// ASSUME[A-FAILED-OPAQUE] crate::error::Failed is an opaque error value; its constructors return normally and have no other effect
#[verifier::external_body]
pub struct Failed { _opaque: () }
impl Failed {
//@checkdecl src/error/mod.rs :: impl Failed :: because :: fn because(err: FailedError, msg: &str) -> Self
    // ASSUME[A-FAILED-OPAQUE]
    #[verifier::external_body]
    pub fn because(err: FailedError, msg: &str) -> Self { unimplemented!() }
//@checkdecl src/error/mod.rs :: impl Failed :: fit :: fn fit(msg: &str) -> Self
    // ASSUME[A-FAILED-OPAQUE]
    #[verifier::external_body]
    pub fn fit(msg: &str) -> Self { unimplemented!() }
//@checkdecl src/error/mod.rs :: impl Failed :: predict :: fn predict(msg: &str) -> Self
    // ASSUME[A-FAILED-OPAQUE]
    #[verifier::external_body]
    pub fn predict(msg: &str) -> Self { unimplemented!() }
//@checkdecl src/error/mod.rs :: impl Failed :: transform :: fn transform(msg: &str) -> Self
    // ASSUME[A-FAILED-OPAQUE]
    #[verifier::external_body]
    pub fn transform(msg: &str) -> Self { unimplemented!() }
}
