// ---------------------------------------------------------------------------------------------
// prelude/matrix_abs2.rs -- stand-in for crate::linalg::{BaseMatrix<T>, Matrix<T>} (flattened into one
// trait) as seen by code that is generic over `M: Matrix<T>` and reads *and builds* matrices: matrix_abs.rs
// plus the associated `RowVector` type and `zeros`, `set`, `copy_row_as_vec`, `get_row_as_vec`,
// `to_row_vector`.  Needs prelude/realnumber.rs and prelude/basevector.rs.  Do not include together with
// matrix_abs.rs (same trait name).
// ASSUME[A-MATRIX-TRAIT] generic callers are verified against this trait contract only (abstract shape,
//   abstract cell accessor `at(r, c)`).  For DenseMatrix<T> get/shape/set/zeros(fill) are the contracts
//   proved in C03 (mwf = wf); for ndarray/nalgebra it is an assumption.
// ASSUME[A-MATRIX-TRAIT2] the contracts of zeros / set / copy_row_as_vec / get_row_as_vec / to_row_vector below.
// ---------------------------------------------------------------------------------------------
pub trait Matrix<T: RealNumber>: Sized {
    // /repo: `type RowVector: BaseVector<T> + Clone + Debug;` (//@checkdecl covers fn declarations only)
    type RowVector: BaseVector<T>;

    spec fn mwf(&self) -> bool;          // representation invariant of the backend
    spec fn nrows_spec(&self) -> int;
    spec fn ncols_spec(&self) -> int;
    spec fn at(&self, r: int, c: int) -> T;

//@checkdecl src/linalg/mod.rs :: pub trait BaseMatrix<T: RealNumber>: Clone + Debug :: get :: fn get(&self, row: usize, col: usize) -> T
    fn get(&self, row: usize, col: usize) -> (v: T)
        requires self.mwf(), row < self.nrows_spec(), col < self.ncols_spec(),
        ensures v == self.at(row as int, col as int);
//@checkdecl src/linalg/mod.rs :: pub trait BaseMatrix<T: RealNumber>: Clone + Debug :: shape :: fn shape(&self) -> (usize, usize)
    fn shape(&self) -> (s: (usize, usize))
        ensures s.0 == self.nrows_spec(), s.1 == self.ncols_spec();
//@checkdecl src/linalg/mod.rs :: pub trait BaseMatrix<T: RealNumber>: Clone + Debug :: zeros :: fn zeros(nrows: usize, ncols: usize) -> Self
    // the nrows x ncols matrix of zeros
    fn zeros(nrows: usize, ncols: usize) -> (r: Self)
        requires nrows * ncols <= usize::MAX,     // the element count must be representable (DenseMatrix allocates nrows*ncols)
        ensures
            r.mwf(), r.nrows_spec() == nrows, r.ncols_spec() == ncols,
            forall|i: int, j: int| 0 <= i < nrows && 0 <= j < ncols ==> #[trigger] r.at(i, j) == T::zero_spec();
//@checkdecl src/linalg/mod.rs :: pub trait BaseMatrix<T: RealNumber>: Clone + Debug :: set :: fn set(&mut self, row: usize, col: usize, x: T)
    // cell (row, col) becomes x, every other (in-range) cell and the shape are unchanged
    fn set(&mut self, row: usize, col: usize, x: T)
        requires old(self).mwf(), row < old(self).nrows_spec(), col < old(self).ncols_spec(),
        ensures
            final(self).mwf(),
            final(self).nrows_spec() == old(self).nrows_spec(), final(self).ncols_spec() == old(self).ncols_spec(),
            forall|i: int, j: int| 0 <= i < old(self).nrows_spec() && 0 <= j < old(self).ncols_spec()
                ==> #[trigger] final(self).at(i, j) == (if i == row && j == col { x } else { old(self).at(i, j) });   // in-range cells only
//@checkdecl src/linalg/mod.rs :: pub trait BaseMatrix<T: RealNumber>: Clone + Debug :: copy_row_as_vec :: fn copy_row_as_vec(&self, row: usize, result: &mut Vec<T>)
    // `result` (of length ncols) receives row `row`
    fn copy_row_as_vec(&self, row: usize, result: &mut Vec<T>)
        requires self.mwf(), row < self.nrows_spec(), old(result)@.len() == self.ncols_spec(),
        ensures
            final(result)@.len() == self.ncols_spec(),
            forall|c: int| 0 <= c < self.ncols_spec() ==> #[trigger] final(result)@[c] == self.at(row as int, c);   // i.e. final(result)@ =~= row_view(self, row)
//@checkdecl src/linalg/mod.rs :: pub trait BaseMatrix<T: RealNumber>: Clone + Debug :: get_row_as_vec :: fn get_row_as_vec(&self, row: usize) -> Vec<T>
    fn get_row_as_vec(&self, row: usize) -> (r: Vec<T>)
        requires self.mwf(), row < self.nrows_spec(),
        ensures
            r@.len() == self.ncols_spec(),
            forall|c: int| 0 <= c < self.ncols_spec() ==> #[trigger] r@[c] == self.at(row as int, c);   // i.e. r@ =~= row_view(self, row)
//@checkdecl src/linalg/mod.rs :: pub trait BaseMatrix<T: RealNumber>: Clone + Debug :: to_row_vector :: fn to_row_vector(self) -> Self::RowVector
    // a 1 x m matrix read as a vector of length m
    fn to_row_vector(self) -> (r: Self::RowVector)
        requires self.mwf(), self.nrows_spec() == 1,
        ensures
            r.vview().len() == self.ncols_spec(),
            forall|c: int| 0 <= c < self.ncols_spec() ==> #[trigger] r.vview()[c] == self.at(0, c);   // i.e. r.vview() =~= row_view(&self, 0)
}


// row r of the matrix as a sequence (a free fn: the trait's contracts cannot mention it -- Verus reports a definition cycle --
// so they are stated element-wise; callers get `v@ =~= row_view(m, r)` from them)
pub open spec fn row_view<T: RealNumber, M: Matrix<T>>(m: &M, r: int) -> Seq<T> {
    Seq::new(m.ncols_spec() as nat, |c: int| m.at(r, c))
}
