// ---------------------------------------------------------------------------------------------
// prelude/dm_core.rs -- DenseMatrix<T>: struct copied from /repo, representation function, index
// lemmas, and the core accessors (new/get/set/fill/zeros/ones/shape) EXTRACTED AND PROVED in every
// unit that includes this file (no assumed stubs).
// X9: methods of `impl BaseMatrix<T> for DenseMatrix<T>` are emitted inside an inherent
//     `impl<T: RealNumber> DenseMatrix<T>` block (Verus forbids `requires` on trait-impl methods);
//     `Self::zeros(..)`, `self.get(..)` in extracted bodies then resolve to the sibling extracted fn,
//     which is the function trait dispatch selects for DenseMatrix<T> in /repo.
// ---------------------------------------------------------------------------------------------
//@struct src/linalg/naive/dense_matrix.rs :: DenseMatrix

pub proof fn lemma_idx(r: int, c: int, nr: int, nc: int)
    requires 0 <= r < nr, 0 <= c < nc,
    ensures 0 <= c * nr + r < nr * nc, 0 <= c * nr + r < nc * nr,
{
    assert(c * nr + r < nr * nc) by(nonlinear_arith) requires 0 <= r < nr, 0 <= c < nc;
    assert(0 <= c * nr) by(nonlinear_arith) requires 0 <= c, 0 <= nr;
    assert(nr * nc == nc * nr) by(nonlinear_arith);
}
pub proof fn lemma_idx_inj(r: int, c: int, r2: int, c2: int, nr: int)
    requires 0 <= r < nr, 0 <= r2 < nr, 0 <= c, 0 <= c2, c * nr + r == c2 * nr + r2,
    ensures r == r2, c == c2,
{
    assert(c == c2) by(nonlinear_arith)
        requires 0 <= r < nr, 0 <= r2 < nr, 0 <= c, 0 <= c2, c * nr + r == c2 * nr + r2;
}
// column-major decomposition of a flat index
pub proof fn lemma_idx_decomp(i: int, nr: int, nc: int)
    requires 0 <= i < nr * nc, nr > 0,
    ensures 0 <= i % nr < nr, 0 <= i / nr < nc, (i / nr) * nr + (i % nr) == i,
{
    assert(0 <= i % nr < nr && (i / nr) * nr + (i % nr) == i && 0 <= i / nr) by(nonlinear_arith) requires 0 <= i, nr > 0;
    assert(i / nr < nc) by(nonlinear_arith) requires 0 <= i < nr * nc, nr > 0, (i / nr) * nr + (i % nr) == i, 0 <= i % nr;
}

impl<T: RealNumber> DenseMatrix<T> {
    // representation invariant and the logical (row, col) view of the column-major storage
    spec fn wf(&self) -> bool { self.values.len() == self.nrows * self.ncols }
    spec fn at(&self, r: int, c: int) -> T { self.values[c * self.nrows + r] }
    // same logical content
    spec fn same_as(&self, o: &Self) -> bool {
        self.nrows == o.nrows && self.ncols == o.ncols
        && forall|r: int, c: int| 0 <= r < self.nrows && 0 <= c < self.ncols ==> self.at(r, c) == o.at(r, c)
    }

//@extract src/linalg/naive/dense_matrix.rs :: impl<T: RealNumber> DenseMatrix<T> :: new :: ret=m
//@spec
        ensures m.nrows == nrows, m.ncols == ncols, m.values == values,
//@end

//@extract src/linalg/naive/dense_matrix.rs :: impl<T: RealNumber> BaseMatrix<T> for DenseMatrix<T> :: get :: ret=v
//@spec
        requires self.wf(), row < self.nrows, col < self.ncols,
        ensures v == self.at(row as int, col as int), //# get-reads-logical-cell
//@enter
        proof { lemma_idx(row as int, col as int, self.nrows as int, self.ncols as int); }
//@end

//@extract src/linalg/naive/dense_matrix.rs :: impl<T: RealNumber> BaseMatrix<T> for DenseMatrix<T> :: set
//@spec
        requires old(self).wf(), row < old(self).nrows, col < old(self).ncols,
        ensures
            final(self).wf(), final(self).nrows == old(self).nrows, final(self).ncols == old(self).ncols,
            final(self).at(row as int, col as int) == x, //# set-writes-logical-cell
            forall|r: int, c: int| 0 <= r < old(self).nrows && 0 <= c < old(self).ncols && !(r == row && c == col)
                ==> final(self).at(r, c) == old(self).at(r, c), //# set-frame
//@enter
        proof { lemma_idx(row as int, col as int, self.nrows as int, self.ncols as int); }
        let ghost pre = *self;
//@exit
        proof {
            assert forall|r: int, c: int| 0 <= r < pre.nrows && 0 <= c < pre.ncols && !(r == row && c == col)
                implies #[trigger] self.at(r, c) == pre.at(r, c) by {
                if c * pre.nrows + r == col * pre.nrows + row { lemma_idx_inj(r, c, row as int, col as int, pre.nrows as int); }
                lemma_idx(r, c, pre.nrows as int, pre.ncols as int);
            }
        }
//@end

//@extract src/linalg/naive/dense_matrix.rs :: impl<T: RealNumber> BaseMatrix<T> for DenseMatrix<T> :: fill :: ret=m
//@spec
        requires nrows * ncols <= usize::MAX,
        ensures m.wf(), m.nrows == nrows, m.ncols == ncols,
            forall|r: int, c: int| 0 <= r < nrows && 0 <= c < ncols ==> #[trigger] m.at(r, c) == value, //# fill-every-cell
//@enter
        broadcast use axiom_clone_realnumber;
        proof { assert(ncols * nrows == nrows * ncols) by(nonlinear_arith); }
        let ghost gn = nrows as int; let ghost gc = ncols as int;
        proof {
            assert forall|r: int, c: int| 0 <= r < gn && 0 <= c < gc implies 0 <= #[trigger] (c * gn + r) < gn * gc by { lemma_idx(r, c, gn, gc); }
        }
//@end

//@extract src/linalg/naive/dense_matrix.rs :: impl<T: RealNumber> BaseMatrix<T> for DenseMatrix<T> :: zeros :: ret=m
//@spec
        requires nrows * ncols <= usize::MAX,
        ensures m.wf(), m.nrows == nrows, m.ncols == ncols,
            forall|r: int, c: int| 0 <= r < nrows && 0 <= c < ncols ==> #[trigger] m.at(r, c) == T::zero_spec(),
//@end

//@extract src/linalg/naive/dense_matrix.rs :: impl<T: RealNumber> BaseMatrix<T> for DenseMatrix<T> :: ones :: ret=m
//@spec
        requires nrows * ncols <= usize::MAX,
        ensures m.wf(), m.nrows == nrows, m.ncols == ncols,
            forall|r: int, c: int| 0 <= r < nrows && 0 <= c < ncols ==> #[trigger] m.at(r, c) == T::one_spec(),
//@end

//@extract src/linalg/naive/dense_matrix.rs :: impl<T: RealNumber> BaseMatrix<T> for DenseMatrix<T> :: shape :: ret=s
//@spec
        ensures s.0 == self.nrows, s.1 == self.ncols,
//@end
}
