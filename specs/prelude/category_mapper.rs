// ---------------------------------------------------------------------------------------------
// prelude/category_mapper.rs -- vocabulary of C18 (crate::preprocessing::series_encoder::CategoryMapper):
// the struct (copied from /repo) and its representation invariant.  Needs prelude/hashmap_uses.rs.
// ("sequence with later duplicates removed" is prelude/dedup_first.rs)
// No trusted construct in this file.
// ---------------------------------------------------------------------------------------------

// Precondition on the category type C (NOT an axiom: every contract that needs it lists it in `requires`):
// `clone` returns a value equal to its argument.  vstd specifies `clone` of a generic C only up to
// `call_ensures(C::clone, ..)`; true for every type whose Clone is derived / law-abiding (integers, &str, String, ..).
pub open spec fn clone_is_identity<C: Clone>() -> bool {
    forall|a: C, b: C| #[trigger] call_ensures(C::clone, (&a,), b) ==> a == b
}

//@struct src/preprocessing/series_encoder.rs :: CategoryMapper

impl<C> CategoryMapper<C>
where
    C: Hash + Eq + Clone,
{
    // representation invariant: `categories` is duplicate-free, `category_map` has exactly the keys
    // categories[i], mapped to i; `num_categories` is the number of categories
    spec fn wf(&self) -> bool {
        &&& self.num_categories == self.categories@.len()
        &&& self.categories@.no_duplicates()
        &&& forall|c: C| #![trigger self.category_map@.contains_key(c)] #![trigger self.categories@.contains(c)]
                self.category_map@.contains_key(c) <==> self.categories@.contains(c)
        &&& forall|i: int| 0 <= i < self.categories@.len() ==>
                self.category_map@.contains_key(#[trigger] self.categories@[i]) && self.category_map@[self.categories@[i]] == i
    }
}
