// ---------------------------------------------------------------------------------------------
// prelude/order.rs -- order on a generic T: PartialOrd in terms of vstd's partial_cmp_spec.
// The exec operators <, <=, >, >= on T return exactly lt/le/gt/ge below once
// `T::obeys_partial_cmp_spec()` is known (part of RealNumber::ops_total(), assumption A-OPS-TOTAL).
// NaN is *not* excluded by these definitions: a.partial_cmp_spec(&b) may be None, then all four are false.
// Where an algorithm needs a total order this is an explicit precondition (`total_on(..)`).
// ---------------------------------------------------------------------------------------------
pub open spec fn lt<T: PartialOrd>(a: T, b: T) -> bool { a.partial_cmp_spec(&b) == Some(Ordering::Less) }
pub open spec fn le<T: PartialOrd>(a: T, b: T) -> bool {
    a.partial_cmp_spec(&b) == Some(Ordering::Less) || a.partial_cmp_spec(&b) == Some(Ordering::Equal)
}
pub open spec fn gt<T: PartialOrd>(a: T, b: T) -> bool { a.partial_cmp_spec(&b) == Some(Ordering::Greater) }
pub open spec fn ge<T: PartialOrd>(a: T, b: T) -> bool {
    a.partial_cmp_spec(&b) == Some(Ordering::Greater) || a.partial_cmp_spec(&b) == Some(Ordering::Equal)
}

// ASSUME[TRUSTED-STD-ORDERING] core::cmp::Ordering's derived PartialEq is structural equality
#[verifier::external_body]
pub broadcast proof fn axiom_ordering_eq(a: Ordering, b: Ordering)
    ensures #[trigger] a.eq_spec(&b) == (a == b)
{}
// ASSUME[TRUSTED-STD-ORDERING] core::cmp::Ordering obeys the eq spec
#[verifier::external_body]
pub proof fn axiom_ordering_obeys()
    ensures Ordering::obeys_eq_spec()
{}
