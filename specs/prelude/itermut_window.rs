// ---------------------------------------------------------------------------------------------
// prelude/itermut_window.rs -- frame rule for `slice.iter_mut().take(j).skip(i)`.
// vstd specifies which references the adapter chain yields (IteratorSpec::remaining) but says nothing about
// the slice entries whose references are never handed to the loop body: those skipped by Skip (fetched from
// the inner iterator and dropped) and those cut off by Take (never fetched).
// Needs `use vstd::std_specs::iter::{IteratorSpec, take_iter, take_count, skip_iter, skip_init_n}` and
// `use std::iter::{Skip, Take}; use std::slice::IterMut;` in the unit.
// ---------------------------------------------------------------------------------------------
// the adapter chain is in its initial state: it will yield exactly the window [i, j) of the references of the
// underlying IterMut
#[verifier::prophetic]
pub open spec fn itermut_window_fresh<'a, T>(s: Skip<Take<IterMut<'a, T>>>) -> bool {
    let im = take_iter(skip_iter(s));
    let i = skip_init_n(s) as int;
    let j = take_count(skip_iter(s)) as int;
    0 <= i <= j <= im.remaining().len() && s.remaining() == im.remaining().take(j).skip(i)
}
// ASSUME[TRUSTED-STD-ITERMUT-WINDOW] entries of a slice outside the window [i, j) are not changed through
//   `slice.iter_mut().take(j).skip(i)`: their references are dropped unused or never produced
#[verifier::external_body]
pub broadcast proof fn axiom_iter_mut_window_frame<'a, T>(s: Skip<Take<IterMut<'a, T>>>, k: int)
    requires
        itermut_window_fresh(s),
        0 <= k < take_iter(skip_iter(s)).remaining().len(),
        k < skip_init_n(s) || k >= take_count(skip_iter(s)),
    ensures
        *final(#[trigger] take_iter(skip_iter(s)).remaining()[k]) == *take_iter(skip_iter(s)).remaining()[k]
{}
