// ---------------------------------------------------------------------------------------------
// prelude/real.rs -- idealised real arithmetic (A-REAL): a ghost value `val: T -> real` and the axiom that the
// uninterpreted operators of prelude/realnumber.rs act on it as the mathematical operations.
// ASSUME[A-REAL] machine arithmetic on T read as real arithmetic on finite values: no rounding, no overflow,
//   no NaN/inf (every value of T has a real value).  Consistent (model: T = real, val = identity).  Facts proved
//   with it are facts about the FORMULA the code evaluates (prelude/distance_defs.rs), not about f32/f64 rounding.
// ---------------------------------------------------------------------------------------------
// ASSUME[A-REAL] the real value of a machine number
pub uninterp spec fn val<T: RealNumber>(x: T) -> real;

pub open spec fn rabs(x: real) -> real { if x >= 0real { x } else { -x } }
pub open spec fn rcmp(x: real, y: real) -> Option<Ordering> {
    if x < y { Some(Ordering::Less) } else if x == y { Some(Ordering::Equal) } else { Some(Ordering::Greater) }
}

// ASSUME[A-REAL] operators, constants, abs, sqrt, conversions from integers and comparisons agree with the reals
#[verifier::external_body]
pub proof fn axiom_real<T: RealNumber>()
    ensures
        forall|a: T, b: T| val(#[trigger] a.add_spec(b)) == val(a) + val(b),
        forall|a: T, b: T| val(#[trigger] a.sub_spec(b)) == val(a) - val(b),
        forall|a: T, b: T| val(#[trigger] a.mul_spec(b)) == val(a) * val(b),
        forall|a: T, b: T| val(b) != 0real ==> val(#[trigger] a.div_spec(b)) == val(a) / val(b),
        forall|a: T| val(#[trigger] a.neg_spec()) == -val(a),
        val(T::zero_spec()) == 0real,
        val(T::one_spec()) == 1real,
        forall|a: T| val(#[trigger] a.abs_spec()) == rabs(val(a)),
        // sqrt of a non-negative value is THE non-negative root
        forall|a: T| val(a) >= 0real ==> val(#[trigger] a.sqrt_spec()) >= 0real
            && val(a.sqrt_spec()) * val(a.sqrt_spec()) == val(a),
        // integer conversions are exact
        forall|k: i64| val(#[trigger] T::from_i64_spec(k)) == k as real,
        forall|k: usize| val(#[trigger] T::from_usize_spec(k)) == k as real,
        forall|k: u16| val(#[trigger] T::from_u16_spec(k)) == k as real,
        // == and the order on T are those of the values (no NaN)
        forall|a: T, b: T| #[trigger] a.eq_spec(&b) == (val(a) == val(b)),
        forall|a: T, b: T| #[trigger] a.partial_cmp_spec(&b) == rcmp(val(a), val(b)),
{}
