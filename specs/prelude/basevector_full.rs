// ---------------------------------------------------------------------------------------------
// prelude/basevector_full.rs -- the whole of crate::linalg::BaseVector<T> under contract (C03).
// Abstract methods carry the trait-level contract that `impl BaseVector<T> for Vec<T>` is verified against
// (unit C03/vec_basevector); the default methods are EXTRACTED from the trait in /repo and verified once,
// for every implementor, against the abstract contracts.
// ASSUME[A-CLONE-VIEW] an implementor's Clone copies the elements (clone preserves the view); proved for
//   Vec<T> from A-CLONE in C03/vec_basevector (clone_preserves_view there has a body).
// ---------------------------------------------------------------------------------------------
pub open spec fn vdot<T: RealNumber>(a: Seq<T>, b: Seq<T>, n: int) -> T decreases n {
    if n <= 0 { T::zero_spec() } else { vdot(a, b, n - 1).add_spec(a[n - 1].mul_spec(b[n - 1])) }
}
pub open spec fn vsum<T: RealNumber>(a: Seq<T>, n: int) -> T decreases n {
    if n <= 0 { T::zero_spec() } else { vsum(a, n - 1).add_spec(a[n - 1]) }
}
pub open spec fn vsumsq<T: RealNumber>(a: Seq<T>, n: int) -> T decreases n {
    if n <= 0 { T::zero_spec() } else { vsumsq(a, n - 1).add_spec(a[n - 1].mul_spec(a[n - 1])) }
}
// E[x^2] - E[x]^2 exactly as the code evaluates it (one pass: running sum and running sum of squares)
pub open spec fn vvar<T: RealNumber>(a: Seq<T>) -> T {
    let n = a.len() as int;
    let div = T::from_usize_spec(n as usize);
    vsumsq(a, n).div_spec(div).sub_spec(vsum(a, n).div_spec(div).powi_spec(2))
}
pub open spec fn vclose<T: RealNumber>(a: T, b: T, tol: T) -> bool { !gt(a.sub_spec(b).abs_spec(), tol) }

pub trait BaseVector<T: RealNumber>: Sized + Clone {
//@include prelude/basevector_basic_methods.rs

    proof fn clone_preserves_view()
        ensures forall|a: Self, b: Self| #[trigger] call_ensures(Self::clone, (&a,), b) ==> a.vview() == b.vview();

//@checkdecl src/linalg/mod.rs :: pub trait BaseVector<T: RealNumber>: Clone + Debug :: ones :: fn ones(len: usize) -> Self
    fn ones(len: usize) -> (r: Self)
        ensures r.vview().len() == len, forall|i: int| 0 <= i < len ==> #[trigger] r.vview()[i] == T::one_spec();
//@checkdecl src/linalg/mod.rs :: pub trait BaseVector<T: RealNumber>: Clone + Debug :: fill :: fn fill(len: usize, value: T) -> Self
    fn fill(len: usize, value: T) -> (r: Self)
        ensures r.vview().len() == len, forall|i: int| 0 <= i < len ==> #[trigger] r.vview()[i] == value;
//@checkdecl src/linalg/mod.rs :: pub trait BaseVector<T: RealNumber>: Clone + Debug :: dot :: fn dot(&self, other: &Self) -> T
    fn dot(&self, other: &Self) -> (r: T)
        requires self.vview().len() == other.vview().len(),
        ensures r == vdot(self.vview(), other.vview(), self.vview().len() as int); //# vec-dot-is-sum-of-products
//@checkdecl src/linalg/mod.rs :: pub trait BaseVector<T: RealNumber>: Clone + Debug :: approximate_eq :: fn approximate_eq(&self, other: &Self, error: T) -> bool
    fn approximate_eq(&self, other: &Self, error: T) -> (r: bool)
        ensures
            self.vview().len() != other.vview().len() ==> !r, //# vec-approximate_eq-false-on-length-mismatch
            self.vview().len() == other.vview().len() ==>
                (r <==> forall|i: int| 0 <= i < self.vview().len() ==> vclose(self.vview()[i], other.vview()[i], error)); //# vec-approximate_eq-iff-all-close
//@checkdecl src/linalg/mod.rs :: pub trait BaseVector<T: RealNumber>: Clone + Debug :: norm2 :: fn norm2(&self) -> T
    fn norm2(&self) -> (r: T)
        ensures r == vsumsq(self.vview(), self.vview().len() as int).sqrt_spec(); //# vec-norm2-is-sqrt-sum-squares
//@checkdecl src/linalg/mod.rs :: pub trait BaseVector<T: RealNumber>: Clone + Debug :: div_element_mut :: fn div_element_mut(&mut self, pos: usize, x: T)
    fn div_element_mut(&mut self, pos: usize, x: T)
        requires pos < old(self).vview().len(),
        ensures final(self).vview() == old(self).vview().update(pos as int, old(self).vview()[pos as int].div_spec(x));
//@checkdecl src/linalg/mod.rs :: pub trait BaseVector<T: RealNumber>: Clone + Debug :: mul_element_mut :: fn mul_element_mut(&mut self, pos: usize, x: T)
    fn mul_element_mut(&mut self, pos: usize, x: T)
        requires pos < old(self).vview().len(),
        ensures final(self).vview() == old(self).vview().update(pos as int, old(self).vview()[pos as int].mul_spec(x));
//@checkdecl src/linalg/mod.rs :: pub trait BaseVector<T: RealNumber>: Clone + Debug :: add_element_mut :: fn add_element_mut(&mut self, pos: usize, x: T)
    fn add_element_mut(&mut self, pos: usize, x: T)
        requires pos < old(self).vview().len(),
        ensures final(self).vview() == old(self).vview().update(pos as int, old(self).vview()[pos as int].add_spec(x));
//@checkdecl src/linalg/mod.rs :: pub trait BaseVector<T: RealNumber>: Clone + Debug :: sub_element_mut :: fn sub_element_mut(&mut self, pos: usize, x: T)
    fn sub_element_mut(&mut self, pos: usize, x: T)
        requires pos < old(self).vview().len(),
        ensures final(self).vview() == old(self).vview().update(pos as int, old(self).vview()[pos as int].sub_spec(x));
//@checkdecl src/linalg/mod.rs :: pub trait BaseVector<T: RealNumber>: Clone + Debug :: add_mut :: fn add_mut(&mut self, other: &Self) -> &Self
    fn add_mut(&mut self, other: &Self) -> (res: &Self)
        requires old(self).vview().len() == other.vview().len(),
        ensures final(self).vview().len() == other.vview().len(),
            forall|i: int| 0 <= i < other.vview().len() ==> final(self).vview()[i] == old(self).vview()[i].add_spec(other.vview()[i]), //# vec-add_mut-elementwise
            res.vview() == final(self).vview();
//@checkdecl src/linalg/mod.rs :: pub trait BaseVector<T: RealNumber>: Clone + Debug :: sub_mut :: fn sub_mut(&mut self, other: &Self) -> &Self
    fn sub_mut(&mut self, other: &Self) -> (res: &Self)
        requires old(self).vview().len() == other.vview().len(),
        ensures final(self).vview().len() == other.vview().len(),
            forall|i: int| 0 <= i < other.vview().len() ==> final(self).vview()[i] == old(self).vview()[i].sub_spec(other.vview()[i]), //# vec-sub_mut-elementwise
            res.vview() == final(self).vview();
//@checkdecl src/linalg/mod.rs :: pub trait BaseVector<T: RealNumber>: Clone + Debug :: mul_mut :: fn mul_mut(&mut self, other: &Self) -> &Self
    fn mul_mut(&mut self, other: &Self) -> (res: &Self)
        requires old(self).vview().len() == other.vview().len(),
        ensures final(self).vview().len() == other.vview().len(),
            forall|i: int| 0 <= i < other.vview().len() ==> final(self).vview()[i] == old(self).vview()[i].mul_spec(other.vview()[i]), //# vec-mul_mut-elementwise
            res.vview() == final(self).vview();
//@checkdecl src/linalg/mod.rs :: pub trait BaseVector<T: RealNumber>: Clone + Debug :: div_mut :: fn div_mut(&mut self, other: &Self) -> &Self
    fn div_mut(&mut self, other: &Self) -> (res: &Self)
        requires old(self).vview().len() == other.vview().len(),
        ensures final(self).vview().len() == other.vview().len(),
            forall|i: int| 0 <= i < other.vview().len() ==> final(self).vview()[i] == old(self).vview()[i].div_spec(other.vview()[i]), //# vec-div_mut-elementwise
            res.vview() == final(self).vview();
//@checkdecl src/linalg/mod.rs :: pub trait BaseVector<T: RealNumber>: Clone + Debug :: sum :: fn sum(&self) -> T
    fn sum(&self) -> (r: T)
        ensures r == vsum(self.vview(), self.vview().len() as int); //# vec-sum-is-left-fold

    // ---- default methods, text extracted from the trait in /repo ----
//@extract src/linalg/mod.rs :: pub trait BaseVector<T: RealNumber>: Clone + Debug :: is_empty :: ret=r
//@spec
        ensures r == (self.vview().len() == 0),
//@end

//@extract src/linalg/mod.rs :: pub trait BaseVector<T: RealNumber>: Clone + Debug :: add_scalar_mut :: ret=res
//@spec
        ensures final(self).vview().len() == old(self).vview().len(),
            forall|i: int| 0 <= i < old(self).vview().len() ==> final(self).vview()[i] == old(self).vview()[i].add_spec(x), //# vec-add_scalar_mut-elementwise
            res.vview() == final(self).vview(),
//@enter
        proof { T::ops_total(); }
//@loop 1
            invariant self.vview().len() == old(self).vview().len(), VERUS_ghost_iter.iter.end == self.vview().len(),
                forall|k: int| 0 <= k < i ==> self.vview()[k] == old(self).vview()[k].add_spec(x),
                forall|k: int| i <= k < self.vview().len() ==> self.vview()[k] == old(self).vview()[k],
//@loopbody 1
            proof { T::ops_total(); }
//@end

//@extract src/linalg/mod.rs :: pub trait BaseVector<T: RealNumber>: Clone + Debug :: sub_scalar_mut :: ret=res
//@spec
        ensures final(self).vview().len() == old(self).vview().len(),
            forall|i: int| 0 <= i < old(self).vview().len() ==> final(self).vview()[i] == old(self).vview()[i].sub_spec(x), //# vec-sub_scalar_mut-elementwise
            res.vview() == final(self).vview(),
//@enter
        proof { T::ops_total(); }
//@loop 1
            invariant self.vview().len() == old(self).vview().len(), VERUS_ghost_iter.iter.end == self.vview().len(),
                forall|k: int| 0 <= k < i ==> self.vview()[k] == old(self).vview()[k].sub_spec(x),
                forall|k: int| i <= k < self.vview().len() ==> self.vview()[k] == old(self).vview()[k],
//@loopbody 1
            proof { T::ops_total(); }
//@end

//@extract src/linalg/mod.rs :: pub trait BaseVector<T: RealNumber>: Clone + Debug :: mul_scalar_mut :: ret=res
//@spec
        ensures final(self).vview().len() == old(self).vview().len(),
            forall|i: int| 0 <= i < old(self).vview().len() ==> final(self).vview()[i] == old(self).vview()[i].mul_spec(x), //# vec-mul_scalar_mut-elementwise
            res.vview() == final(self).vview(),
//@enter
        proof { T::ops_total(); }
//@loop 1
            invariant self.vview().len() == old(self).vview().len(), VERUS_ghost_iter.iter.end == self.vview().len(),
                forall|k: int| 0 <= k < i ==> self.vview()[k] == old(self).vview()[k].mul_spec(x),
                forall|k: int| i <= k < self.vview().len() ==> self.vview()[k] == old(self).vview()[k],
//@loopbody 1
            proof { T::ops_total(); }
//@end

//@extract src/linalg/mod.rs :: pub trait BaseVector<T: RealNumber>: Clone + Debug :: div_scalar_mut :: ret=res
//@spec
        ensures final(self).vview().len() == old(self).vview().len(),
            forall|i: int| 0 <= i < old(self).vview().len() ==> final(self).vview()[i] == old(self).vview()[i].div_spec(x), //# vec-div_scalar_mut-elementwise
            res.vview() == final(self).vview(),
//@enter
        proof { T::ops_total(); }
//@loop 1
            invariant self.vview().len() == old(self).vview().len(), VERUS_ghost_iter.iter.end == self.vview().len(),
                forall|k: int| 0 <= k < i ==> self.vview()[k] == old(self).vview()[k].div_spec(x),
                forall|k: int| i <= k < self.vview().len() ==> self.vview()[k] == old(self).vview()[k],
//@loopbody 1
            proof { T::ops_total(); }
//@end

    // copying variants == clone + in-place variant  ("each in-place variant produces the same result as its copying counterpart")
//@extract src/linalg/mod.rs :: pub trait BaseVector<T: RealNumber>: Clone + Debug :: add :: ret=r
//@spec
        requires self.vview().len() == other.vview().len(),
        ensures r.vview().len() == self.vview().len(),
            forall|i: int| 0 <= i < self.vview().len() ==> r.vview()[i] == self.vview()[i].add_spec(other.vview()[i]), //# vec-add-equals-add_mut-on-a-copy
//@enter
        proof { Self::clone_preserves_view(); }
//@end
//@extract src/linalg/mod.rs :: pub trait BaseVector<T: RealNumber>: Clone + Debug :: sub :: ret=r
//@spec
        requires self.vview().len() == other.vview().len(),
        ensures r.vview().len() == self.vview().len(),
            forall|i: int| 0 <= i < self.vview().len() ==> r.vview()[i] == self.vview()[i].sub_spec(other.vview()[i]), //# vec-sub-equals-sub_mut-on-a-copy
//@enter
        proof { Self::clone_preserves_view(); }
//@end
//@extract src/linalg/mod.rs :: pub trait BaseVector<T: RealNumber>: Clone + Debug :: mul :: ret=r
//@spec
        requires self.vview().len() == other.vview().len(),
        ensures r.vview().len() == self.vview().len(),
            forall|i: int| 0 <= i < self.vview().len() ==> r.vview()[i] == self.vview()[i].mul_spec(other.vview()[i]), //# vec-mul-equals-mul_mut-on-a-copy
//@enter
        proof { Self::clone_preserves_view(); }
//@end
//@extract src/linalg/mod.rs :: pub trait BaseVector<T: RealNumber>: Clone + Debug :: div :: ret=r
//@spec
        requires self.vview().len() == other.vview().len(),
        ensures r.vview().len() == self.vview().len(),
            forall|i: int| 0 <= i < self.vview().len() ==> r.vview()[i] == self.vview()[i].div_spec(other.vview()[i]), //# vec-div-equals-div_mut-on-a-copy
//@enter
        proof { Self::clone_preserves_view(); }
//@end
//@extract src/linalg/mod.rs :: pub trait BaseVector<T: RealNumber>: Clone + Debug :: add_scalar :: ret=r
//@spec
        ensures r.vview().len() == self.vview().len(),
            forall|i: int| 0 <= i < self.vview().len() ==> r.vview()[i] == self.vview()[i].add_spec(x),
//@enter
        proof { Self::clone_preserves_view(); }
//@end
//@extract src/linalg/mod.rs :: pub trait BaseVector<T: RealNumber>: Clone + Debug :: sub_scalar :: ret=r
//@spec
        ensures r.vview().len() == self.vview().len(),
            forall|i: int| 0 <= i < self.vview().len() ==> r.vview()[i] == self.vview()[i].sub_spec(x),
//@enter
        proof { Self::clone_preserves_view(); }
//@end
//@extract src/linalg/mod.rs :: pub trait BaseVector<T: RealNumber>: Clone + Debug :: mul_scalar :: ret=r
//@spec
        ensures r.vview().len() == self.vview().len(),
            forall|i: int| 0 <= i < self.vview().len() ==> r.vview()[i] == self.vview()[i].mul_spec(x),
//@enter
        proof { Self::clone_preserves_view(); }
//@end
//@extract src/linalg/mod.rs :: pub trait BaseVector<T: RealNumber>: Clone + Debug :: div_scalar :: ret=r
//@spec
        ensures r.vview().len() == self.vview().len(),
            forall|i: int| 0 <= i < self.vview().len() ==> r.vview()[i] == self.vview()[i].div_spec(x),
//@enter
        proof { Self::clone_preserves_view(); }
//@end

//@extract src/linalg/mod.rs :: pub trait BaseVector<T: RealNumber>: Clone + Debug :: mean :: ret=r
//@spec
        ensures r == vsum(self.vview(), self.vview().len() as int).div_spec(T::from_usize_spec(self.vview().len() as usize)), //# vec-mean-is-sum-over-n
//@enter
        proof { T::ops_total(); }
//@end

//@extract src/linalg/mod.rs :: pub trait BaseVector<T: RealNumber>: Clone + Debug :: var :: ret=r
//@spec
        ensures r == vvar(self.vview()), //# vec-var-is-mean-of-squares-minus-squared-mean
//@enter
        proof { T::ops_total(); }
//@loop 1
            invariant n == self.vview().len(), mu == vsum(self.vview(), i as int), sum == vsumsq(self.vview(), i as int),
//@loopbody 1
            proof { T::ops_total(); }
//@end
//@extract src/linalg/mod.rs :: pub trait BaseVector<T: RealNumber>: Clone + Debug :: std :: ret=r
//@spec
        ensures r == vvar(self.vview()).sqrt_spec(), //# vec-std-is-sqrt-of-var
//@end
}
