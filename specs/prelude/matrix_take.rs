// ---------------------------------------------------------------------------------------------
// prelude/matrix_take.rs -- stand-ins for crate::linalg::{BaseVector<T>, Matrix<T>} as seen by code that is
// generic over `M: Matrix<T>` and only SELECTS rows/entries by index (model_selection: cross_validate,
// cross_val_predict, train_test_split).  `Matrix<T>` carries the associated type `RowVector` of
// crate::linalg::BaseMatrix.  Do not combine with prelude/basevector.rs / prelude/matrix_abs.rs (same names).
//
// ASSUME[A-TAKE-ABSTRACT] `take` is an abstract operation: the result of `x.take(index, axis)` /
//   `y.take(index)` is the trait-level spec value `x.take_spec(index@, axis)` / `y.take_spec(index@)`, a
//   function of the receiver, the index sequence (and the axis) only; it returns normally for every index
//   slice.  WHICH rows these are ("row i of the result is row index[i] of x") is the formula contract of the
//   default bodies BaseMatrix::take / BaseVector::take (src/linalg/mod.rs; they use `.enumerate()`), a C03 matter.
// ---------------------------------------------------------------------------------------------
pub trait BaseVector<T: RealNumber>: Sized {
//@include prelude/basevector_basic_methods.rs

    spec fn take_spec(&self, index: Seq<usize>) -> Self;
//@checkdecl src/linalg/mod.rs :: pub trait BaseVector<T: RealNumber>: Clone + Debug :: take :: fn take(&self, index: &[usize]) -> Self
    // ASSUME[A-TAKE-ABSTRACT]
    fn take(&self, index: &[usize]) -> (r: Self)
        ensures r == self.take_spec(index@);
}

pub trait Matrix<T: RealNumber>: Sized {
    type RowVector: BaseVector<T>;

    spec fn nrows_spec(&self) -> int;
    spec fn ncols_spec(&self) -> int;
//@checkdecl src/linalg/mod.rs :: pub trait BaseMatrix<T: RealNumber>: Clone + Debug :: shape :: fn shape(&self) -> (usize, usize)
    fn shape(&self) -> (s: (usize, usize))
        ensures s.0 == self.nrows_spec(), s.1 == self.ncols_spec();

    spec fn take_spec(&self, index: Seq<usize>, axis: u8) -> Self;
//@checkdecl src/linalg/mod.rs :: pub trait BaseMatrix<T: RealNumber>: Clone + Debug :: take :: fn take(&self, index: &[usize], axis: u8) -> Self
    // ASSUME[A-TAKE-ABSTRACT]
    fn take(&self, index: &[usize], axis: u8) -> (r: Self)
        ensures r == self.take_spec(index@, axis);
}
