// ASSUME[A-CLONE] Clone on T: RealNumber returns the value itself (true for f32/f64). vstd specifies
//   `vec![x; n]` and `.clone()` of a generic T only up to `cloned(..)`.
#[verifier::external_body]
pub broadcast proof fn axiom_clone_realnumber<T: RealNumber>(a: T, b: T)
    ensures #[trigger] cloned::<T>(a, b) ==> a == b
{}
