// ---------------------------------------------------------------------------------------------
// prelude/real_ext.rs -- extension of prelude/real.rs (A-REAL) for C10: the transcendental functions
// (exp, tanh, powf) as FUNCTIONS OF THE REAL VALUE of their arguments (nothing is said about which function).
// Needs prelude/realnumber.rs + prelude/real.rs.
// ---------------------------------------------------------------------------------------------
// Under A-REAL: exp, tanh, powf respect val (arguments with equal real values give results with equal real values).
// Consistent (model: T = real, val = identity).  For f32/f64 it fails only at NaN/inf and at powf(-0.0, negative) vs
// powf(0.0, negative), all excluded by A-REAL.
// ASSUME[A-REAL-EXT] exp/tanh/powf are functions of the real value
#[verifier::external_body]
pub proof fn axiom_real_ext<T: RealNumber>()
    ensures
        forall|a: T, b: T| val(a) == val(b) ==> val(#[trigger] a.exp_spec()) == val(#[trigger] b.exp_spec()),
        forall|a: T, b: T| val(a) == val(b) ==> val(#[trigger] a.tanh_spec()) == val(#[trigger] b.tanh_spec()),
        forall|a: T, b: T, p: T, q: T| val(a) == val(b) && val(p) == val(q)
            ==> val(#[trigger] a.powf_spec(p)) == val(#[trigger] b.powf_spec(q)),
{}
