// ---------------------------------------------------------------------------------------------
// prelude/dedup_first.rs -- "the sequence with later duplicates removed" (order of first appearance) as a
// recursive spec fn, and the two lemmas that pin the definition down (same elements, no duplicates, order of
// first occurrences).  No trusted construct in this file.
// ---------------------------------------------------------------------------------------------
// definition: s with every later duplicate removed (elements kept in order of first appearance)
pub open spec fn dedup_first<C>(s: Seq<C>) -> Seq<C>
    decreases s.len()
{
    if s.len() == 0 {
        Seq::<C>::empty()
    } else {
        let p = dedup_first(s.drop_last());
        if p.contains(s.last()) { p } else { p.push(s.last()) }
    }
}

// position j is the first occurrence of c in s
pub open spec fn is_first_occurrence<C>(s: Seq<C>, j: int, c: C) -> bool {
    &&& 0 <= j < s.len()
    &&& s[j] == c
    &&& forall|k: int| 0 <= k < j ==> s[k] != c
}

// dedup_first(s) has no duplicates and exactly the elements of s
pub proof fn lemma_dedup_first_elements<C>(s: Seq<C>)
    ensures
        dedup_first(s).no_duplicates(),
        forall|c: C| #[trigger] dedup_first(s).contains(c) <==> s.contains(c),
        dedup_first(s).len() <= s.len(),
    decreases s.len()
{
    if s.len() > 0 {
        let q = s.drop_last();
        lemma_dedup_first_elements(q);
        let p = dedup_first(q);
        let d = dedup_first(s);
        assert forall|c: C| #[trigger] d.contains(c) <==> s.contains(c) by {
            if s.contains(c) {
                let j = choose|j: int| 0 <= j < s.len() && s[j] == c;
                if j < s.len() - 1 {
                    assert(q[j] == c);
                    assert(q.contains(c));
                    assert(p.contains(c));
                    if !p.contains(s.last()) {
                        let k = choose|k: int| 0 <= k < p.len() && p[k] == c;
                        assert(d[k] == c);
                    }
                } else {
                    if !p.contains(s.last()) { assert(d[p.len() as int] == c); }
                }
            }
            if d.contains(c) {
                let k = choose|k: int| 0 <= k < d.len() && d[k] == c;
                if k < p.len() {
                    assert(p[k] == c);
                    assert(p.contains(c));
                    assert(q.contains(c));
                    let j = choose|j: int| 0 <= j < q.len() && q[j] == c;
                    assert(s[j] == c);
                } else {
                    assert(c == s.last());
                    assert(s[s.len() - 1] == c);
                }
            }
        }
    }
}

// order of first appearance: if a stands before b in dedup_first(s), then a first occurs in s before b does
pub proof fn lemma_dedup_first_order<C>(s: Seq<C>, k1: int, k2: int, j1: int, j2: int)
    requires
        0 <= k1 < k2 < dedup_first(s).len(),
        is_first_occurrence(s, j1, dedup_first(s)[k1]),
        is_first_occurrence(s, j2, dedup_first(s)[k2]),
    ensures
        j1 < j2,
    decreases s.len()
{
    let q = s.drop_last();
    let p = dedup_first(q);
    let d = dedup_first(s);
    lemma_dedup_first_elements(q);
    lemma_dedup_first_elements(s);
    let n = s.len() - 1;
    // an element of q has its first occurrence inside q
    assert(p[k1] == d[k1]);
    assert(p.contains(d[k1]));
    assert(q.contains(d[k1]));
    let i1 = choose|i: int| 0 <= i < q.len() && q[i] == d[k1];
    assert(s[i1] == d[k1]);
    assert(j1 < n);
    assert(is_first_occurrence(q, j1, p[k1])) by {
        assert forall|k: int| 0 <= k < j1 implies q[k] != p[k1] by { assert(s[k] == q[k]); }
    }
    if k2 < p.len() {
        assert(p[k2] == d[k2]);
        assert(p.contains(d[k2]));
        assert(q.contains(d[k2]));
        let i2 = choose|i: int| 0 <= i < q.len() && q[i] == d[k2];
        assert(s[i2] == d[k2]);
        assert(j2 < n);
        assert(is_first_occurrence(q, j2, p[k2])) by {
            assert forall|k: int| 0 <= k < j2 implies q[k] != p[k2] by { assert(s[k] == q[k]); }
        }
        lemma_dedup_first_order(q, k1, k2, j1, j2);
    } else {
        // d == p.push(s.last()), the new element does not occur in q
        assert(d[k2] == s.last());
        assert(!p.contains(s.last()));
        assert(!q.contains(s.last()));
        if j2 < n { assert(q[j2] == s.last()); assert(q.contains(s.last())); }
    }
}
