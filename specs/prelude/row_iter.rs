// ---------------------------------------------------------------------------------------------
// prelude/row_iter.rs -- rule X7: stand-in for crate::linalg::{row_iter, RowIter} together with the two std
// adapters applied to it in /repo (`row_iter(x).enumerate()` in a `for`, `row_iter(x).collect()`).
// This Verus rejects `.enumerate()` on std iterators; the stand-in type has INHERENT `enumerate` / `collect`
// (inherent methods win over Iterator::enumerate / Iterator::collect), so the verbatim text type-checks against it.
// Needs `use vstd::std_specs::iter::*;`, realnumber.rs, matrix_abs2.rs (Matrix, row_view).
// What is assumed (the composition of two facts):
//   A-ROWITER-ORDER        RowIter::next (src/linalg/mod.rs, plain code: `m.get_row_as_vec(pos)` for pos = 0, 1, .. < shape().0)
//                          yields the rows of the matrix in order, each as a fresh Vec, then None
//   TRUSTED-STD-ITER-ADAPT std: Enumerate numbers the items from 0 in order; collect::<Vec<_>>() gathers all items in order
// ---------------------------------------------------------------------------------------------
pub struct RowIter<T> { pub rows: Vec<Vec<T>>, pub pos: usize }
pub struct RowEnum<T> { pub rows: Vec<Vec<T>>, pub pos: usize }

//@checkdecl src/linalg/mod.rs :: - :: row_iter :: fn row_iter<F: RealNumber, M: BaseMatrix<F>>(m: &M) -> RowIter<'_, F, M>
// ASSUME[A-ROWITER-ORDER] the items RowIter will yield: row 0, 1, .., nrows-1 of m (as vectors)
#[verifier::external_body]
pub fn row_iter<F: RealNumber, M: Matrix<F>>(m: &M) -> (r: RowIter<F>)
    requires
        m.mwf(),
    ensures
        r.pos == 0,
        r.rows@.len() == m.nrows_spec(),
        forall|i: int| 0 <= i < m.nrows_spec() ==> (#[trigger] r.rows@[i])@ == row_view(m, i),
{ unimplemented!() }

impl<T> RowIter<T> {
    // ASSUME[TRUSTED-STD-ITER-ADAPT] Iterator::enumerate on a fresh RowIter: (0, row 0), (1, row 1), ..
    #[verifier::external_body]
    pub fn enumerate(self) -> (r: RowEnum<T>)
        ensures r.rows == self.rows, r.pos == self.pos,
    { unimplemented!() }
    // ASSUME[TRUSTED-STD-ITER-ADAPT] Iterator::collect::<Vec<Vec<T>>>() on a fresh RowIter: all rows, in order
    #[verifier::external_body]
    pub fn collect(self) -> (r: Vec<Vec<T>>)
        requires self.pos == 0,
        ensures r == self.rows,
    { unimplemented!() }
}
impl<T> Iterator for RowEnum<T> {
    type Item = (usize, Vec<T>);
    // ASSUME[A-ROWITER-ORDER] next() follows `remaining()` below (vstd's prophetic iterator protocol: the laws are assumed for this type)
    #[verifier::external_body]
    fn next(&mut self) -> Option<(usize, Vec<T>)> { unimplemented!() }
}
impl<T> IteratorSpecImpl for RowEnum<T> {
    open spec fn obeys_prophetic_iter_laws(&self) -> bool { true }
    open spec fn remaining(&self) -> Seq<(usize, Vec<T>)> {
        Seq::new((self.rows@.len() - self.pos) as nat, |k: int| ((self.pos + k) as usize, self.rows@[self.pos + k]))
    }
    open spec fn will_return_none(&self) -> bool { true }
    open spec fn decrease(&self) -> Option<nat> { Some((self.rows@.len() - self.pos) as nat) }
    open spec fn peek(&self, i: int) -> Option<(usize, Vec<T>)> {
        if 0 <= i < self.rows@.len() - self.pos { Some(((self.pos + i) as usize, self.rows@[self.pos + i])) } else { None }
    }
}
