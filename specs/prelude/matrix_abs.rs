// ---------------------------------------------------------------------------------------------
// prelude/matrix_abs.rs -- stand-in for crate::linalg::Matrix<T> as seen by code that is generic over
// `M: Matrix<T>` and only reads the matrix: an abstract shape, an abstract cell accessor `at(r, c)`, and
// the contracts of `shape()` / `get()` over them.
// ASSUME[A-MATRIX-TRAIT] generic callers are verified against this trait contract only.  For DenseMatrix<T>
//   the two contracts are exactly what prelude/dm_core.rs proves for the extracted `get`/`shape`
//   (`mwf` = `wf`, `at` = `at`); to be linked to the C03 contracts.  For ndarray/nalgebra it is an assumption.
// ---------------------------------------------------------------------------------------------
pub trait Matrix<T: RealNumber>: Sized {
    spec fn mwf(&self) -> bool;          // representation invariant of the backend
    spec fn nrows_spec(&self) -> int;
    spec fn ncols_spec(&self) -> int;
    spec fn at(&self, r: int, c: int) -> T;
//@checkdecl src/linalg/mod.rs :: pub trait BaseMatrix<T: RealNumber>: Clone + Debug :: get :: fn get(&self, row: usize, col: usize) -> T
    fn get(&self, row: usize, col: usize) -> (v: T)
        requires self.mwf(), row < self.nrows_spec(), col < self.ncols_spec(),
        ensures v == self.at(row as int, col as int);
//@checkdecl src/linalg/mod.rs :: pub trait BaseMatrix<T: RealNumber>: Clone + Debug :: shape :: fn shape(&self) -> (usize, usize)
    fn shape(&self) -> (s: (usize, usize))
        ensures s.0 == self.nrows_spec(), s.1 == self.ncols_spec();
}
