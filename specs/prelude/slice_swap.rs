// ASSUME[TRUSTED-STD-SLICE-SWAP] <[T]>::swap(a, b) exchanges the entries a and b and nothing else; panics if out of range
pub assume_specification<T> [ <[T]>::swap ] (s: &mut [T], a: usize, b: usize)
    requires
        a < old(s)@.len(),
        b < old(s)@.len(),
    ensures
        final(s)@ == old(s)@.update(a as int, old(s)@[b as int]).update(b as int, old(s)@[a as int]);
