// ---------------------------------------------------------------------------------------------
// prelude/enum_count.rs -- counting over an index list that enumerates a set.
// If `idx` lists exactly the indices j in [0, n) with p(j), each once (in any order), then the number of list
// positions whose entry satisfies f equals the number of j < n with p(j) && f(j).  Pure lemmas, nothing trusted.
// ---------------------------------------------------------------------------------------------
// number of positions a < m of the list with f(idx[a])
pub open spec fn count_list(idx: Seq<int>, f: spec_fn(int) -> bool, m: int) -> int
    decreases m
{
    if m <= 0 { 0 } else { count_list(idx, f, m - 1) + if f(idx[m - 1]) { 1int } else { 0int } }
}
// number of j < n with p(j)
pub open spec fn count_range(p: spec_fn(int) -> bool, n: int) -> int
    decreases n
{
    if n <= 0 { 0 } else { count_range(p, n - 1) + if p(n - 1) { 1int } else { 0int } }
}
// idx enumerates { j in [0, n) : p(j) } without repetition
pub open spec fn enumerates(idx: Seq<int>, p: spec_fn(int) -> bool, n: int) -> bool {
    &&& forall|a: int| 0 <= a < idx.len() ==> 0 <= #[trigger] idx[a] < n && p(idx[a])
    &&& forall|a: int, b: int| 0 <= a < b < idx.len() ==> idx[a] != idx[b]
    &&& forall|j: int| 0 <= j < n && #[trigger] p(j) ==> exists|a: int| 0 <= a < idx.len() && idx[a] == j
}

pub proof fn lemma_count_list_bounds(idx: Seq<int>, f: spec_fn(int) -> bool, m: int)
    requires 0 <= m
    ensures 0 <= count_list(idx, f, m) <= m
    decreases m
{
    if m > 0 { lemma_count_list_bounds(idx, f, m - 1); }
}
pub proof fn lemma_count_range_bounds(p: spec_fn(int) -> bool, n: int)
    requires 0 <= n
    ensures 0 <= count_range(p, n) <= n
    decreases n
{
    if n > 0 { lemma_count_range_bounds(p, n - 1); }
}
// count_range is positive iff some j < n satisfies p
pub proof fn lemma_count_range_pos(p: spec_fn(int) -> bool, n: int)
    requires 0 <= n
    ensures count_range(p, n) > 0 <==> exists|j: int| 0 <= j < n && #[trigger] p(j)
    decreases n
{
    if n > 0 {
        lemma_count_range_pos(p, n - 1);
        lemma_count_range_bounds(p, n - 1);
        if count_range(p, n) > 0 {
            if p(n - 1) { } else {
                let j = choose|j: int| 0 <= j < n - 1 && #[trigger] p(j);
                assert(0 <= j < n && p(j));
            }
        }
        if exists|j: int| 0 <= j < n && #[trigger] p(j) {
            let j = choose|j: int| 0 <= j < n && #[trigger] p(j);
            if j < n - 1 { assert(0 <= j < n - 1 && p(j)); }
        }
    }
}
// count over a list only looks at the first m entries
proof fn lemma_count_list_prefix_eq(s: Seq<int>, t: Seq<int>, f: spec_fn(int) -> bool, m: int)
    requires 0 <= m <= s.len(), m <= t.len(), forall|a: int| 0 <= a < m ==> s[a] == t[a],
    ensures count_list(s, f, m) == count_list(t, f, m)
    decreases m
{
    if m > 0 { lemma_count_list_prefix_eq(s, t, f, m - 1); }
}
// removing position a from the list removes its contribution
proof fn lemma_count_list_remove(idx: Seq<int>, f: spec_fn(int) -> bool, a: int, m: int)
    requires 0 <= a < m <= idx.len(),
    ensures count_list(idx, f, m) == count_list(idx.remove(a), f, m - 1) + if f(idx[a]) { 1int } else { 0int }
    decreases m
{
    let r = idx.remove(a);
    if a == m - 1 {
        lemma_count_list_prefix_eq(idx, r, f, m - 1);
    } else {
        lemma_count_list_remove(idx, f, a, m - 1);
        assert(r[m - 2] == idx[m - 1]);
    }
}
pub proof fn lemma_enum_count(idx: Seq<int>, p: spec_fn(int) -> bool, f: spec_fn(int) -> bool, n: int)
    requires 0 <= n, enumerates(idx, p, n),
    ensures count_list(idx, f, idx.len() as int) == count_range(|j: int| p(j) && f(j), n)
    decreases n
{
    let pf = |j: int| p(j) && f(j);
    if n == 0 {
        if idx.len() > 0 { assert(0 <= idx[0] < n); }
        assert(count_list(idx, f, 0) == 0);
    } else if p(n - 1) {
        let a = choose|a: int| 0 <= a < idx.len() && idx[a] == n - 1;
        let r = idx.remove(a);
        lemma_count_list_remove(idx, f, a, idx.len() as int);
        assert forall|b: int| 0 <= b < r.len() implies 0 <= #[trigger] r[b] < n - 1 && p(r[b]) by {
            if b < a { assert(r[b] == idx[b]); assert(idx[b] != idx[a]); } else { assert(r[b] == idx[b + 1]); assert(idx[a] != idx[b + 1]); }
        }
        assert forall|b: int, c: int| 0 <= b < c < r.len() implies r[b] != r[c] by {
            let b2 = if b < a { b } else { b + 1 };
            let c2 = if c < a { c } else { c + 1 };
            assert(r[b] == idx[b2] && r[c] == idx[c2] && b2 < c2);
        }
        assert forall|j: int| 0 <= j < n - 1 && #[trigger] p(j) implies exists|b: int| 0 <= b < r.len() && r[b] == j by {
            let c = choose|c: int| 0 <= c < idx.len() && idx[c] == j;
            if c < a { assert(r[c] == j); } else { assert(c > a); assert(r[c - 1] == j); }
        }
        lemma_enum_count(r, p, f, n - 1);
        assert(pf(n - 1) == f(n - 1));
    } else {
        assert forall|b: int| 0 <= b < idx.len() implies 0 <= #[trigger] idx[b] < n - 1 && p(idx[b]) by {
            assert(0 <= idx[b] < n && p(idx[b]));
        }
        lemma_enum_count(idx, p, f, n - 1);
        assert(!pf(n - 1));
    }
}
// the list has as many entries as there are j < n with p(j)
proof fn lemma_count_list_all(idx: Seq<int>, m: int)
    requires 0 <= m
    ensures count_list(idx, |j: int| true, m) == m
    decreases m
{
    if m > 0 { lemma_count_list_all(idx, m - 1); }
}
pub proof fn lemma_count_range_ext(p: spec_fn(int) -> bool, q: spec_fn(int) -> bool, n: int)
    requires forall|j: int| 0 <= j < n ==> #[trigger] p(j) == q(j)
    ensures count_range(p, n) == count_range(q, n)
    decreases n
{
    if n > 0 { lemma_count_range_ext(p, q, n - 1); }
}
pub proof fn lemma_enum_len(idx: Seq<int>, p: spec_fn(int) -> bool, n: int)
    requires 0 <= n, enumerates(idx, p, n),
    ensures idx.len() == count_range(p, n)
{
    let t = |j: int| true;
    lemma_enum_count(idx, p, t, n);
    lemma_count_list_all(idx, idx.len() as int);
    lemma_count_range_ext(|j: int| p(j) && t(j), p, n);
}
