// ---------------------------------------------------------------------------------------------
// prelude/basevector.rs -- crate::linalg::BaseVector<T>, abstract view, the methods generic callers use.
// Contracts are stated over `vview()`; `impl BaseVector<T> for Vec<T>` is checked against them in C03.
// ASSUME[A-BASEVECTOR-TRAIT] generic callers (metrics, distances, ...) are verified against this trait
//   contract only; for Vec<T> it is discharged in unit C03/vec_basevector, for ndarray/nalgebra vectors it
//   is an assumption.
// ---------------------------------------------------------------------------------------------
pub trait BaseVector<T: RealNumber>: Sized {
//@include prelude/basevector_basic_methods.rs
}
