// ---------------------------------------------------------------------------------------------
// prelude/total_order.rs -- "partial_cmp is a total (pre)order on the values in `dom`".
// For floats this excludes NaN *explicitly*: NaN.partial_cmp(NaN) == None violates the first clause.
// Equal does not mean identical (e.g. KNNPoint compares by distance only): a total preorder.
// Needs prelude/order.rs (lt/le/gt/ge).
// ---------------------------------------------------------------------------------------------
pub open spec fn total_on<T: PartialOrd>(dom: Set<T>) -> bool {
    // reflexive
    &&& forall|a: T| #[trigger] dom.contains(a) ==> a.partial_cmp_spec(&a) == Some(Ordering::Equal)
    // total (every two values are comparable) and antisymmetric (the two directions agree)
    &&& forall|a: T, b: T| #![trigger a.partial_cmp_spec(&b)] dom.contains(a) && dom.contains(b) ==> {
            &&& a.partial_cmp_spec(&b) is Some
            &&& (a.partial_cmp_spec(&b) == Some(Ordering::Less) <==> b.partial_cmp_spec(&a) == Some(Ordering::Greater))
            &&& (a.partial_cmp_spec(&b) == Some(Ordering::Equal) <==> b.partial_cmp_spec(&a) == Some(Ordering::Equal))
        }
    // transitive
    &&& forall|a: T, b: T, c: T| #![trigger le(a, b), le(b, c)] dom.contains(a) && dom.contains(b) && dom.contains(c)
            && le(a, b) && le(b, c) ==> le(a, c)
}

// consequences used by the proofs (all need only the three clauses above)
pub proof fn lemma_total_not_lt<T: PartialOrd>(dom: Set<T>, a: T, b: T)
    requires total_on(dom), dom.contains(a), dom.contains(b),
    ensures
        !lt(a, b) <==> ge(a, b),
        ge(a, b) <==> le(b, a),
        gt(a, b) <==> lt(b, a),
        lt(a, b) || ge(a, b),
{
    let o = a.partial_cmp_spec(&b);
    let p = b.partial_cmp_spec(&a);
    assert(o is Some && p is Some);
    assert(o == Some(Ordering::Less) || o == Some(Ordering::Equal) || o == Some(Ordering::Greater));
    assert(p == Some(Ordering::Less) || p == Some(Ordering::Equal) || p == Some(Ordering::Greater));
}
pub proof fn lemma_total_ge_trans<T: PartialOrd>(dom: Set<T>, a: T, b: T, c: T)
    requires total_on(dom), dom.contains(a), dom.contains(b), dom.contains(c), ge(a, b), ge(b, c),
    ensures ge(a, c),
{
    lemma_total_not_lt(dom, a, b);
    lemma_total_not_lt(dom, b, c);
    lemma_total_not_lt(dom, a, c);
    assert(le(c, b) && le(b, a));
}
pub proof fn lemma_total_on_subset<T: PartialOrd>(big: Set<T>, small: Set<T>)
    requires total_on(big), small.subset_of(big),
    ensures total_on(small),
{
    assert forall|a: T, b: T| #![trigger a.partial_cmp_spec(&b)] small.contains(a) && small.contains(b) implies {
            &&& a.partial_cmp_spec(&b) is Some
            &&& (a.partial_cmp_spec(&b) == Some(Ordering::Less) <==> b.partial_cmp_spec(&a) == Some(Ordering::Greater))
            &&& (a.partial_cmp_spec(&b) == Some(Ordering::Equal) <==> b.partial_cmp_spec(&a) == Some(Ordering::Equal))
        } by {
        assert(big.contains(a) && big.contains(b));
    }
    assert forall|a: T, b: T, c: T| #![trigger le(a, b), le(b, c)] small.contains(a) && small.contains(b) && small.contains(c)
            && le(a, b) && le(b, c) implies le(a, c) by {
        assert(big.contains(a) && big.contains(b) && big.contains(c));
    }
}
