// ---------------------------------------------------------------------------------------------
// prelude/distance_defs.rs -- the textbook definitions of the vector distances as left folds over the
// abstract views (index order 0..n).  The SAME spec fns are used by the exec contracts (arithmetic
// uninterpreted, A-ABS) and by the metric lemmas (C17/metric_*.rs, arithmetic read as real, A-REAL).
// ---------------------------------------------------------------------------------------------
// sum_{i<n} (a_i - b_i) * (a_i - b_i)
pub open spec fn sq_euclid<T: RealNumber>(a: Seq<T>, b: Seq<T>, n: int) -> T
    decreases n
{
    if n <= 0 { T::zero_spec() } else {
        sq_euclid(a, b, n - 1).add_spec(a[n - 1].sub_spec(b[n - 1]).mul_spec(a[n - 1].sub_spec(b[n - 1])))
    }
}
// sqrt(sum_i (a_i - b_i)^2)
pub open spec fn euclid<T: RealNumber>(a: Seq<T>, b: Seq<T>) -> T {
    sq_euclid(a, b, a.len() as int).sqrt_spec()
}
// sum_{i<n} |a_i - b_i|
pub open spec fn manhattan_sum<T: RealNumber>(a: Seq<T>, b: Seq<T>, n: int) -> T
    decreases n
{
    if n <= 0 { T::zero_spec() } else {
        manhattan_sum(a, b, n - 1).add_spec(a[n - 1].sub_spec(b[n - 1]).abs_spec())
    }
}
pub open spec fn manhattan<T: RealNumber>(a: Seq<T>, b: Seq<T>) -> T {
    manhattan_sum(a, b, a.len() as int)
}
// sum_{i<n} |a_i - b_i|^p
pub open spec fn minkowski_sum<T: RealNumber>(a: Seq<T>, b: Seq<T>, p: T, n: int) -> T
    decreases n
{
    if n <= 0 { T::zero_spec() } else {
        minkowski_sum(a, b, p, n - 1).add_spec(a[n - 1].sub_spec(b[n - 1]).abs_spec().powf_spec(p))
    }
}
// (sum_i |a_i - b_i|^p)^(1/p), p the integer order converted to T
pub open spec fn minkowski<T: RealNumber>(a: Seq<T>, b: Seq<T>, p: u16) -> T {
    minkowski_sum(a, b, T::from_u16_spec(p), a.len() as int)
        .powf_spec(T::one_spec().div_spec(T::from_u16_spec(p)))
}
// #{ i < n : a_i != b_i }
pub open spec fn count_ne<T: PartialEq>(a: Seq<T>, b: Seq<T>, n: int) -> int
    decreases n
{
    if n <= 0 { 0 } else { count_ne(a, b, n - 1) + if a[n - 1].eq_spec(&b[n - 1]) { 0int } else { 1int } }
}
// #{ i : a_i != b_i } / n
pub open spec fn hamming<T: PartialEq, F: RealNumber>(a: Seq<T>, b: Seq<T>) -> F {
    F::from_i64_spec(count_ne(a, b, a.len() as int) as i64).div_spec(F::from_usize_spec(a.len() as usize))
}
