#![allow(unused_imports, unused_variables, dead_code, unused_mut, non_snake_case, unused_parens, unused_assignments)]
use vstd::prelude::*;
use vstd::std_specs::ops::*;
use vstd::std_specs::cmp::{PartialEqSpec, PartialOrdSpec};
use std::ops::{Add, Sub, Mul, Div, Neg, AddAssign, SubAssign, MulAssign, DivAssign, Range};
use std::cmp::Ordering;
