// ---------------------------------------------------------------------------------------------
// prelude/distance.rs -- stand-in for crate::math::distance::Distance<T, F>.
// Verus forbids `requires` on trait *impl* methods, so the trait method carries the contract in terms of
// two spec fns every implementor defines: `dist_req` (the precondition of this contract variant) and
// `dist_spec` (the closed form).  Implementors may add `ensures` (the rejection variants add `ensures false`).
// Generic callers (cover tree, KNN, ...) can reason about `dist_spec` abstractly.
// The `Clone` supertrait of /repo is dropped (no verified body clones a distance object).
// ---------------------------------------------------------------------------------------------
pub trait Distance<T, F: RealNumber>: Sized {
    spec fn dist_req(&self, a: &T, b: &T) -> bool;
    spec fn dist_spec(&self, a: &T, b: &T) -> F;
//@checkdecl src/math/distance/mod.rs :: pub trait Distance<T, F: RealNumber>: Clone :: distance :: fn distance(&self, a: &T, b: &T) -> F
    fn distance(&self, a: &T, b: &T) -> (r: F)
        requires self.dist_req(a, b),
        ensures r == self.dist_spec(a, b); //# distance-equals-closed-form
}
