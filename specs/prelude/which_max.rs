// ---------------------------------------------------------------------------------------------
// prelude/which_max.rs -- stand-in for crate::tree::decision_tree_classifier::which_max.
// The body iterates with `x.iter().enumerate().skip(1)`, which this Verus rejects (adapters on std iterators),
// so the function cannot be a Verus unit; callers are verified against this contract.
// ---------------------------------------------------------------------------------------------
//@checkdecl src/tree/decision_tree_classifier.rs :: - :: which_max :: fn which_max(x: &[usize]) -> usize
// ASSUME[A-WHICH-MAX] which_max returns the FIRST index of a maximal element of a non-empty slice (it indexes x[0]: panics when empty)
#[verifier::external_body]
fn which_max(x: &[usize]) -> (w: usize)
    requires
        x@.len() > 0,
    ensures
        w < x@.len(),
        forall|j: int| 0 <= j < x@.len() ==> x@[j] <= x@[w as int],
        forall|j: int| 0 <= j < w ==> x@[j] < x@[w as int],
{ unimplemented!() }
