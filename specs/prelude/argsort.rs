// ---------------------------------------------------------------------------------------------
// prelude/argsort.rs -- stand-in for crate::algorithm::sort::quick_sort::QuickArgSort (impl for Vec<T>).
// Needs prelude/order.rs and prelude/total_order.rs. The body of quick_argsort_mut is NOT verified by the
// units that include this file: callers are verified against the contract below.
// ---------------------------------------------------------------------------------------------
pub open spec fn argsort_values<T>(s: Seq<T>) -> Set<T> { s.to_set() }

// `idx` is a permutation of 0..n (all entries in range and pairwise different: a bijection by counting),
// `after` is `before` rearranged by it (after[i] == before[idx[i]]) and `after` is ascending.
// (opaque: a caller whose loops are not isolated has the whole body in one context, and the last clause chains after[i] -> after[i+1];
//  `reveal(is_argsort_of)` in the lemmas that need a clause)
#[verifier::opaque]
pub open spec fn is_argsort_of<T: PartialOrd>(before: Seq<T>, after: Seq<T>, idx: Seq<usize>) -> bool {
    &&& idx.len() == before.len()
    &&& after.len() == before.len()
    &&& forall|i: int| 0 <= i < idx.len() ==> (#[trigger] idx[i]) < before.len()
    &&& forall|i: int, j: int| 0 <= i < j < idx.len() ==> #[trigger] idx[i] != #[trigger] idx[j]
    &&& forall|i: int| 0 <= i < idx.len() ==> #[trigger] after[i] == before[idx[i] as int]
    &&& forall|i: int| 0 <= i < after.len() - 1 ==> le(#[trigger] after[i], after[i + 1])
}

pub trait QuickArgSort: Sized {
    spec fn argsort_pre(&self) -> bool;
    spec fn argsort_post(&self, after: &Self, idx: Seq<usize>) -> bool;
//@checkdecl src/algorithm/sort/quick_sort.rs :: pub trait QuickArgSort :: quick_argsort_mut :: fn quick_argsort_mut(&mut self) -> Vec<usize>
    fn quick_argsort_mut(&mut self) -> (idx: Vec<usize>)
        requires old(self).argsort_pre(),
        ensures old(self).argsort_post(final(self), idx@);
}

impl<T: RealNumber> QuickArgSort for Vec<T> {
    // non-empty (the body computes len() - 1) and no incomparable values (NaN)
    open spec fn argsort_pre(&self) -> bool { self@.len() >= 1 && total_on(argsort_values(self@)) }
    open spec fn argsort_post(&self, after: &Self, idx: Seq<usize>) -> bool { is_argsort_of(self@, after@, idx) }
//@checkdecl src/algorithm/sort/quick_sort.rs :: impl<T: Float> QuickArgSort for Vec<T> :: quick_argsort_mut :: fn quick_argsort_mut(&mut self) -> Vec<usize>
    // ASSUME[A-ARGSORT] quick_argsort_mut sorts the vector ascending in place and returns the permutation applied
    //   (contract assumed here; to be discharged at bounded length by Kani)
    #[verifier::external_body]
    fn quick_argsort_mut(&mut self) -> (idx: Vec<usize>) { unimplemented!() }
}
