// ---------------------------------------------------------------------------------------------
// prelude/predictor.rs -- stand-in for crate::api::Predictor<X, Y>.
// ASSUME[A-PREDICTOR-ABSTRACT] `predict` is an abstract operation of the estimator: a call returns normally
//   and its outcome is related to (estimator, input) by the trait-level relation `predict_rel` (a relation, not
//   a function: nothing says that two calls agree).  Generic callers (cross_validate) state WHICH estimator
//   predicted WHICH rows in terms of this relation; what an estimator predicts is that estimator's contract.
// ---------------------------------------------------------------------------------------------
pub trait Predictor<X, Y> {
    spec fn predict_rel(&self, x: &X, r: Result<Y, Failed>) -> bool;
//@checkdecl src/api.rs :: pub trait Predictor<X, Y> :: predict :: fn predict(&self, x: &X) -> Result<Y, Failed>
    // ASSUME[A-PREDICTOR-ABSTRACT]
    fn predict(&self, x: &X) -> (r: Result<Y, Failed>)
        ensures self.predict_rel(x, r);
}
