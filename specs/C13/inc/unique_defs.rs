// ---------------------------------------------------------------------------------------------
// C13/inc/unique_defs.rs -- the postconditions of DBSCAN::fit as named predicates, and the theorem that they determine
// the labels of all core points and the noise set: two labellings that both satisfy them (e.g. computed with different
// search backends, or visiting neighbours in a different order) agree on every core point and have the same noise points.
// Needs fit_defs.rs, conn_defs.rs.  Pure spec + proof code, nothing trusted.
// ---------------------------------------------------------------------------------------------
impl<T: RealNumber, D: Distance<Vec<T>, T>> G<T, D> {
    // every label is noise (-1) or a cluster number below k
    pub open spec fn labels_ok(self, y: Seq<i16>, k: int) -> bool {
        forall|q: int| 0 <= q < self.n() ==> (#[trigger] y[q] == -1 || 0 <= y[q] < k)
    }
    // every core point belongs to a cluster
    pub open spec fn cores_clustered(self, y: Seq<i16>) -> bool {
        forall|q: int| 0 <= q < self.n() && self.core(q) ==> #[trigger] y[q] >= 0
    }
    // density-connected core points carry the same label
    pub open spec fn connected_cores_agree(self, y: Seq<i16>) -> bool {
        forall|path: Seq<int>| #[trigger] self.core_path(path) ==> y[path.first()] == y[path.last()]
    }
    // core points with the same label are density-connected
    pub open spec fn same_label_connected(self, y: Seq<i16>) -> bool {
        forall|q: int, j: int| #![trigger y[q], y[j]] 0 <= q < self.n() && 0 <= j < self.n() && self.core(q) && self.core(j) && y[q] >= 0 && y[q] == y[j]
            ==> self.reach(q, j)
    }
    // clusters are numbered in the order of their first core point
    pub open spec fn numbered_by_first_core(self, y: Seq<i16>, k: int) -> bool {
        forall|c: int| 0 <= c < k ==> #[trigger] self.has_first_core(y, c)
    }
    // a non-core point within eps of a core point carries the label of one such core point
    pub open spec fn border_takes_core_label(self, y: Seq<i16>) -> bool {
        forall|q: int| 0 <= q < self.n() && !self.core(q) && self.has_core_nb(q) ==> self.core_nb_labelled(y, q, #[trigger] y[q] as int)
    }
    // noise = exactly the points that are neither core nor within eps of a core point
    pub open spec fn noise_unreachable(self, y: Seq<i16>) -> bool {
        forall|q: int| 0 <= q < self.n() && #[trigger] y[q] == -1 ==> !self.core(q) && !self.has_core_nb(q)
    }
    pub open spec fn unreachable_noise(self, y: Seq<i16>) -> bool {
        forall|q: int| 0 <= q < self.n() && !self.core(q) && !self.has_core_nb(q) ==> #[trigger] y[q] == -1
    }

    // the part of the specification that talks about core points and noise
    pub open spec fn core_spec(self, y: Seq<i16>, k: int) -> bool {
        &&& y.len() == self.n()
        &&& self.labels_ok(y, k)
        &&& self.cores_clustered(y)
        &&& self.connected_cores_agree(y)
        &&& self.same_label_connected(y)
        &&& self.numbered_by_first_core(y, k)
        &&& self.noise_unreachable(y)
        &&& self.unreachable_noise(y)
    }
    // labellings agree on the core points with labels below c
    pub open spec fn agree_below(self, y1: Seq<i16>, y2: Seq<i16>, c: int) -> bool {
        forall|q: int, c2: int| #![trigger y1[q], y2[q], self.below(c2, c)] 0 <= q < self.n() && self.core(q) && self.below(c2, c) ==> (y1[q] == c2 <==> y2[q] == c2)
    }
    pub open spec fn below(self, c2: int, c: int) -> bool { 0 <= c2 < c }

    // one direction of the induction step: a core point labelled c by y1 is labelled c by y2
    proof fn lemma_unique_step(self, y1: Seq<i16>, k1: int, y2: Seq<i16>, k2: int, c: int, q: int)
        requires
            self.core_spec(y1, k1), self.core_spec(y2, k2), self.agree_below(y1, y2, c), 0 <= c,
            0 <= q < self.n(), self.core(q), y1[q] == c,
        ensures y2[q] == c
    {
        assert(0 <= y1[q] < k1);
        assert(self.has_first_core(y1, c));
        let s1 = choose|s: int| #[trigger] self.first_core_of(y1, s, c);
        // y2 does not give s1 a label below c
        let c2 = y2[s1] as int;
        assert(0 <= y2[s1] < k2);
        if c2 < c { assert(self.below(c2, c)); assert(y1[s1] == c2 <==> y2[s1] == c2); }
        if c2 > c {
            assert(self.has_first_core(y2, c));
            let s2 = choose|s: int| #[trigger] self.first_core_of(y2, s, c);
            let d = y1[s2] as int;
            assert(0 <= y1[s2] < k1);
            if d < c { assert(self.below(d, c)); assert(y1[s2] == d <==> y2[s2] == d); }
            if s2 < s1 { assert(0 <= y1[s2] < c); }
            if s1 < s2 { assert(0 <= y2[s1] < c); }
        }
        assert(y2[s1] == c);
        // q is density-connected to s1 (same y1-label), hence carries s1's y2-label
        assert(y1[s1] == y1[q]);
        assert(self.reach(s1, q));
        let path = choose|path: Seq<int>| #[trigger] self.core_path(path) && path.first() == s1 && path.last() == q;
        assert(y2[path.first()] == y2[path.last()]);
    }

    proof fn lemma_unique_upto(self, y1: Seq<i16>, k1: int, y2: Seq<i16>, k2: int, c: int)
        requires self.core_spec(y1, k1), self.core_spec(y2, k2), 0 <= c,
        ensures self.agree_below(y1, y2, c)
        decreases c
    {
        if c > 0 {
            self.lemma_unique_upto(y1, k1, y2, k2, c - 1);
            self.lemma_unique_upto(y2, k2, y1, k1, c - 1);
            assert forall|q: int, c2: int| #![trigger y1[q], y2[q], self.below(c2, c)] 0 <= q < self.n() && self.core(q) && self.below(c2, c)
                implies (y1[q] == c2 <==> y2[q] == c2) by {
                if c2 < c - 1 {
                    assert(self.below(c2, c - 1));
                } else {
                    if y1[q] == c2 { self.lemma_unique_step(y1, k1, y2, k2, c - 1, q); }
                    if y2[q] == c2 { self.lemma_unique_step(y2, k2, y1, k1, c - 1, q); }
                }
            }
        }
    }

    // THEOREM: the specification determines the labels of all core points and the noise set
    pub proof fn theorem_core_labels_and_noise_determined(self, y1: Seq<i16>, k1: int, y2: Seq<i16>, k2: int)
        requires self.core_spec(y1, k1), self.core_spec(y2, k2),
        ensures
            forall|q: int| 0 <= q < self.n() && self.core(q) ==> #[trigger] y1[q] == y2[q],
            forall|q: int| 0 <= q < self.n() ==> (#[trigger] y1[q] == -1 <==> y2[q] == -1),
    {
        assert forall|q: int| 0 <= q < self.n() && self.core(q) implies #[trigger] y1[q] == y2[q] by {
            let c = y1[q] as int;
            assert(0 <= y1[q] < k1);
            self.lemma_unique_upto(y1, k1, y2, k2, c + 1);
            assert(self.below(c, c + 1));
            assert(y1[q] == c <==> y2[q] == c);
        }
        assert forall|q: int| 0 <= q < self.n() implies (#[trigger] y1[q] == -1 <==> y2[q] == -1) by {
            if y1[q] == -1 { assert(!self.core(q) && !self.has_core_nb(q)); }
            if y2[q] == -1 { assert(!self.core(q) && !self.has_core_nb(q)); }
        }
    }
}

// ---------------------------------------------------------------------------------------------
// All points visited: the two invariants give the postconditions of fit (quantified over the final state, so that the hint
// can be given at function entry; see the end of fit_defs.rs).
// ---------------------------------------------------------------------------------------------
impl<T: RealNumber, D: Distance<Vec<T>, T>> G<T, D> {
    pub open spec fn fit_post(self, y: Seq<i16>, k: int) -> bool {
        &&& y.len() == self.n() && 0 <= k <= self.n() && self.n() <= i16::MAX
        &&& self.labels_ok(y, k)
        &&& all_used(y, k)
        &&& self.cores_clustered(y)
        &&& self.adjacent_cores_agree(y)
        &&& self.connected_cores_agree(y)
        &&& self.same_label_connected(y)
        &&& self.numbered_by_first_core(y, k)
        &&& self.border_takes_core_label(y)
        &&& self.noise_unreachable(y)
        &&& self.unreachable_noise(y)
        &&& self.core_spec(y, k)
    }
    pub proof fn lemma_final_q(self)
        requires self.sym(),
        ensures
            forall|y: Seq<i16>, k: int, seeds: Seq<int>| #![trigger self.inv_outer(y, self.n(), k), self.conn_ok(y, seeds)]
                self.inv_outer(y, self.n(), k) && self.conn_ok(y, seeds) && seeds.len() == k ==> self.fit_post(y, k),
    {
        assert forall|y: Seq<i16>, k: int, seeds: Seq<int>| #![trigger self.inv_outer(y, self.n(), k), self.conn_ok(y, seeds)]
            self.inv_outer(y, self.n(), k) && self.conn_ok(y, seeds) && seeds.len() == k implies self.fit_post(y, k) by {
            self.lemma_outer_basic(y, self.n(), k);
            self.lemma_final(y, k);
            self.lemma_conn_final(y, seeds);
            assert forall|c: int| 0 <= c < k implies #[trigger] self.has_first_core(y, c) by {
                assert(self.first_core_of(y, seeds[c], c));
            }
        }
    }
}
