// ---------------------------------------------------------------------------------------------
// C13/inc/fit_defs.rs -- ghost vocabulary of the DBSCAN::fit proof: the neighbourhood graph, core points, the two
// invariants (between expansions / during the expansion of one cluster) and one lemma per step of the algorithm.
// Pure spec + proof code, nothing trusted.  Labels: -3 undefined, -2 queued, -1 outlier (noise), >= 0 cluster.
// ---------------------------------------------------------------------------------------------

// the data of one clustering problem: metric, radius, rows of the training matrix, min_samples
pub struct G<T: RealNumber, D: Distance<Vec<T>, T>> {
    pub d: D,
    pub eps: T,
    pub rows: Seq<Seq<T>>,
    pub ms: int,
}

impl<T: RealNumber, D: Distance<Vec<T>, T>> G<T, D> {
    pub open spec fn n(self) -> int { self.rows.len() as int }
    // nb(i, j): row j lies within eps of row i
    pub open spec fn nb(self, i: int, j: int) -> bool { within_eps(self.d, self.rows[i], self.eps, self.rows[j]) }
    pub open spec fn nbp(self, i: int) -> spec_fn(int) -> bool { |j: int| self.nb(i, j) }
    // number of rows within eps of row i (row i itself counts if nb(i, i))
    pub open spec fn deg(self, i: int) -> int { count_range(self.nbp(i), self.n()) }
    // core point: at least min_samples rows within eps
    pub open spec fn core(self, i: int) -> bool { self.deg(i) >= self.ms }
    // the hypothesis on the metric that the proof uses (A-NB-METRIC): "within eps" is symmetric on the rows
    pub open spec fn sym(self) -> bool {
        forall|a: int, b: int| 0 <= a < self.n() && 0 <= b < self.n() && #[trigger] self.nb(a, b) ==> self.nb(b, a)
    }
    // row q has a core neighbour that carries label c
    pub open spec fn core_nb_labelled(self, y: Seq<i16>, q: int, c: int) -> bool {
        exists|j: int| 0 <= j < self.n() && #[trigger] self.nb(q, j) && self.core(j) && y[j] == c
    }
    pub open spec fn has_core_nb(self, q: int) -> bool {
        exists|j: int| 0 <= j < self.n() && #[trigger] self.nb(q, j) && self.core(j)
    }
    // a chain of core points, each within eps of the next (its end points are density-connected)
    pub open spec fn core_path(self, path: Seq<int>) -> bool {
        &&& path.len() >= 1
        &&& forall|a: int| 0 <= a < path.len() ==> 0 <= #[trigger] path[a] < self.n() && self.core(path[a])
        &&& forall|a: int| 0 <= a < path.len() - 1 ==> self.nb(#[trigger] path[a], path[a + 1])
    }
    pub open spec fn adjacent_cores_agree(self, y: Seq<i16>) -> bool {
        forall|q: int, j: int| 0 <= q < self.n() && 0 <= j < self.n() && self.core(q) && self.core(j) && #[trigger] self.nb(q, j) ==> y[q] == y[j]
    }
    // adjacent core points agree => all core points along a chain agree
    pub proof fn lemma_path(self, y: Seq<i16>, path: Seq<int>)
        requires self.adjacent_cores_agree(y), self.core_path(path),
        ensures y[path.first()] == y[path.last()]
        decreases path.len()
    {
        if path.len() >= 2 {
            let rest = path.drop_first();
            assert forall|a: int| 0 <= a < rest.len() implies 0 <= #[trigger] rest[a] < self.n() && self.core(rest[a]) by {
                assert(rest[a] == path[a + 1]);
            }
            assert forall|a: int| 0 <= a < rest.len() - 1 implies self.nb(#[trigger] rest[a], rest[a + 1]) by {
                assert(rest[a] == path[a + 1] && rest[a + 1] == path[a + 2]);
                assert(self.nb(path[a + 1], path[a + 2]));
            }
            self.lemma_path(y, rest);
            assert(self.nb(path[0], path[1]));
            assert(rest.first() == path[1] && rest.last() == path.last());
        }
    }

    // every core point with a label in [0, k) is closed: all its neighbours are clustered, its core neighbours in the same cluster
    pub open spec fn closed(self, y: Seq<i16>, k: int) -> bool {
        forall|q: int, j: int| #![trigger self.nb(q, j)]
            0 <= q < self.n() && 0 <= j < self.n() && 0 <= y[q] < k && self.core(q) && self.nb(q, j)
                ==> y[j] >= 0 && (self.core(j) ==> y[j] == y[q])
    }
    // every clustered non-core point carries the label of one of its core neighbours
    pub open spec fn border_ok(self, y: Seq<i16>) -> bool {
        forall|q: int| 0 <= q < self.n() && #[trigger] y[q] >= 0 && !self.core(q) ==> self.core_nb_labelled(y, q, y[q] as int)
    }
    pub open spec fn outlier_not_core(self, y: Seq<i16>) -> bool {
        forall|q: int| 0 <= q < self.n() && #[trigger] y[q] == -1 ==> !self.core(q)
    }

    // (O) between two expansions: i points visited, k clusters complete
    #[verifier::opaque]
    pub open spec fn inv_outer(self, y: Seq<i16>, i: int, k: int) -> bool {
        &&& self.sym()
        &&& y.len() == self.n() && self.n() <= i16::MAX
        &&& 0 <= k <= i <= self.n()
        &&& forall|q: int| 0 <= q < self.n() ==> (#[trigger] y[q] == -3 || y[q] == -1 || 0 <= y[q] < k)
        &&& forall|q: int| 0 <= q < i ==> #[trigger] y[q] != -3
        &&& self.outlier_not_core(y)
        &&& self.closed(y, k)
        &&& all_used(y, k)
        &&& self.border_ok(y)
    }

    // (E) while cluster k grows from seed i.  st: the stack of indices waiting; (p, pl, pf): the core point p whose neighbour
    // list pl is being scanned, entries pl[pf..] still to be looked at (p = -1: no scan in progress)
    #[verifier::opaque]
    pub open spec fn inv_exp(self, y: Seq<i16>, st: Seq<int>, i: int, k: int, p: int, pl: Seq<int>, pf: int) -> bool {
        &&& self.sym()
        &&& y.len() == self.n() && self.n() <= i16::MAX
        &&& 0 <= k <= i < self.n()
        &&& forall|q: int| 0 <= q < self.n() ==> (#[trigger] y[q] == -3 || y[q] == -2 || y[q] == -1 || 0 <= y[q] <= k)
        &&& forall|q: int| 0 <= q < i ==> #[trigger] y[q] != -3
        &&& self.outlier_not_core(y)
        // every queued point waits on the stack
        &&& forall|q: int| 0 <= q < self.n() && #[trigger] y[q] == -2 ==> on(st, q)
        &&& self.closed(y, k)
        // neighbours of a core point of the growing cluster are clustered or wait on the stack (or are still to be scanned)
        &&& forall|q: int, j: int| #![trigger self.nb(q, j)]
                0 <= q < self.n() && 0 <= j < self.n() && y[q] == k && self.core(q) && self.nb(q, j)
                    ==> settled(y, st, j) || (q == p && in_tail(pl, pf, j))
        &&& self.border_ok(y)
        // every stack entry is a neighbour of a core point of the growing cluster
        &&& forall|a: int| 0 <= a < st.len() ==> 0 <= #[trigger] st[a] < self.n() && self.core_nb_labelled(y, st[a], k)
        &&& y[i] == k && self.core(i)
        &&& all_used(y, k)
        &&& p >= 0 ==> {
                &&& p < self.n() && y[p] == k && self.core(p) && 0 <= pf <= pl.len()
                &&& forall|a: int| 0 <= a < pl.len() ==> 0 <= #[trigger] pl[a] < self.n() && self.nb(p, pl[a])
            }
    }
}

pub open spec fn on(st: Seq<int>, j: int) -> bool { exists|a: int| 0 <= a < st.len() && #[trigger] st[a] == j }
pub open spec fn in_tail(pl: Seq<int>, pf: int, j: int) -> bool { exists|a: int| pf <= a < pl.len() && #[trigger] pl[a] == j }
pub open spec fn settled(y: Seq<i16>, st: Seq<int>, j: int) -> bool { y[j] >= 0 || ((y[j] == -2 || y[j] == -1) && on(st, j)) }
pub open spec fn used(y: Seq<i16>, c: int) -> bool { exists|q: int| 0 <= q < y.len() && #[trigger] y[q] == c }
pub open spec fn all_used(y: Seq<i16>, k: int) -> bool { forall|c: int| 0 <= c < k ==> #[trigger] used(y, c) }
// label after looking at a neighbour: undefined becomes queued
pub open spec fn mark(y: Seq<i16>, j: int) -> Seq<i16> { if y[j] == -3 { y.update(j, -2i16) } else { y } }

// termination measure of the expansion loop: number of points whose label is still negative
pub open spec fn unlabelled(y: Seq<i16>, n: int) -> int
    decreases n
{
    if n <= 0 { 0 } else { unlabelled(y, n - 1) + if y[n - 1] < 0 { 1int } else { 0int } }
}
pub proof fn lemma_unl_bound(y: Seq<i16>, n: int)
    requires 0 <= n <= y.len()
    ensures 0 <= unlabelled(y, n) <= n
    decreases n
{
    if n > 0 { lemma_unl_bound(y, n - 1); }
}
pub proof fn lemma_unl_update(y: Seq<i16>, idx: int, v: i16, n: int)
    requires 0 <= idx < y.len(), 0 <= n <= y.len()
    ensures unlabelled(y.update(idx, v), n) == unlabelled(y, n)
        + (if idx < n { (if v < 0 { 1int } else { 0int }) - (if y[idx] < 0 { 1int } else { 0int }) } else { 0int })
    decreases n
{
    if n > 0 { lemma_unl_update(y, idx, v, n - 1); }
}

// writing to an entry whose label is negative keeps every used label used
pub proof fn lemma_used_update(y: Seq<i16>, idx: int, v: i16, k: int)
    requires all_used(y, k), 0 <= idx < y.len(), y[idx] < 0,
    ensures all_used(y.update(idx, v), k)
{
    let y2 = y.update(idx, v);
    assert forall|c: int| 0 <= c < k implies #[trigger] used(y2, c) by {
        assert(used(y, c));
        let q = choose|q: int| 0 <= q < y.len() && #[trigger] y[q] == c;
        assert(y2[q] == c);
    }
}

impl<T: RealNumber, D: Distance<Vec<T>, T>> G<T, D> {
    // border_ok / stack witnesses survive a write to an entry whose label is negative
    pub proof fn lemma_witness_update(self, y: Seq<i16>, idx: int, v: i16, q: int, c: int)
        requires self.core_nb_labelled(y, q, c), c >= 0, 0 <= idx < y.len(), y[idx] < 0, y.len() == self.n(),
        ensures self.core_nb_labelled(y.update(idx, v), q, c)
    {
        let j = choose|j: int| 0 <= j < self.n() && #[trigger] self.nb(q, j) && self.core(j) && y[j] == c;
        assert(y.update(idx, v)[j] == c);
    }

    // the invariants are opaque outside the lemmas of this file; the little the code itself needs from them:
    pub proof fn lemma_outer_basic(self, y: Seq<i16>, i: int, k: int)
        requires self.inv_outer(y, i, k),
        ensures y.len() == self.n(), 0 <= k <= i <= self.n(), self.n() <= i16::MAX
    {
        reveal(G::inv_outer); reveal(G::inv_exp);
    }
    pub proof fn lemma_exp_basic(self, y: Seq<i16>, st: Seq<int>, i: int, k: int, p: int, pl: Seq<int>, pf: int)
        requires self.inv_exp(y, st, i, k, p, pl, pf),
        ensures y.len() == self.n(), 0 <= k <= i < self.n(), self.n() <= i16::MAX,
            forall|q: int| 0 <= q < self.n() ==> #[trigger] y[q] >= -3
    {
        reveal(G::inv_outer); reveal(G::inv_exp);
    }
    pub proof fn lemma_exp_outlier_not_core(self, y: Seq<i16>, st: Seq<int>, i: int, k: int, p: int, pl: Seq<int>, pf: int, q: int)
        requires self.inv_exp(y, st, i, k, p, pl, pf), 0 <= q < self.n(), y[q] == -1,
        ensures !self.core(q)
    {
        reveal(G::inv_exp);
    }
    pub proof fn lemma_init(self, y: Seq<i16>)
        requires self.sym(), y.len() == self.n(), self.n() <= i16::MAX, forall|q: int| 0 <= q < y.len() ==> #[trigger] y[q] == -3,
        ensures self.inv_outer(y, 0, 0)
    {
        reveal(G::inv_outer); reveal(G::inv_exp);
    }

    // ---- outer loop steps -------------------------------------------------------------------------------------
    pub proof fn lemma_skip(self, y: Seq<i16>, i: int, k: int)
        requires self.inv_outer(y, i, k), i < self.n(), y[i] != -3,
        ensures self.inv_outer(y, i + 1, k)
    {
        reveal(G::inv_outer); reveal(G::inv_exp);
        // a visited point is an outlier or clustered; the number of clusters is at most the number of visited points
        assert(k <= i + 1);
    }

    pub proof fn lemma_outlier(self, y: Seq<i16>, i: int, k: int)
        requires self.inv_outer(y, i, k), i < self.n(), y[i] == -3, !self.core(i),
        ensures self.inv_outer(y.update(i, -1i16), i + 1, k)
    {
        reveal(G::inv_outer); reveal(G::inv_exp);
        let y2 = y.update(i, -1i16);
        lemma_used_update(y, i, -1i16, k);
        assert forall|q: int| 0 <= q < self.n() && #[trigger] y2[q] >= 0 && !self.core(q) implies self.core_nb_labelled(y2, q, y2[q] as int) by {
            assert(y[q] >= 0);
            self.lemma_witness_update(y, i, -1i16, q, y[q] as int);
        }
        assert(self.closed(y2, k)) by {
            assert forall|q: int, j: int| #![trigger self.nb(q, j)]
                0 <= q < self.n() && 0 <= j < self.n() && 0 <= y2[q] < k && self.core(q) && self.nb(q, j)
                    implies y2[j] >= 0 && (self.core(j) ==> y2[j] == y2[q]) by {
                assert(y[q] == y2[q]);
                assert(y[j] >= 0);
            }
        }
    }

    // seed: point i is undefined and core; nbl lists its neighbours
    pub proof fn lemma_seed(self, y: Seq<i16>, i: int, k: int, nbl: Seq<int>)
        requires self.inv_outer(y, i, k), i < self.n(), y[i] == -3, self.core(i), enumerates(nbl, self.nbp(i), self.n()),
        ensures self.inv_exp(y.update(i, k as i16), nbl, i, k, i, nbl, 0)
    {
        reveal(G::inv_outer); reveal(G::inv_exp);
        let y2 = y.update(i, k as i16);
        assert(k < self.n());
        lemma_used_update(y, i, k as i16, k);
        assert forall|q: int| 0 <= q < self.n() && #[trigger] y2[q] >= 0 && !self.core(q) implies self.core_nb_labelled(y2, q, y2[q] as int) by {
            assert(q != i);
            assert(y[q] >= 0);
            self.lemma_witness_update(y, i, k as i16, q, y[q] as int);
        }
        assert(self.closed(y2, k)) by {
            assert forall|q: int, j: int| #![trigger self.nb(q, j)]
                0 <= q < self.n() && 0 <= j < self.n() && 0 <= y2[q] < k && self.core(q) && self.nb(q, j)
                    implies y2[j] >= 0 && (self.core(j) ==> y2[j] == y2[q]) by {
                assert(q != i);
                assert(y[j] >= 0);
            }
        }
        assert forall|q: int, j: int| #![trigger self.nb(q, j)]
            0 <= q < self.n() && 0 <= j < self.n() && y2[q] == k && self.core(q) && self.nb(q, j)
                implies settled(y2, nbl, j) || (q == i && in_tail(nbl, 0, j)) by {
            assert(q == i);
            assert(self.nbp(i)(j));
            let a = choose|a: int| 0 <= a < nbl.len() && nbl[a] == j;
            assert(nbl[a] == j);
        }
        assert forall|a: int| 0 <= a < nbl.len() implies 0 <= #[trigger] nbl[a] < self.n() && self.core_nb_labelled(y2, nbl[a], k) by {
            assert(self.nbp(i)(nbl[a]));
            assert(self.nb(i, nbl[a]));
            self.lemma_sym_use(i, nbl[a]);
            assert(self.nb(nbl[a], i) && self.core(i) && y2[i] == k);
        }
        assert forall|a: int| 0 <= a < nbl.len() implies 0 <= #[trigger] nbl[a] < self.n() && self.nb(i, nbl[a]) by {
            assert(self.nbp(i)(nbl[a]));
        }
    }

    pub proof fn lemma_sym_use(self, a: int, b: int)
        requires self.sym(), 0 <= a < self.n(), 0 <= b < self.n(), self.nb(a, b),
        ensures self.nb(b, a)
    {
    }

    // ---- scanning the neighbour list pl of core point p: entry pl[a] = j ---------------------------------------------
    // undefined -> queued; `push`: j is pushed on the stack (otherwise, if j is undefined or an outlier, it is on the stack already)
    pub proof fn lemma_step(self, y: Seq<i16>, st: Seq<int>, i: int, k: int, p: int, pl: Seq<int>, a: int, push: bool)
        requires
            self.inv_exp(y, st, i, k, p, pl, a), p >= 0, 0 <= a < pl.len(),
            !push ==> ((y[pl[a]] == -3 || y[pl[a]] == -1) ==> on(st, pl[a])),
        ensures
            self.inv_exp(mark(y, pl[a]), if push { st.push(pl[a]) } else { st }, i, k, p, pl, a + 1)
    {
        reveal(G::inv_outer); reveal(G::inv_exp);
        let j = pl[a];
        let y2 = mark(y, j);
        let st2 = if push { st.push(j) } else { st };
        assert(0 <= j < self.n() && self.nb(p, j));
        assert forall|q: int| on(st, q) implies on(st2, q) by {
            let b = choose|b: int| 0 <= b < st.len() && #[trigger] st[b] == q;
            assert(st2[b] == q);
        }
        if push { assert(st2[st.len() as int] == j); assert(on(st2, j)); }
        if y[j] == -3 { lemma_used_update(y, j, -2i16, k); }
        assert forall|q: int| 0 <= q < self.n() && #[trigger] y2[q] >= 0 && !self.core(q) implies self.core_nb_labelled(y2, q, y2[q] as int) by {
            assert(y[q] >= 0);
            if y[j] == -3 { self.lemma_witness_update(y, j, -2i16, q, y[q] as int); }
        }
        assert(self.closed(y2, k)) by {
            assert forall|q: int, j2: int| #![trigger self.nb(q, j2)]
                0 <= q < self.n() && 0 <= j2 < self.n() && 0 <= y2[q] < k && self.core(q) && self.nb(q, j2)
                    implies y2[j2] >= 0 && (self.core(j2) ==> y2[j2] == y2[q]) by {
                assert(y[q] == y2[q]);
                assert(y[j2] >= 0);
            }
        }
        assert forall|q: int| 0 <= q < self.n() && #[trigger] y2[q] == -2 implies on(st2, q) by {
            if q == j { } else { assert(y[q] == -2); assert(on(st, q)); }
        }
        assert forall|q: int, j2: int| #![trigger self.nb(q, j2)]
            0 <= q < self.n() && 0 <= j2 < self.n() && y2[q] == k && self.core(q) && self.nb(q, j2)
                implies settled(y2, st2, j2) || (q == p && in_tail(pl, a + 1, j2)) by {
            assert(y[q] == k);
            if settled(y, st, j2) {
                if y[j2] >= 0 { } else { assert(on(st, j2)); assert(on(st2, j2)); }
            } else {
                assert(q == p && in_tail(pl, a, j2));
                let b = choose|b: int| a <= b < pl.len() && #[trigger] pl[b] == j2;
                if b == a {
                    assert(j2 == j);
                    assert(settled(y2, st2, j));
                } else {
                    assert(pl[b] == j2);
                    assert(in_tail(pl, a + 1, j2));
                }
            }
        }
        assert forall|b: int| 0 <= b < st2.len() implies 0 <= #[trigger] st2[b] < self.n() && self.core_nb_labelled(y2, st2[b], k) by {
            if b < st.len() {
                assert(st2[b] == st[b]);
                if y[j] == -3 { self.lemma_witness_update(y, j, -2i16, st[b], k); }
            } else {
                self.lemma_sym_use(p, j);
                assert(self.nb(j, p) && self.core(p) && y2[p] == k);
            }
        }
    }

    pub proof fn lemma_done_pending(self, y: Seq<i16>, st: Seq<int>, i: int, k: int, p: int, pl: Seq<int>)
        requires self.inv_exp(y, st, i, k, p, pl, pl.len() as int),
        ensures self.inv_exp(y, st, i, k, -1, Seq::<int>::empty(), 0)
    {
        reveal(G::inv_outer); reveal(G::inv_exp);
        assert forall|q: int, j: int| #![trigger self.nb(q, j)]
            0 <= q < self.n() && 0 <= j < self.n() && y[q] == k && self.core(q) && self.nb(q, j)
                implies settled(y, st, j) by {
            assert(!in_tail(pl, pl.len() as int, j));
        }
    }

    // ---- popping index idx = top of the stack --------------------------------------------------------------------
    pub open spec fn pop_pre(self, y: Seq<i16>, st: Seq<int>, i: int, k: int) -> bool {
        self.inv_exp(y, st, i, k, -1, Seq::<int>::empty(), 0) && st.len() > 0
    }
    proof fn lemma_on_pop(st: Seq<int>, q: int)
        requires on(st, q), st.len() > 0, q != st.last(),
        ensures on(st.drop_last(), q)
    {
        let b = choose|b: int| 0 <= b < st.len() && #[trigger] st[b] == q;
        assert(st.drop_last()[b] == q);
    }
    // already clustered: nothing happens
    pub proof fn lemma_pop_labelled(self, y: Seq<i16>, st: Seq<int>, i: int, k: int)
        requires self.pop_pre(y, st, i, k), y[st.last()] >= 0,
        ensures self.inv_exp(y, st.drop_last(), i, k, -1, Seq::<int>::empty(), 0)
    {
        reveal(G::inv_outer); reveal(G::inv_exp);
        let idx = st.last();
        let st2 = st.drop_last();
        assert(0 <= st[st.len() - 1] < self.n());
        assert forall|q: int| 0 <= q < self.n() && #[trigger] y[q] == -2 implies on(st2, q) by {
            assert(on(st, q)); Self::lemma_on_pop(st, q);
        }
        assert forall|q: int, j: int| #![trigger self.nb(q, j)]
            0 <= q < self.n() && 0 <= j < self.n() && y[q] == k && self.core(q) && self.nb(q, j)
                implies settled(y, st2, j) by {
            assert(settled(y, st, j));
            if y[j] < 0 { Self::lemma_on_pop(st, j); }
        }
        assert forall|b: int| 0 <= b < st2.len() implies 0 <= #[trigger] st2[b] < self.n() && self.core_nb_labelled(y, st2[b], k) by {
            assert(st2[b] == st[b]);
        }
    }
    // idx carries a negative label v0 (outlier: border relabelling; undefined/queued non-core point) and joins cluster k without being expanded
    pub proof fn lemma_pop_join(self, y: Seq<i16>, st: Seq<int>, i: int, k: int)
        requires self.pop_pre(y, st, i, k), y[st.last()] < 0, !self.core(st.last()),
        ensures self.inv_exp(y.update(st.last(), k as i16), st.drop_last(), i, k, -1, Seq::<int>::empty(), 0)
    {
        reveal(G::inv_outer); reveal(G::inv_exp);
        let idx = st.last();
        let st2 = st.drop_last();
        let y2 = y.update(idx, k as i16);
        assert(0 <= st[st.len() - 1] < self.n() && self.core_nb_labelled(y, st[st.len() - 1], k));
        assert(k < self.n());
        lemma_used_update(y, idx, k as i16, k);
        self.lemma_pop_common(y, st, i, k);
        assert forall|q: int| 0 <= q < self.n() && #[trigger] y2[q] >= 0 && !self.core(q) implies self.core_nb_labelled(y2, q, y2[q] as int) by {
            if q == idx {
                self.lemma_witness_update(y, idx, k as i16, idx, k);
            } else {
                assert(y[q] >= 0);
                self.lemma_witness_update(y, idx, k as i16, q, y[q] as int);
            }
        }
        assert forall|q: int, j: int| #![trigger self.nb(q, j)]
            0 <= q < self.n() && 0 <= j < self.n() && y2[q] == k && self.core(q) && self.nb(q, j)
                implies settled(y2, st2, j) by {
            assert(q != idx);
            assert(y[q] == k);
            assert(settled(y, st, j));
            if j != idx && y[j] < 0 { Self::lemma_on_pop(st, j); }
        }
    }
    // the parts of a pop with relabelling to k that do not depend on whether idx is core
    proof fn lemma_pop_common(self, y: Seq<i16>, st: Seq<int>, i: int, k: int)
        requires self.pop_pre(y, st, i, k), y[st.last()] < 0,
        ensures ({
            let idx = st.last(); let st2 = st.drop_last(); let y2 = y.update(idx, k as i16);
            &&& 0 <= idx < self.n()
            &&& self.closed(y2, k)
            &&& self.outlier_not_core(y2)
            &&& forall|q: int| 0 <= q < self.n() && #[trigger] y2[q] == -2 ==> on(st2, q)
            &&& forall|b: int| 0 <= b < st2.len() ==> 0 <= #[trigger] st2[b] < self.n() && self.core_nb_labelled(y2, st2[b], k)
            &&& forall|q: int| 0 <= q < self.n() ==> (#[trigger] y2[q] == -3 || y2[q] == -2 || y2[q] == -1 || 0 <= y2[q] <= k)
            &&& forall|q: int| 0 <= q < i ==> #[trigger] y2[q] != -3
            &&& y2[i] == k
        })
    {
        reveal(G::inv_outer); reveal(G::inv_exp);
        let idx = st.last(); let st2 = st.drop_last(); let y2 = y.update(idx, k as i16);
        assert(0 <= st[st.len() - 1] < self.n());
        assert(k < self.n());
        assert(self.closed(y2, k)) by {
            assert forall|q: int, j: int| #![trigger self.nb(q, j)]
                0 <= q < self.n() && 0 <= j < self.n() && 0 <= y2[q] < k && self.core(q) && self.nb(q, j)
                    implies y2[j] >= 0 && (self.core(j) ==> y2[j] == y2[q]) by {
                assert(q != idx);
                assert(y[j] >= 0);
            }
        }
        assert forall|q: int| 0 <= q < self.n() && #[trigger] y2[q] == -2 implies on(st2, q) by {
            assert(y[q] == -2 && q != idx); assert(on(st, q)); Self::lemma_on_pop(st, q);
        }
        assert forall|b: int| 0 <= b < st2.len() implies 0 <= #[trigger] st2[b] < self.n() && self.core_nb_labelled(y2, st2[b], k) by {
            assert(st2[b] == st[b]);
            self.lemma_witness_update(y, idx, k as i16, st[b], k);
        }
        assert forall|q: int| 0 <= q < self.n() implies (#[trigger] y2[q] == -3 || y2[q] == -2 || y2[q] == -1 || 0 <= y2[q] <= k) by {
            if q != idx { assert(y[q] == y2[q]); }
        }
    }
    // idx is undefined/queued and core: it joins cluster k and its neighbour list sec is scanned next
    pub proof fn lemma_pop_core(self, y: Seq<i16>, st: Seq<int>, i: int, k: int, sec: Seq<int>)
        requires self.pop_pre(y, st, i, k), y[st.last()] < 0, self.core(st.last()), enumerates(sec, self.nbp(st.last()), self.n()),
        ensures self.inv_exp(y.update(st.last(), k as i16), st.drop_last(), i, k, st.last(), sec, 0)
    {
        reveal(G::inv_outer); reveal(G::inv_exp);
        let idx = st.last();
        let st2 = st.drop_last();
        let y2 = y.update(idx, k as i16);
        assert(k < self.n());
        lemma_used_update(y, idx, k as i16, k);
        self.lemma_pop_common(y, st, i, k);
        assert(y[idx] != -1);
        assert forall|q: int| 0 <= q < self.n() && #[trigger] y2[q] >= 0 && !self.core(q) implies self.core_nb_labelled(y2, q, y2[q] as int) by {
            assert(q != idx);
            assert(y[q] >= 0);
            self.lemma_witness_update(y, idx, k as i16, q, y[q] as int);
        }
        assert forall|q: int, j: int| #![trigger self.nb(q, j)]
            0 <= q < self.n() && 0 <= j < self.n() && y2[q] == k && self.core(q) && self.nb(q, j)
                implies settled(y2, st2, j) || (q == idx && in_tail(sec, 0, j)) by {
            if q == idx {
                assert(self.nbp(idx)(j));
                let a = choose|a: int| 0 <= a < sec.len() && sec[a] == j;
                assert(sec[a] == j);
            } else {
                assert(y[q] == k);
                assert(settled(y, st, j));
                if j != idx && y[j] < 0 { Self::lemma_on_pop(st, j); }
            }
        }
        assert forall|a: int| 0 <= a < sec.len() implies 0 <= #[trigger] sec[a] < self.n() && self.nb(idx, sec[a]) by {
            assert(self.nbp(idx)(sec[a]));
        }
    }

    // ---- the stack is empty: cluster k is complete -----------------------------------------------------------------
    pub proof fn lemma_finish(self, y: Seq<i16>, i: int, k: int)
        requires self.inv_exp(y, Seq::<int>::empty(), i, k, -1, Seq::<int>::empty(), 0),
        ensures self.inv_outer(y, i + 1, k + 1)
    {
        reveal(G::inv_outer); reveal(G::inv_exp);
        let st = Seq::<int>::empty();
        assert forall|q: int| !on(st, q) by { }
        assert forall|q: int| 0 <= q < self.n() implies (#[trigger] y[q] == -3 || y[q] == -1 || 0 <= y[q] < k + 1) by {
            if y[q] == -2 { assert(on(st, q)); }
        }
        assert(all_used(y, k + 1)) by {
            assert forall|c: int| 0 <= c < k + 1 implies #[trigger] used(y, c) by {
                if c == k { assert(y[i] == c); }
            }
        }
        assert(self.closed(y, k + 1)) by {
            assert forall|q: int, j: int| #![trigger self.nb(q, j)]
                0 <= q < self.n() && 0 <= j < self.n() && 0 <= y[q] < k + 1 && self.core(q) && self.nb(q, j)
                    implies y[j] >= 0 && (self.core(j) ==> y[j] == y[q]) by {
                if y[q] == k {
                    assert(settled(y, st, j));
                    assert(y[j] >= 0);
                    if self.core(j) && y[j] != k {
                        // j is a closed core point of an earlier cluster and q its neighbour: q would carry j's label
                        self.lemma_sym_use(q, j);
                        assert(self.nb(j, q));
                        assert(0 <= y[j] < k);
                        assert(y[q] == y[j]);
                    }
                }
            }
        }
    }

    // ---- what the final state means (postconditions of fit) ---------------------------------------------------------
    pub proof fn lemma_final(self, y: Seq<i16>, k: int)
        requires self.inv_outer(y, self.n(), k),
        ensures
            forall|q: int| 0 <= q < self.n() ==> (#[trigger] y[q] == -1 || 0 <= y[q] < k),
            all_used(y, k),
            forall|q: int| 0 <= q < self.n() && self.core(q) ==> #[trigger] y[q] >= 0,
            forall|q: int, j: int| 0 <= q < self.n() && 0 <= j < self.n() && self.core(q) && self.core(j) && #[trigger] self.nb(q, j) ==> y[q] == y[j],
            forall|path: Seq<int>| #[trigger] self.core_path(path) ==> y[path.first()] == y[path.last()],
            forall|q: int| 0 <= q < self.n() && !self.core(q) && self.has_core_nb(q) ==> self.core_nb_labelled(y, q, #[trigger] y[q] as int),
            forall|q: int| 0 <= q < self.n() && #[trigger] y[q] == -1 ==> !self.core(q) && !self.has_core_nb(q),
            forall|q: int| 0 <= q < self.n() && !self.core(q) && !self.has_core_nb(q) ==> #[trigger] y[q] == -1,
    {
        reveal(G::inv_outer); reveal(G::inv_exp);
        assert forall|q: int| 0 <= q < self.n() && self.core(q) implies #[trigger] y[q] >= 0 by {
            assert(y[q] != -3);
            if y[q] == -1 { }
        }
        assert forall|q: int, j: int| 0 <= q < self.n() && 0 <= j < self.n() && self.core(q) && self.core(j) && #[trigger] self.nb(q, j) implies y[q] == y[j] by {
            assert(y[q] >= 0);
        }
        assert forall|path: Seq<int>| #[trigger] self.core_path(path) implies y[path.first()] == y[path.last()] by {
            self.lemma_path(y, path);
        }
        // a point with a core neighbour is clustered
        assert forall|q: int| 0 <= q < self.n() && self.has_core_nb(q) implies #[trigger] y[q] >= 0 by {
            let j = choose|j: int| 0 <= j < self.n() && #[trigger] self.nb(q, j) && self.core(j);
            assert(y[j] >= 0);
            self.lemma_sym_use(q, j);
            assert(self.nb(j, q));
        }
        assert forall|q: int| 0 <= q < self.n() && !self.core(q) && !self.has_core_nb(q) implies #[trigger] y[q] == -1 by {
            assert(y[q] != -3);
            if y[q] >= 0 {
                assert(self.core_nb_labelled(y, q, y[q] as int));
                let j = choose|j: int| 0 <= j < self.n() && #[trigger] self.nb(q, j) && self.core(j) && y[j] == y[q] as int;
                assert(self.nb(q, j) && self.core(j));
            }
        }
    }
}

// ---------------------------------------------------------------------------------------------
// Quantified forms of the step lemmas.  The proof hints of `fit` are attached at ordinal positions only (function entry,
// start / end of a loop body), where the result of a later statement of the body (the answer of a radius search) is not
// known yet: these wrappers state a step "for every answer".  They have no code-dependent precondition, so that a change
// of the code shows up as a failed (labelled) invariant, not as a failed lemma precondition.
// ---------------------------------------------------------------------------------------------
impl<T: RealNumber, D: Distance<Vec<T>, T>> G<T, D> {
    // before the first point is visited
    pub proof fn lemma_init_q(self)
        requires self.sym(),
        ensures
            forall|y: Seq<i16>| (y.len() == self.n() && self.n() <= i16::MAX && forall|q: int| 0 <= q < y.len() ==> #[trigger] y[q] == -3)
                ==> #[trigger] self.inv_outer(y, 0, 0),
    {
        assert forall|y: Seq<i16>| (y.len() == self.n() && self.n() <= i16::MAX && forall|q: int| 0 <= q < y.len() ==> #[trigger] y[q] == -3)
            implies #[trigger] self.inv_outer(y, 0, 0) by {
            self.lemma_init(y);
        }
    }
    // point i becomes the seed of cluster k, whatever list enumerates its neighbours
    pub proof fn lemma_seed_q(self, y: Seq<i16>, i: int, k: int)
        requires self.inv_outer(y, i, k), i < self.n(), y[i] == -3, self.core(i),
        ensures
            forall|nbl: Seq<int>| #![trigger enumerates(nbl, self.nbp(i), self.n())] #![trigger self.inv_exp(y.update(i, k as i16), nbl, i, k, i, nbl, 0)]
                enumerates(nbl, self.nbp(i), self.n()) ==> self.inv_exp(y.update(i, k as i16), nbl, i, k, i, nbl, 0),
    {
        assert forall|nbl: Seq<int>| enumerates(nbl, self.nbp(i), self.n()) implies self.inv_exp(y.update(i, k as i16), nbl, i, k, i, nbl, 0) by {
            self.lemma_seed(y, i, k, nbl);
        }
    }
    // the top of the stack is an undefined/queued core point: it joins cluster k, whatever list enumerates its neighbours
    pub proof fn lemma_pop_core_q(self, y: Seq<i16>, st: Seq<int>, i: int, k: int)
        requires self.pop_pre(y, st, i, k), y[st.last()] < 0, self.core(st.last()),
        ensures
            forall|sec: Seq<int>| #![trigger enumerates(sec, self.nbp(st.last()), self.n())]
                    #![trigger self.inv_exp(y.update(st.last(), k as i16), st.drop_last(), i, k, st.last(), sec, 0)]
                enumerates(sec, self.nbp(st.last()), self.n())
                    ==> self.inv_exp(y.update(st.last(), k as i16), st.drop_last(), i, k, st.last(), sec, 0),
    {
        assert forall|sec: Seq<int>| enumerates(sec, self.nbp(st.last()), self.n())
            implies self.inv_exp(y.update(st.last(), k as i16), st.drop_last(), i, k, st.last(), sec, 0) by {
            self.lemma_pop_core(y, st, i, k, sec);
        }
    }
    // (a) a completely scanned neighbour list is no longer pending; (b) an empty stack with nothing pending: cluster k is complete
    pub proof fn lemma_close_q(self, i: int, k: int)
        ensures
            forall|y: Seq<i16>, st: Seq<int>, p: int, pl: Seq<int>, pf: int| #[trigger] self.inv_exp(y, st, i, k, p, pl, pf) && pf >= pl.len()
                ==> self.inv_exp(y, st, i, k, -1, Seq::<int>::empty(), 0),
            forall|y: Seq<i16>, st: Seq<int>| #[trigger] self.inv_exp(y, st, i, k, -1, Seq::<int>::empty(), 0) && st.len() == 0
                ==> self.inv_outer(y, i + 1, k + 1),
    {
        assert forall|y: Seq<i16>, st: Seq<int>, p: int, pl: Seq<int>, pf: int| #[trigger] self.inv_exp(y, st, i, k, p, pl, pf) && pf >= pl.len()
            implies self.inv_exp(y, st, i, k, -1, Seq::<int>::empty(), 0) by {
            if p >= 0 {
                assert(pf == pl.len()) by { reveal(G::inv_exp); }
                self.lemma_done_pending(y, st, i, k, p, pl);
            } else {
                reveal(G::inv_exp);
                assert forall|q: int, j: int| #![trigger self.nb(q, j)]
                    0 <= q < self.n() && 0 <= j < self.n() && y[q] == k && self.core(q) && self.nb(q, j)
                        implies settled(y, st, j) by {
                    assert(q != p);
                }
            }
        }
        assert forall|y: Seq<i16>, st: Seq<int>| #[trigger] self.inv_exp(y, st, i, k, -1, Seq::<int>::empty(), 0) && st.len() == 0
            implies self.inv_outer(y, i + 1, k + 1) by {
            assert(st =~= Seq::<int>::empty());
            self.lemma_finish(y, i, k);
        }
    }
}
