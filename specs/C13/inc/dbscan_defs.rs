// ---------------------------------------------------------------------------------------------
// C13/inc/dbscan_defs.rs -- the DBSCAN model object and its representation invariant (shared by predict / fit units)
// ---------------------------------------------------------------------------------------------
//@struct src/cluster/dbscan.rs :: DBSCAN
//@struct src/cluster/dbscan.rs :: DBSCANParameters

impl<T: RealNumber, D: Distance<Vec<T>, T>> DBSCAN<T, D> {
    // one label per training point, every label is noise (negative) or a cluster number < num_classes
    spec fn wf(&self) -> bool {
        &&& self.cluster_labels@.len() == self.knn_algorithm.npoints()
        &&& self.num_classes <= i16::MAX
        &&& forall|j: int| 0 <= j < self.cluster_labels@.len() ==> -1 <= #[trigger] self.cluster_labels@[j] < self.num_classes
    }
}
