// ---------------------------------------------------------------------------------------------
// C13/inc/conn_defs.rs -- the converse direction: core points with the same label are density-connected, and clusters are
// numbered in the order of their first core point.  Ghost bookkeeping: seeds[c] = the point from which cluster c was grown.
// Needs C13/inc/fit_defs.rs.  Pure spec + proof code, nothing trusted.
// ---------------------------------------------------------------------------------------------
impl<T: RealNumber, D: Distance<Vec<T>, T>> G<T, D> {
    // a and b are density-connected: joined by a chain of core points, each within eps of the next
    pub open spec fn reach(self, a: int, b: int) -> bool {
        exists|path: Seq<int>| #[trigger] self.core_path(path) && path.first() == a && path.last() == b
    }
    #[verifier::opaque]
    pub open spec fn conn_ok(self, y: Seq<i16>, seeds: Seq<int>) -> bool {
        &&& y.len() == self.n()
        // the seed of cluster c is a core point labelled c ...
        &&& forall|c: int| 0 <= c < seeds.len() ==> 0 <= #[trigger] seeds[c] < self.n() && self.core(seeds[c]) && y[seeds[c]] == c
        // ... every core point before it belongs to an earlier cluster ...
        &&& forall|c: int, q: int| #![trigger seeds[c], y[q]] 0 <= c < seeds.len() && 0 <= q < seeds[c] && self.core(q) ==> 0 <= y[q] < c
        // ... and every clustered core point is density-connected to the seed of its cluster
        &&& forall|q: int| 0 <= q < self.n() && self.core(q) && #[trigger] y[q] >= 0 ==> y[q] < seeds.len() && self.reach(seeds[y[q] as int], q)
    }

    pub proof fn lemma_conn_init(self, y: Seq<i16>)
        requires y.len() == self.n(), forall|q: int| 0 <= q < y.len() ==> #[trigger] y[q] == -3,
        ensures self.conn_ok(y, Seq::<int>::empty())
    {
        reveal(G::inv_outer); reveal(G::conn_ok);
    }

    // a write that does not give a core point a cluster label: nothing changes for conn_ok
    pub proof fn lemma_conn_other(self, y: Seq<i16>, seeds: Seq<int>, idx: int, v: i16)
        requires self.conn_ok(y, seeds), 0 <= idx < self.n(), y[idx] < 0, v < 0 || !self.core(idx),
        ensures self.conn_ok(y.update(idx, v), seeds)
    {
        reveal(G::inv_outer); reveal(G::conn_ok);
        let y2 = y.update(idx, v);
        assert forall|q: int| 0 <= q < self.n() && self.core(q) && #[trigger] y2[q] >= 0 implies y2[q] < seeds.len() && self.reach(seeds[y2[q] as int], q) by {
            assert(q != idx);
            assert(y[q] >= 0);
        }
        assert forall|c: int, q: int| #![trigger seeds[c], y2[q]] 0 <= c < seeds.len() && 0 <= q < seeds[c] && self.core(q) implies 0 <= y2[q] < c by {
            assert(0 <= y[q] < c);
        }
    }

    // point i becomes the seed of the new cluster k = seeds.len(): it is visited in index order, so every core point before it is clustered already
    pub proof fn lemma_conn_seed(self, y: Seq<i16>, seeds: Seq<int>, i: int, k: int)
        requires self.conn_ok(y, seeds), self.inv_outer(y, i, k), seeds.len() == k, i < self.n(), y[i] == -3, self.core(i),
        ensures self.conn_ok(y.update(i, k as i16), seeds.push(i))
    {
        reveal(G::inv_outer); reveal(G::conn_ok);
        let y2 = y.update(i, k as i16);
        let s2 = seeds.push(i);
        assert(k < self.n());
        assert forall|c: int| 0 <= c < s2.len() implies 0 <= #[trigger] s2[c] < self.n() && self.core(s2[c]) && y2[s2[c]] == c by {
            if c < k { assert(s2[c] == seeds[c]); assert(y[seeds[c]] == c); }
        }
        assert forall|c: int, q: int| #![trigger s2[c], y2[q]] 0 <= c < s2.len() && 0 <= q < s2[c] && self.core(q) implies 0 <= y2[q] < c by {
            if c < k {
                assert(s2[c] == seeds[c]);
                assert(0 <= y[q] < c);
            } else {
                // q < i: visited, and a core point is not an outlier
                assert(y[q] != -3);
                assert(y[q] != -1);
            }
        }
        assert forall|q: int| 0 <= q < self.n() && self.core(q) && #[trigger] y2[q] >= 0 implies y2[q] < s2.len() && self.reach(s2[y2[q] as int], q) by {
            if q == i {
                let path = seq![i];
                assert(self.core_path(path));
                assert(path.first() == i && path.last() == i);
            } else {
                assert(y[q] >= 0);
                assert(s2[y[q] as int] == seeds[y[q] as int]);
            }
        }
    }

    // core point idx joins cluster k because it is a neighbour of a core point of cluster k
    pub proof fn lemma_conn_core_join(self, y: Seq<i16>, seeds: Seq<int>, idx: int, k: int)
        requires
            self.conn_ok(y, seeds), self.sym(), 0 <= idx < self.n(), y[idx] < 0, self.core(idx), 0 <= k <= i16::MAX,
            self.core_nb_labelled(y, idx, k),
        ensures self.conn_ok(y.update(idx, k as i16), seeds)
    {
        reveal(G::inv_outer); reveal(G::conn_ok);
        let y2 = y.update(idx, k as i16);
        let j = choose|j: int| 0 <= j < self.n() && #[trigger] self.nb(idx, j) && self.core(j) && y[j] == k;
        assert(y[j] >= 0);
        assert(k < seeds.len() && self.reach(seeds[k], j));
        let path = choose|path: Seq<int>| #[trigger] self.core_path(path) && path.first() == seeds[k] && path.last() == j;
        self.lemma_sym_use(idx, j);
        self.lemma_path_push(path, idx);
        assert forall|q: int| 0 <= q < self.n() && self.core(q) && #[trigger] y2[q] >= 0 implies y2[q] < seeds.len() && self.reach(seeds[y2[q] as int], q) by {
            if q == idx {
                let p2 = path.push(idx);
                assert(self.core_path(p2) && p2.first() == seeds[k] && p2.last() == idx);
            } else {
                assert(y[q] >= 0);
            }
        }
        assert forall|c: int, q: int| #![trigger seeds[c], y2[q]] 0 <= c < seeds.len() && 0 <= q < seeds[c] && self.core(q) implies 0 <= y2[q] < c by {
            assert(0 <= y[q] < c);
        }
        assert forall|c: int| 0 <= c < seeds.len() implies 0 <= #[trigger] seeds[c] < self.n() && self.core(seeds[c]) && y2[seeds[c]] == c by {
            assert(y[seeds[c]] == c);
        }
    }

    // the same, for the top of the stack during an expansion (every stack entry has a core neighbour in cluster k)
    pub proof fn lemma_conn_pop_core(self, y: Seq<i16>, st: Seq<int>, seeds: Seq<int>, i: int, k: int)
        requires self.conn_ok(y, seeds), self.pop_pre(y, st, i, k), y[st.last()] < 0, self.core(st.last()),
        ensures self.conn_ok(y.update(st.last(), k as i16), seeds)
    {
        reveal(G::inv_exp);
        assert(0 <= st[st.len() - 1] < self.n() && self.core_nb_labelled(y, st[st.len() - 1], k));
        self.lemma_conn_core_join(y, seeds, st.last(), k);
    }

    // ---- chains ---------------------------------------------------------------------------------------------------
    pub proof fn lemma_path_push(self, path: Seq<int>, b: int)
        requires self.core_path(path), 0 <= b < self.n(), self.core(b), self.nb(path.last(), b),
        ensures self.core_path(path.push(b)), path.push(b).first() == path.first(), path.push(b).last() == b
    {
        let p2 = path.push(b);
        assert forall|a: int| 0 <= a < p2.len() implies 0 <= #[trigger] p2[a] < self.n() && self.core(p2[a]) by {
            if a < path.len() { assert(p2[a] == path[a]); }
        }
        assert forall|a: int| 0 <= a < p2.len() - 1 implies self.nb(#[trigger] p2[a], p2[a + 1]) by {
            if a < path.len() - 1 { assert(p2[a] == path[a] && p2[a + 1] == path[a + 1]); assert(self.nb(path[a], path[a + 1])); }
            else { assert(p2[a] == path.last() && p2[a + 1] == b); }
        }
    }
    pub proof fn lemma_path_concat(self, p1: Seq<int>, p2: Seq<int>)
        requires self.core_path(p1), self.core_path(p2), p1.last() == p2.first(),
        ensures self.reach(p1.first(), p2.last())
        decreases p2.len()
    {
        if p2.len() == 1 {
            assert(self.core_path(p1) && p1.last() == p2.last());
        } else {
            let b = p2[1];
            assert(self.nb(p2[0], p2[1]));
            assert(0 <= p2[1] < self.n() && self.core(p2[1]));
            self.lemma_path_push(p1, b);
            let rest = p2.drop_first();
            assert forall|a: int| 0 <= a < rest.len() implies 0 <= #[trigger] rest[a] < self.n() && self.core(rest[a]) by {
                assert(rest[a] == p2[a + 1]);
            }
            assert forall|a: int| 0 <= a < rest.len() - 1 implies self.nb(#[trigger] rest[a], rest[a + 1]) by {
                assert(rest[a] == p2[a + 1] && rest[a + 1] == p2[a + 2]);
                assert(self.nb(p2[a + 1], p2[a + 2]));
            }
            assert(rest.first() == b && rest.last() == p2.last());
            self.lemma_path_concat(p1.push(b), rest);
        }
    }
    // density-connectedness is symmetric (because "within eps" is)
    pub proof fn lemma_reach_sym(self, a: int, b: int)
        requires self.sym(), self.reach(a, b),
        ensures self.reach(b, a)
    {
        let path = choose|path: Seq<int>| #[trigger] self.core_path(path) && path.first() == a && path.last() == b;
        let r = path.reverse();
        assert forall|i: int| 0 <= i < r.len() implies 0 <= #[trigger] r[i] < self.n() && self.core(r[i]) by {
            assert(r[i] == path[path.len() - 1 - i]);
        }
        assert forall|i: int| 0 <= i < r.len() - 1 implies self.nb(#[trigger] r[i], r[i + 1]) by {
            let m = path.len() - 2 - i;
            assert(r[i] == path[m + 1] && r[i + 1] == path[m]);
            assert(self.nb(path[m], path[m + 1]));
            self.lemma_sym_use(path[m], path[m + 1]);
        }
        assert(self.core_path(r) && r.first() == b && r.last() == a);
    }
    pub proof fn lemma_reach_trans(self, a: int, b: int, c: int)
        requires self.reach(a, b), self.reach(b, c),
        ensures self.reach(a, c)
    {
        let p1 = choose|path: Seq<int>| #[trigger] self.core_path(path) && path.first() == a && path.last() == b;
        let p2 = choose|path: Seq<int>| #[trigger] self.core_path(path) && path.first() == b && path.last() == c;
        self.lemma_path_concat(p1, p2);
    }

    // ---- what conn_ok means at the end ---------------------------------------------------------------------------------
    pub proof fn lemma_conn_final(self, y: Seq<i16>, seeds: Seq<int>)
        requires self.conn_ok(y, seeds), self.sym(),
        ensures
            forall|q: int, j: int| #![trigger y[q], y[j]] 0 <= q < self.n() && 0 <= j < self.n() && self.core(q) && self.core(j) && y[q] >= 0 && y[q] == y[j]
                ==> self.reach(q, j),
            forall|c: int| 0 <= c < seeds.len() ==> self.first_core_of(y, #[trigger] seeds[c], c),
    {
        reveal(G::inv_outer); reveal(G::conn_ok);
        assert forall|q: int, j: int| #![trigger y[q], y[j]] 0 <= q < self.n() && 0 <= j < self.n() && self.core(q) && self.core(j) && y[q] >= 0 && y[q] == y[j]
            implies self.reach(q, j) by {
            let s = seeds[y[q] as int];
            assert(self.reach(s, q) && self.reach(s, j));
            self.lemma_reach_sym(s, q);
            self.lemma_reach_trans(q, s, j);
        }
        assert forall|c: int| 0 <= c < seeds.len() implies self.first_core_of(y, #[trigger] seeds[c], c) by {
            let s = seeds[c];
            assert forall|q: int| 0 <= q < s && self.core(q) implies 0 <= #[trigger] y[q] < c by {
                assert(seeds[c] == s);
            }
        }
    }
    // s is a core point labelled c and every core point before s carries a smaller cluster number
    pub open spec fn first_core_of(self, y: Seq<i16>, s: int, c: int) -> bool {
        &&& 0 <= s < self.n() && self.core(s) && y[s] == c
        &&& forall|q: int| 0 <= q < s && self.core(q) ==> 0 <= #[trigger] y[q] < c
    }
    // cluster c has a first core point
    pub open spec fn has_first_core(self, y: Seq<i16>, c: int) -> bool {
        exists|s: int| #[trigger] self.first_core_of(y, s, c)
    }
}

// quantified form (see the end of fit_defs.rs)
impl<T: RealNumber, D: Distance<Vec<T>, T>> G<T, D> {
    pub proof fn lemma_conn_init_q(self)
        ensures
            forall|y: Seq<i16>| (y.len() == self.n() && forall|q: int| 0 <= q < y.len() ==> #[trigger] y[q] == -3)
                ==> #[trigger] self.conn_ok(y, Seq::<int>::empty()),
    {
        assert forall|y: Seq<i16>| (y.len() == self.n() && forall|q: int| 0 <= q < y.len() ==> #[trigger] y[q] == -3)
            implies #[trigger] self.conn_ok(y, Seq::<int>::empty()) by {
            self.lemma_conn_init(y);
        }
    }
}
