//@unit tier=quick
//@include prelude/uses.rs
verus! {
//@include prelude/realnumber.rs
//@include prelude/order.rs
//@include prelude/basevector.rs
//@include prelude/matrix_abs2.rs
//@include prelude/distance.rs
//@include prelude/error.rs
//@include prelude/knn_abs.rs
//@include prelude/which_max.rs
//@include prelude/enum_count.rs
//@include C13/inc/dbscan_defs.rs

// C13 (part 1): DBSCAN::predict labels a new row by plurality among the training points within eps of it;
// noise when there are none or when unclustered (noise) training points dominate.

// the tally slot a training label votes in: cluster c votes in slot c, noise (negative) in slot k = num_classes
pub open spec fn slot(y: i16, k: int) -> int { if y < 0 { k } else { y as int } }

impl<T: RealNumber, D: Distance<Vec<T>, T>> DBSCAN<T, D> {
    spec fn k(&self) -> int { self.num_classes as int }
    spec fn noise() -> T { T::one_spec().neg_spec() }
    // "training point j lies within eps of q"
    spec fn near(&self, q: Seq<T>) -> spec_fn(int) -> bool {
        |j: int| self.knn_algorithm.within(q, self.eps, j)
    }
    spec fn votes_in(&self, c: int) -> spec_fn(int) -> bool {
        |j: int| slot(self.cluster_labels@[j], self.k()) == c
    }
    // votes(q, c): number of training points within eps of q that vote in slot c
    spec fn votes(&self, q: Seq<T>, c: int) -> int {
        count_range(|j: int| self.near(q)(j) && self.votes_in(c)(j), self.knn_algorithm.npoints())
    }
    spec fn has_neighbour(&self, q: Seq<T>) -> bool {
        exists|j: int| 0 <= j < self.knn_algorithm.npoints() && self.knn_algorithm.within(q, self.eps, j)
    }
    // unclustered neighbours strictly outnumber the neighbours of every single cluster
    spec fn noise_dominates(&self, q: Seq<T>) -> bool {
        forall|c: int| 0 <= c < self.k() ==> #[trigger] self.votes(q, c) < self.votes(q, self.k())
    }
    // c is a cluster with a maximal number of votes (noise slot included); ties go to the smallest label
    spec fn plurality_cluster(&self, q: Seq<T>, c: int) -> bool {
        &&& 0 <= c < self.k()
        &&& forall|c2: int| 0 <= c2 <= self.k() ==> #[trigger] self.votes(q, c2) <= self.votes(q, c)
        &&& forall|c2: int| 0 <= c2 < c ==> #[trigger] self.votes(q, c2) < self.votes(q, c)
    }

    // v is the label of a cluster with the largest number of votes
    spec fn is_plurality_label(&self, q: Seq<T>, v: T) -> bool {
        exists|c: int| #[trigger] self.plurality_cluster(q, c) && v == T::from_spec::<usize>(c as usize)
    }

    // the tally over the list returned by find_radius equals the count over the training set
    proof fn lemma_tally_is_votes(&self, q: Seq<T>, v: Seq<(usize, T, &Vec<T>)>, c: int)
        requires self.knn_algorithm.radius_answer(q, self.eps, v),
        ensures count_list(idxs(v), self.votes_in(c), v.len() as int) == self.votes(q, c),
    {
        let idx = idxs(v);
        let n = self.knn_algorithm.npoints();
        assert forall|j: int| 0 <= j < n && #[trigger] self.near(q)(j) implies exists|a: int| 0 <= a < idx.len() && idx[a] == j by {
            assert(self.knn_algorithm.within(q, self.eps, j));
            let a = choose|a: int| 0 <= a < v.len() && (#[trigger] v[a]).0 == j;
            assert(idx[a] == j);
        }
        assert forall|a: int| 0 <= a < idx.len() implies 0 <= #[trigger] idx[a] < n && self.near(q)(idx[a]) by {
            assert(0 <= v[a].0 < n);
        }
        assert forall|a: int, b: int| 0 <= a < b < idx.len() implies idx[a] != idx[b] by {
            assert(v[a].0 != v[b].0);
        }
        lemma_enum_count(idx, self.near(q), self.votes_in(c), n);
    }

    // there is a point within eps iff some slot received a vote
    proof fn lemma_neighbour_iff_vote(&self, q: Seq<T>)
        requires self.wf(),
        ensures self.has_neighbour(q) <==> exists|c: int| 0 <= c <= self.k() && self.votes(q, c) > 0,
    {
        let n = self.knn_algorithm.npoints();
        if self.has_neighbour(q) {
            let j = choose|j: int| 0 <= j < n && self.knn_algorithm.within(q, self.eps, j);
            let c = slot(self.cluster_labels@[j], self.k());
            let p = |j: int| self.near(q)(j) && self.votes_in(c)(j);
            assert(p(j));
            lemma_count_range_pos(p, n);
            assert(0 <= c <= self.k() && self.votes(q, c) > 0);
        }
        if exists|c: int| 0 <= c <= self.k() && self.votes(q, c) > 0 {
            let c = choose|c: int| 0 <= c <= self.k() && self.votes(q, c) > 0;
            let p = |j: int| self.near(q)(j) && self.votes_in(c)(j);
            lemma_count_range_pos(p, n);
            let j = choose|j: int| 0 <= j < n && #[trigger] p(j);
            assert(self.knn_algorithm.within(q, self.eps, j));
        }
    }

    // the same for every query, every possible answer of the search and every prefix length m (called where these are not known yet)
    proof fn lemma_tally_q(&self)
        ensures
            forall|q: Seq<T>, v: Seq<(usize, T, &Vec<T>)>, c: int, m: int|
                #![trigger self.knn_algorithm.radius_answer(q, self.eps, v), count_list(idxs(v), self.votes_in(c), m)]
                self.knn_algorithm.radius_answer(q, self.eps, v) && m == v.len() ==> count_list(idxs(v), self.votes_in(c), m) == self.votes(q, c),
    {
        assert forall|q: Seq<T>, v: Seq<(usize, T, &Vec<T>)>, c: int, m: int|
            #![trigger self.knn_algorithm.radius_answer(q, self.eps, v), count_list(idxs(v), self.votes_in(c), m)]
            self.knn_algorithm.radius_answer(q, self.eps, v) && m == v.len() implies count_list(idxs(v), self.votes_in(c), m) == self.votes(q, c) by {
            self.lemma_tally_is_votes(q, v, c);
        }
    }

    // an answer lists every training point at most once: it is not longer than the training set
    proof fn lemma_answer_len_q(&self)
        ensures
            forall|q: Seq<T>, v: Seq<(usize, T, &Vec<T>)>| #[trigger] self.knn_algorithm.radius_answer(q, self.eps, v) ==> v.len() <= usize::MAX,
    {
        assert forall|q: Seq<T>, v: Seq<(usize, T, &Vec<T>)>| #[trigger] self.knn_algorithm.radius_answer(q, self.eps, v) implies v.len() <= usize::MAX by {
            let idx = idxs(v);
            let n = self.knn_algorithm.npoints();
            assert forall|j: int| 0 <= j < n && #[trigger] self.near(q)(j) implies exists|a: int| 0 <= a < idx.len() && idx[a] == j by {
                assert(self.knn_algorithm.within(q, self.eps, j));
                let a = choose|a: int| 0 <= a < v.len() && (#[trigger] v[a]).0 == j;
                assert(idx[a] == j);
            }
            assert forall|a: int| 0 <= a < idx.len() implies 0 <= #[trigger] idx[a] < n && self.near(q)(idx[a]) by {
                assert(0 <= v[a].0 < n);
            }
            assert forall|a: int, b: int| 0 <= a < b < idx.len() implies idx[a] != idx[b] by {
                assert(v[a].0 != v[b].0);
            }
            lemma_enum_len(idx, self.near(q), n);
            lemma_count_range_bounds(self.near(q), n);
            assert(n == self.knn_algorithm.data.len());
        }
    }

    // slot c0 is the first one with a maximal number of votes (what which_max returns for the tally)
    spec fn first_max_slot(&self, q: Seq<T>, c0: int) -> bool {
        &&& 0 <= c0 <= self.k()
        &&& forall|c: int| 0 <= c <= self.k() ==> #[trigger] self.votes(q, c) <= self.votes(q, c0)
        &&& forall|c: int| 0 <= c < c0 ==> #[trigger] self.votes(q, c) < self.votes(q, c0)
    }
    // a cluster slot w that is a first maximum and has at least one vote is a plurality cluster; then there are neighbours and noise does
    // not dominate (for every query; instantiated for the w whose label T::from(w) is written)
    spec fn winner_ok(&self, q: Seq<T>, w: usize) -> bool {
        self.first_max_slot(q, w as int) && w != self.k() && self.votes(q, w as int) > 0
            ==> self.has_neighbour(q) && !self.noise_dominates(q) && self.is_plurality_label(q, T::from_spec::<usize>(w))
    }
    proof fn lemma_winner_q(&self)
        requires self.wf(),
        ensures forall|q: Seq<T>, w: usize| #![trigger self.votes(q, w as int), T::from_spec::<usize>(w)] self.winner_ok(q, w),
    {
        assert forall|q: Seq<T>, w: usize| #![trigger self.winner_ok(q, w)] self.winner_ok(q, w) by {
            if self.first_max_slot(q, w as int) && w != self.k() && self.votes(q, w as int) > 0 {
                self.lemma_neighbour_iff_vote(q);
                assert(self.votes(q, w as int) >= self.votes(q, self.k()));
                assert(self.plurality_cluster(q, w as int));
                assert((w as int) as usize == w);
            }
        }
    }
    // a query with a training point within eps: some slot received a vote
    proof fn lemma_some_vote_q(&self)
        requires self.wf(),
        ensures forall|q: Seq<T>| #[trigger] self.has_neighbour(q) ==> exists|c: int| 0 <= c <= self.k() && self.votes(q, c) > 0,
    {
        assert forall|q: Seq<T>| #[trigger] self.has_neighbour(q) implies exists|c: int| 0 <= c <= self.k() && self.votes(q, c) > 0 by {
            self.lemma_neighbour_iff_vote(q);
        }
    }

// loops are verified in the context of the code before them: an immutable local introduced in front of a loop (say `let eps = self.eps;`)
// is then known inside the loop without being named in an invariant (a name that need not exist in /repo)
#[verifier::loop_isolation(false)]
//@extract src/cluster/dbscan.rs :: impl<T: RealNumber + Sum, D: Distance<Vec<T>, T>> DBSCAN<T, D> :: predict :: ret=r
//@spec
        requires
            self.wf(),
            x.mwf(),
        ensures
            // the search fails exactly for a non-positive radius (fit rejects those); otherwise one label per row
            r is Ok ==> r->Ok_0.vview().len() == x.nrows_spec(), //# predict-one-label-per-row
            // no training point within eps: noise
            r is Ok ==> forall|i: int| 0 <= i < x.nrows_spec() && !self.has_neighbour(row_view(x, i))
                ==> #[trigger] r->Ok_0.vview()[i] == Self::noise(), //# predict-no-neighbours-is-noise
            // unclustered points dominate among the points within eps: noise
            r is Ok ==> forall|i: int| 0 <= i < x.nrows_spec() && self.has_neighbour(row_view(x, i)) && self.noise_dominates(row_view(x, i))
                ==> #[trigger] r->Ok_0.vview()[i] == Self::noise(), //# predict-noise-dominates-is-noise
            // otherwise: a cluster with the largest number of points within eps (at least as many as noise points)
            r is Ok ==> forall|i: int| 0 <= i < x.nrows_spec() && self.has_neighbour(row_view(x, i)) && !self.noise_dominates(row_view(x, i))
                ==> self.is_plurality_label(row_view(x, i), #[trigger] r->Ok_0.vview()[i]), //# predict-plurality-cluster
            (r is Err) == (x.nrows_spec() > 0 && le(self.eps, T::zero_spec())), //# predict-fails-only-on-bad-radius
//@enter
        proof { T::ops_total(); }
//@loop 1
            invariant
                self.wf(), x.mwf(), n == x.nrows_spec(), m == x.ncols_spec(), row@.len() == m,
                result.mwf(), result.nrows_spec() == 1, result.ncols_spec() == n,
                T::obeys_neg_spec(), forall|a: T| #[trigger] a.neg_req(),
                i > 0 ==> !le(self.eps, T::zero_spec()),
                forall|i2: int| 0 <= i2 < i && !self.has_neighbour(row_view(x, i2))
                    ==> #[trigger] result.at(0, i2) == Self::noise(), //# predict-no-neighbours-is-noise
                forall|i2: int| 0 <= i2 < i && self.has_neighbour(row_view(x, i2)) && self.noise_dominates(row_view(x, i2))
                    ==> #[trigger] result.at(0, i2) == Self::noise(), //# predict-noise-dominates-is-noise
                forall|i2: int| 0 <= i2 < i && self.has_neighbour(row_view(x, i2)) && !self.noise_dominates(row_view(x, i2))
                    ==> self.is_plurality_label(row_view(x, i2), #[trigger] result.at(0, i2)), //# predict-plurality-cluster
//@loopbody 1
            // what the votes for a query row (whatever list the search returns) say about its label
            proof {
                self.lemma_tally_q();
                self.lemma_answer_len_q();
                self.lemma_winner_q();
                self.lemma_some_vote_q();
            }
//@loop 2
                invariant
                    self.wf(), i < n, n == x.nrows_spec(),
                    row@ =~= row_view(x, i as int), //# inv-query-is-row-i
                    label@.len() == self.num_classes + 1,
                    VERUS_ghost_iter.seq().len() <= usize::MAX,
                    self.knn_algorithm.radius_answer(row@, self.eps, VERUS_ghost_iter.seq()),
                    forall|c: int| #![trigger label@[c]] #![trigger count_list(idxs(VERUS_ghost_iter.seq()), self.votes_in(c), VERUS_ghost_iter.index@ as int)]
                        0 <= c <= self.num_classes ==> label@[c]
                            == count_list(idxs(VERUS_ghost_iter.seq()), self.votes_in(c), VERUS_ghost_iter.index@ as int), //# inv-tally-counts-votes-of-consumed-neighbours
                    // all neighbours consumed: the tally is the number of votes
                    forall|c: int| #![trigger self.votes(row@, c)] #![trigger count_list(idxs(VERUS_ghost_iter.seq()), self.votes_in(c), VERUS_ghost_iter.index@ as int)]
                        0 <= c <= self.num_classes && VERUS_ghost_iter.index@ == VERUS_ghost_iter.seq().len()
                            ==> count_list(idxs(VERUS_ghost_iter.seq()), self.votes_in(c), VERUS_ghost_iter.index@ as int) == self.votes(row@, c),
//@loopbody 2
                proof {
                    let a = VERUS_ghost_iter.index@ as int;
                    let v0 = VERUS_ghost_iter.seq();
                    assert(neighbor == v0[a]);
                    assert(idxs(v0)[a] == neighbor.0);
                    assert forall|c: int| 0 <= c <= self.num_classes implies 0 <= #[trigger] count_list(idxs(v0), self.votes_in(c), a) <= a by {
                        lemma_count_list_bounds(idxs(v0), self.votes_in(c), a);
                    }
                    self.lemma_tally_q();
                }
//@end
}

// the indices listed by a find_radius answer
pub open spec fn idxs<T>(v: Seq<(usize, T, &Vec<T>)>) -> Seq<int> { Seq::new(v.len(), |a: int| v[a].0 as int) }
} // verus!
fn main() {}
