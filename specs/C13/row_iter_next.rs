//@unit tier=quick
//@include prelude/uses.rs
use std::marker::PhantomData;
verus! {
//@include prelude/realnumber.rs
//@include prelude/basevector.rs
//@include prelude/matrix_abs2.rs

// C13 (support): the real crate::linalg::RowIter, behind the X7 stand-in of prelude/row_iter.rs.
// Assumption A-ROWITER-ORDER says "the iterator returned by row_iter(m) yields row 0, 1, .., nrows-1, then None".
// Here the two pieces of plain code behind it are verified verbatim: row_iter starts at position 0 with max_pos = nrows,
// and one call of next() at position pos < nrows returns row pos (as a Vec) and advances to pos + 1; at pos >= nrows it
// returns None.  (What stays assumed is only the composition with std's Enumerate / collect and Verus' `for` protocol.)

// /repo splits the matrix trait in two (BaseMatrix < Matrix); the prelude flattens them: BaseMatrix is a second name for it here
pub trait BaseMatrix<T: RealNumber>: Matrix<T> {}
impl<T: RealNumber, M: Matrix<T>> BaseMatrix<T> for M {}

//@struct src/linalg/mod.rs :: RowIter

//@extract src/linalg/mod.rs :: - :: row_iter :: ret=r
//@spec
    ensures
        r.pos == 0, r.max_pos == m.nrows_spec(), r.m == m, //# row-iter-starts-at-row-zero
//@end

impl<'a, T: RealNumber, M: BaseMatrix<T>> RowIter<'a, T, M> {
//@extract src/linalg/mod.rs :: impl<'a, T: RealNumber, M: BaseMatrix<T>> Iterator for RowIter<'a, T, M> :: next :: ret=r
//@spec
        requires
            old(self).m.mwf(),
            old(self).max_pos == old(self).m.nrows_spec(),
            old(self).pos < usize::MAX,
        ensures
            final(self).m == old(self).m && final(self).max_pos == old(self).max_pos,
            final(self).pos == old(self).pos + 1, //# next-advances-by-one
            old(self).pos < old(self).max_pos ==> r is Some && r->Some_0@ =~= row_view(old(self).m, old(self).pos as int), //# next-yields-the-row-at-pos
            old(self).pos >= old(self).max_pos ==> r is None, //# next-ends-after-last-row
//@end
}
} // verus!
fn main() {}
