//@unit tier=quick
//@include prelude/uses.rs
use vstd::std_specs::iter::*;
verus! {
//@include prelude/realnumber.rs
//@include prelude/order.rs
//@include prelude/basevector.rs
//@include prelude/matrix_abs2.rs
//@include prelude/distance.rs
//@include prelude/error.rs
//@include prelude/knn_abs.rs
//@include prelude/row_iter.rs
//@include prelude/enum_count.rs
//@include C13/inc/dbscan_defs.rs
//@include C13/inc/fit_defs.rs
//@include C13/inc/conn_defs.rs
//@include C13/inc/unique_defs.rs

// C13 (part 2): the labelling computed by DBSCAN::fit satisfies the definition of density-based clustering.
// Text of `fit` extracted verbatim; `row_iter(x).enumerate()` / `.collect()` go through the X7 stand-in (prelude/row_iter.rs);
// the search backend enters only through the contract of KNNAlgorithm::find_radius (prelude/knn_abs.rs), which does not
// mention the backend: everything below holds for LinearSearch and CoverTree alike.

// the rows of the training matrix
pub open spec fn xrows<T: RealNumber, M: Matrix<T>>(x: &M) -> Seq<Seq<T>> {
    Seq::new(x.nrows_spec() as nat, |i: int| row_view(x, i))
}
// the indices listed by a find_radius answer
pub open spec fn idxs<T>(v: Seq<(usize, T, &Vec<T>)>) -> Seq<int> { Seq::new(v.len(), |a: int| v[a].0 as int) }

// the clustering problem that fit(x, parameters) solves
pub open spec fn problem<T: RealNumber, D: Distance<Vec<T>, T>, M: Matrix<T>>(x: &M, parameters: DBSCANParameters<T, D>) -> G<T, D> {
    G { d: parameters.distance, eps: parameters.eps, rows: xrows(x), ms: parameters.min_samples as int }
}

// a find_radius answer for the query "row i" lists the neighbours of i, and there are deg(i) of them
proof fn lemma_answer<T: RealNumber, D: Distance<Vec<T>, T>>(g: G<T, D>, algo: &KNNAlgorithm<T, D>, i: int, q: Seq<T>, v: Seq<(usize, T, &Vec<T>)>)
    requires
        algo_for(g, algo), 0 <= i < g.n(), q == g.rows[i], algo.radius_answer(q, g.eps, v),
    ensures
        enumerates(idxs(v), g.nbp(i), g.n()),
        v.len() == g.deg(i),
        forall|a: int| 0 <= a < v.len() ==> 0 <= (#[trigger] v[a]).0 < g.n() && (*v[a].2)@ == g.rows[v[a].0 as int],
{
    let idx = idxs(v);
    let n = g.n();
    assert forall|j: int| 0 <= j < n implies algo.within(q, g.eps, j) == g.nb(i, j) by {
        assert(algo.point(j) == g.rows[j]);
    }
    assert forall|a: int| 0 <= a < idx.len() implies 0 <= #[trigger] idx[a] < n && g.nbp(i)(idx[a]) by {
        assert(0 <= v[a].0 < n);
        assert(algo.within(q, g.eps, v[a].0 as int));
    }
    assert forall|a: int, b: int| 0 <= a < b < idx.len() implies idx[a] != idx[b] by {
        assert(v[a].0 != v[b].0);
    }
    assert forall|j: int| 0 <= j < n && #[trigger] g.nbp(i)(j) implies exists|a: int| 0 <= a < idx.len() && idx[a] == j by {
        assert(algo.within(q, g.eps, j));
        let a = choose|a: int| 0 <= a < v.len() && (#[trigger] v[a]).0 == j;
        assert(idx[a] == j);
    }
    lemma_enum_len(idx, g.nbp(i), n);
    assert forall|a: int| 0 <= a < v.len() implies 0 <= (#[trigger] v[a]).0 < g.n() && (*v[a].2)@ == g.rows[v[a].0 as int] by {
        assert(algo.point(v[a].0 as int) == g.rows[v[a].0 as int]);
    }
}
// the same for every possible answer to the query "row i" (called where the answer is not known yet: at the start of a loop body)
proof fn lemma_answer_q<T: RealNumber, D: Distance<Vec<T>, T>>(g: G<T, D>, algo: &KNNAlgorithm<T, D>, i: int)
    requires
        algo_for(g, algo), 0 <= i < g.n(),
    ensures
        forall|v: Seq<(usize, T, &Vec<T>)>| #[trigger] algo.radius_answer(g.rows[i], g.eps, v)
            ==> enumerates(idxs(v), g.nbp(i), g.n()) && v.len() == g.deg(i) && refs_ok(g, v),
{
    assert forall|v: Seq<(usize, T, &Vec<T>)>| #[trigger] algo.radius_answer(g.rows[i], g.eps, v)
        implies enumerates(idxs(v), g.nbp(i), g.n()) && v.len() == g.deg(i) && refs_ok(g, v) by {
        lemma_answer(g, algo, i, g.rows[i], v);
    }
}
// pushing an entry on the stack pushes its index on the list of indices
proof fn lemma_idxs_push_q<T>()
    ensures forall|v: Seq<(usize, T, &Vec<T>)>, e: (usize, T, &Vec<T>)| #[trigger] idxs(v.push(e)) == idxs(v).push(e.0 as int),
{
    assert forall|v: Seq<(usize, T, &Vec<T>)>, e: (usize, T, &Vec<T>)| #[trigger] idxs(v.push(e)) == idxs(v).push(e.0 as int) by {
        assert(idxs(v.push(e)) =~= idxs(v).push(e.0 as int));
    }
}
// the search structure holds the rows of x and the metric of the problem
pub open spec fn algo_for<T: RealNumber, D: Distance<Vec<T>, T>>(g: G<T, D>, algo: &KNNAlgorithm<T, D>) -> bool {
    &&& algo.distance == g.d
    &&& algo.data@.len() == g.n()
    &&& forall|j: int| 0 <= j < g.n() ==> (#[trigger] algo.data@[j])@ == g.rows[j]
}
// the stack entries carry their own point (used as the next query)
pub open spec fn refs_ok<T: RealNumber, D: Distance<Vec<T>, T>>(g: G<T, D>, v: Seq<(usize, T, &Vec<T>)>) -> bool {
    forall|a: int| 0 <= a < v.len() ==> 0 <= (#[trigger] v[a]).0 < g.n() && (*v[a].2)@ == g.rows[v[a].0 as int]
}

impl<T: RealNumber, D: Distance<Vec<T>, T>> DBSCAN<T, D> {
// loops are verified in the context of the code before them: an immutable local introduced in front of a loop (say `let eps = parameters.eps;`)
// is then known inside the loop without being named in an invariant (a name that need not exist in /repo)
#[verifier::loop_isolation(false)]
//@extract src/cluster/dbscan.rs :: impl<T: RealNumber + Sum, D: Distance<Vec<T>, T>> DBSCAN<T, D> :: fit :: ret=res
//@spec
        requires
            x.mwf(),
            x.nrows_spec() <= i16::MAX,          // cluster numbers are i16 in /repo
            problem(x, parameters).sym(),        // A-NB-METRIC: "within eps" is symmetric on the rows of x
        ensures
            parameters.min_samples < 1 || le(parameters.eps, T::zero_spec()) ==> res is Err, //# fit-rejects-bad-parameters
            res is Ok ==> ({
                let g = problem(x, parameters);
                let m = res->Ok_0;
                let y = m.cluster_labels@;
                let k = m.num_classes as int;
                // the model is well-formed for predict and searches the training rows with the same metric and radius
                &&& m.wf() && algo_for(g, &m.knn_algorithm) && m.eps == parameters.eps //# fit-model-well-formed
                &&& y.len() == g.n()
                // every label is noise (-1) or a cluster number in [0, num_classes); every cluster number is used
                &&& g.labels_ok(y, k) //# fit-labels-noise-or-cluster
                &&& all_used(y, k) //# fit-labels-gap-free
                // every core point belongs to a cluster
                &&& g.cores_clustered(y) //# fit-core-points-clustered
                // two core points carry the same label exactly when they are density-connected
                &&& g.adjacent_cores_agree(y) //# fit-adjacent-cores-same-label
                &&& g.connected_cores_agree(y) //# fit-density-connected-cores-same-label
                &&& g.same_label_connected(y) //# fit-same-label-cores-density-connected
                // clusters are numbered in the order of their first core point
                &&& g.numbered_by_first_core(y, k) //# fit-clusters-numbered-by-first-core-point
                // a non-core point within eps of a core point carries the label of one such core point
                &&& g.border_takes_core_label(y) //# fit-border-takes-label-of-a-core-neighbour
                // all remaining points, and only they, are noise
                &&& g.noise_unreachable(y) //# fit-noise-is-not-density-reachable
                &&& g.unreachable_noise(y) //# fit-remaining-points-are-noise
                // (the conjunction of the clauses about core points and noise: by theorem_core_labels_and_noise_determined any two
                //  labellings satisfying it agree on every core point and on the noise set -- whatever the search backend)
                &&& g.core_spec(y, k) //# fit-core-labels-and-noise-determined
            }),
//@enter
        proof { T::ops_total(); }
        let ghost g = problem(x, parameters);
        let ghost mut seeds: Seq<int> = Seq::<int>::empty();   // seeds[c]: the point cluster c was grown from
        proof {
            // the state before the first visit satisfies both invariants; once all points are visited they give the postconditions
            g.lemma_init_q();
            g.lemma_conn_init_q();
            g.lemma_final_q();
        }
//@loop 1
            invariant
                g == problem(x, parameters), g.sym(),
                g.eps == parameters.eps, g.ms == parameters.min_samples as int, g.ms >= 1,
                n == g.n(), y@.len() == n, n <= i16::MAX,
                algo_for(g, &algo),
                queued == -2, outlier == -1, undefined == -3,
                VERUS_ghost_iter.seq().len() == n,
                forall|q: int| 0 <= q < n ==> (#[trigger] VERUS_ghost_iter.seq()[q]).0 == q && VERUS_ghost_iter.seq()[q].1@ == g.rows[q],
                0 <= k <= VERUS_ghost_iter.index@,
                g.inv_outer(y@, VERUS_ghost_iter.index@ as int, k as int), //# inv-between-expansions
                g.conn_ok(y@, seeds) && seeds.len() == k, //# inv-clustered-cores-connected-to-seed
//@loopbody 1
            // everything the visit of point i can do, decided from the state before the visit (y_o, k) and the graph
            let ghost y_o = y@;
            proof {
                assert((i, e) == VERUS_ghost_iter.seq()[VERUS_ghost_iter.index@ as int]);
                assert(i == VERUS_ghost_iter.index@ && e@ == g.rows[i as int]);
                g.lemma_outer_basic(y_o, i as int, k as int);
                g.lemma_close_q(i as int, k as int);
                if y_o[i as int] != -3 {
                    g.lemma_skip(y_o, i as int, k as int);
                } else {
                    lemma_answer_q(g, &algo, i as int);
                    if !g.core(i as int) {
                        g.lemma_outlier(y_o, i as int, k as int);
                        g.lemma_conn_other(y_o, seeds, i as int, -1i16);
                    } else {
                        g.lemma_seed_q(y_o, i as int, k as int);
                        g.lemma_conn_seed(y_o, seeds, i as int, k as int);
                        seeds = seeds.push(i as int);
                    }
                }
            }
//@loop 2
                        invariant
                            g.eps == parameters.eps, g.ms == parameters.min_samples as int, g.ms >= 1,
                            n == g.n(), y@.len() == n, i < n, 0 <= k <= i, n <= i16::MAX, algo_for(g, &algo),
                            queued == -2, outlier == -1, undefined == -3,
                            refs_ok(g, neighbors@),
                            g.inv_exp(y@, idxs(neighbors@), i as int, k as int, i as int, idxs(neighbors@), j as int), //# inv-seed-neighbours-marked
                            g.conn_ok(y@, seeds) && seeds.len() == k + 1,
//@loopbody 2
                        proof {
                            let nbl = idxs(neighbors@);
                            assert(nbl[j as int] == neighbors@[j as int].0);
                            assert(on(nbl, nbl[j as int]));
                            g.lemma_step(y@, nbl, i as int, k as int, i as int, nbl, j as int, false);
                            if y@[nbl[j as int]] == -3 { g.lemma_conn_other(y@, seeds, nbl[j as int], -2i16); }
                        }
//@loop 3
                        invariant
                            g.eps == parameters.eps, g.ms == parameters.min_samples as int, g.ms >= 1,
                            n == g.n(), y@.len() == n, i < n, 0 <= k <= i, n <= i16::MAX, algo_for(g, &algo),
                            queued == -2, outlier == -1, undefined == -3,
                            refs_ok(g, neighbors@),
                            // nothing pending: every neighbour of a core point of cluster k is clustered or waits on the stack
                            g.inv_exp(y@, idxs(neighbors@), i as int, k as int, -1, Seq::<int>::empty(), 0), //# inv-cluster-expansion
                            g.conn_ok(y@, seeds) && seeds.len() == k + 1, //# inv-clustered-cores-connected-to-seed
                            // once the stack is empty, cluster k is complete
                            neighbors@.len() == 0 ==> g.inv_outer(y@, i as int + 1, k as int + 1), //# inv-empty-stack-means-cluster-complete
                        decreases unlabelled(y@, n as int), neighbors.len()
//@loopbody 3
                        // everything the pop can do, decided from the state before the pop (y_pre, stack st_pre) and the graph
                        let ghost y_pre = y@;
                        let ghost nbs_pre = neighbors@;
                        let ghost st_pre = idxs(nbs_pre);
                        let ghost top = st_pre.last();
                        proof {
                            assert(nbs_pre.len() > 0);
                            assert(top == nbs_pre[nbs_pre.len() - 1].0);
                            assert(0 <= nbs_pre[nbs_pre.len() - 1].0 < n && (*nbs_pre[nbs_pre.len() - 1].2)@ == g.rows[top]);
                            assert(idxs(nbs_pre.drop_last()) =~= st_pre.drop_last());
                            lemma_unl_bound(y_pre, n as int);
                            g.lemma_exp_basic(y_pre, st_pre, i as int, k as int, -1, Seq::<int>::empty(), 0);   // labels are >= -3
                            g.lemma_close_q(i as int, k as int);
                            lemma_answer_q(g, &algo, top);
                            if y_pre[top] >= 0 {
                                g.lemma_pop_labelled(y_pre, st_pre, i as int, k as int);
                            } else {
                                lemma_unl_update(y_pre, top, k, n as int);
                                lemma_unl_bound(y_pre.update(top, k), n as int);
                                if y_pre[top] == -1 { g.lemma_exp_outlier_not_core(y_pre, st_pre, i as int, k as int, -1, Seq::<int>::empty(), 0, top); }
                                if !g.core(top) {
                                    g.lemma_pop_join(y_pre, st_pre, i as int, k as int);
                                    g.lemma_conn_other(y_pre, seeds, top, k);
                                } else {
                                    g.lemma_pop_core_q(y_pre, st_pre, i as int, k as int);
                                    g.lemma_conn_pop_core(y_pre, st_pre, seeds, i as int, k as int);
                                }
                            }
                        }
//@loopend 3
                        proof { if y@.len() == n { lemma_unl_bound(y@, n as int); } }   // the termination measure is not negative
//@loop 4
                                    invariant
                                        g.eps == parameters.eps, g.ms == parameters.min_samples as int, g.ms >= 1,
                                        n == g.n(), y@.len() == n, i < n, 0 <= k <= i, n <= i16::MAX, algo_for(g, &algo),
                                        queued == -2, outlier == -1, undefined == -3,
                                        refs_ok(g, neighbors@), refs_ok(g, secondary_neighbors@),
                                        0 <= index < n,
                                        unlabelled(y@, n as int) < unlabelled(y_pre, n as int),
                                        g.inv_exp(y@, idxs(neighbors@), i as int, k as int, index as int, idxs(secondary_neighbors@), j as int), //# inv-neighbours-of-new-core-point-marked
                                        g.conn_ok(y@, seeds) && seeds.len() == k + 1,
//@loopbody 4
                                    proof {
                                        let y_b = y@;
                                        let st_b = idxs(neighbors@);
                                        let pl = idxs(secondary_neighbors@);
                                        let jj = secondary_neighbors@[j as int].0 as int;
                                        assert(pl[j as int] == jj);
                                        lemma_idxs_push_q::<T>();
                                        // undefined or outlier: pushed; otherwise already clustered, or queued (then it is on the stack)
                                        g.lemma_step(y_b, st_b, i as int, k as int, index as int, pl, j as int, y_b[jj] == -3 || y_b[jj] == -1);
                                        if y_b[jj] == -3 { lemma_unl_update(y_b, jj, -2i16, n as int); g.lemma_conn_other(y_b, seeds, jj, -2i16); }
                                    }
//@end
}
} // verus!
fn main() {}
