//@unit tier=quick
//@include prelude/uses.rs
use vstd::std_specs::iter::*;
verus! {
//@include prelude/realnumber.rs
//@include prelude/error.rs
//@include prelude/matrix_take.rs
//@include prelude/predictor.rs
//@include C16/inc/cv_defs.rs

// C16 (cross-validation part): `cross_validate` fits one model per yielded fold on exactly that fold's training
// rows and scores exactly its held-out rows (and its training rows) with that model.
//
// Everything outside the function is abstract: the splitter (`cv.split(x)` yields SOME finite sequence `folds` of
// (train, test) index pairs, A-KFOLD-SPLIT), row selection (`take_spec`, A-TAKE-ABSTRACT), the estimator's
// `predict` (relation `predict_rel`, A-PREDICTOR-ABSTRACT) and the two closures (Verus' closure specs
// `call_requires` / `call_ensures`).  The contract says which of these abstract operations are applied to which
// arguments: in `fold_scored` the ONLY data that reach `fit_estimator` are x.take(train_i), y.take(train_i); the
// test score of fold i is `score(y.take(test_i), p)` with p predicted by THAT model from x.take(test_i).
// "No sample is predicted by a model that has seen it" then follows for every splitter whose pairs are disjoint.
//
// `VERUS_ghost_iter` is the ghost state of Verus' `for` desugaring: `.seq()` = the whole sequence the iterator
// returned by `cv.split(x)` yields (its prophetic `remaining()` at creation), `.index@` = pairs consumed so far.
//@extract src/model_selection/mod.rs :: - :: cross_validate :: ret=r
//@spec
    requires
        // the closures' preconditions hold for exactly the arguments they get: for every fold the splitter may yield,
        // fit_estimator is callable on that fold's training rows, score on (targets, predictions) of that fold's rows
        forall|folds: Seq<Fold>, i: int| #![trigger cv.split_yields(x, folds), folds[i]]
            cv.split_yields(x, folds) && 0 <= i < folds.len() ==>
                closures_callable::<T, M, H, E, F, S>(fit_estimator, score, x, y, parameters, folds[i].0@, folds[i].1@),
    ensures
        // Ok: one (train score, test score) entry per yielded fold, in order; entry i was produced by one model fitted on
        // exactly fold i's training rows, from its predictions on exactly fold i's held-out (resp. training) rows
        r matches Ok(res) ==> exists|folds: Seq<Fold>|
            #[trigger] cv.split_yields(x, folds)
            && res.test_score@.len() == folds.len()
            && res.train_score@.len() == folds.len()
            && forall|i: int| 0 <= i < folds.len() ==>
                fold_scored::<T, M, H, E, F, S>(fit_estimator, score, x, y, parameters, (#[trigger] folds[i]).0@, folds[i].1@,
                    res.train_score@[i], res.test_score@[i]), //# cv-each-fold-fitted-on-its-train-rows-scored-on-its-test-rows
        // Err only if a fit or predict of some yielded fold returned Err (so: Ok whenever all of them succeed)
        r is Err ==> exists|folds: Seq<Fold>, i: int|
            #[trigger] cv.split_yields(x, folds)
            && 0 <= i < folds.len()
            && fold_failed::<T, M, H, E, F>(fit_estimator, x, y, parameters, (#[trigger] folds[i]).0@, folds[i].1@), //# cv-err-only-if-a-fit-or-predict-failed
//@loop 1
        invariant
            forall|folds: Seq<Fold>, i: int| #![trigger cv.split_yields(x, folds), folds[i]]
                cv.split_yields(x, folds) && 0 <= i < folds.len() ==>
                    closures_callable::<T, M, H, E, F, S>(fit_estimator, score, x, y, parameters, folds[i].0@, folds[i].1@),
            VERUS_ghost_iter.iter.obeys_prophetic_iter_laws(),
            cv.split_yields(x, VERUS_ghost_iter.seq()),
            // one entry per consumed fold
            test_score@.len() == VERUS_ghost_iter.index@, //# inv-one-test-score-per-consumed-fold
            train_score@.len() == VERUS_ghost_iter.index@, //# inv-one-train-score-per-consumed-fold
            // every consumed fold was fitted on its own training rows and scored on its own rows
            forall|j: int| 0 <= j < VERUS_ghost_iter.index@ ==>
                fold_scored::<T, M, H, E, F, S>(fit_estimator, score, x, y, parameters,
                    (#[trigger] VERUS_ghost_iter.seq()[j]).0@, VERUS_ghost_iter.seq()[j].1@, train_score@[j], test_score@[j]), //# inv-consumed-folds-fitted-and-scored-on-their-own-rows
//@loopbody 1
        let ghost fold_no = VERUS_ghost_iter.index@;
        let ghost folds = VERUS_ghost_iter.seq();
        proof {
            assert(0 <= fold_no < folds.len());
            assert(folds[fold_no] == (train_idx, test_idx));
        }
//@loopend 1
        // (train_x, train_y, test_x, test_y, estimator are immutable locals of the loop body: what is stated here about them at the
        // end of the body holds from their definition on)
        proof {
            // the four selections are exactly this fold's training rows / held-out rows of x and of y
            assert(train_x == x.take_spec(train_idx@, 0)); //# fold-train-x-is-exactly-the-train-rows
            assert(train_y == y.take_spec(train_idx@)); //# fold-train-y-is-exactly-the-train-targets
            assert(test_x == x.take_spec(test_idx@, 0)); //# fold-test-x-is-exactly-the-held-out-rows
            assert(test_y == y.take_spec(test_idx@)); //# fold-test-y-is-exactly-the-held-out-targets
            assert(fitted_on::<T, M, H, E, F>(fit_estimator, x, y, parameters, train_idx@, estimator)); //# fold-model-fitted-on-exactly-the-train-rows
        }
//@end

// The assumed splitter contract (A-KFOLD-SPLIT) is implementable, i.e. not contradictory: a splitter that yields a
// stored list of folds through std's vec::IntoIter satisfies it (vstd specifies IntoIter's prophetic sequence).
pub struct ListSplit { pub folds: Vec<Fold> }
impl BaseKFold for ListSplit {
    type Output = std::vec::IntoIter<Fold>;

    open spec fn split_yields<T: RealNumber, M: Matrix<T>>(&self, x: &M, folds: Seq<Fold>) -> bool {
        folds.len() == self.folds@.len()
    }

    fn split<T: RealNumber, M: Matrix<T>>(&self, x: &M) -> (it: Self::Output) {
        self.folds.clone().into_iter()
    }

    fn n_splits(&self) -> usize { self.folds.len() }
}
} // verus!
fn main() {}
