//@unit tier=quick canary=none
// SUBSET-GATE PROBE, not a unit: train_test_split extracted verbatim with an empty contract.
// Run: ./vc dev specs/C16/gate/train_test_split.rs
//@include prelude/uses.rs
use vstd::std_specs::iter::*;
verus! {
//@include prelude/realnumber.rs
//@include prelude/error.rs
//@include prelude/matrix_take.rs
// probe-only stand-ins for rand (no contract; the probe is about the front-end only)
pub struct ThreadRng {}
fn thread_rng() -> ThreadRng { ThreadRng {} }
trait SliceRandom { fn shuffle(&mut self, rng: &mut ThreadRng); }
impl SliceRandom for Vec<usize> { fn shuffle(&mut self, rng: &mut ThreadRng) {} }
//@extract src/model_selection/mod.rs :: - :: train_test_split :: ret=r
//@spec
//@end
} // verus!
fn main() {}
