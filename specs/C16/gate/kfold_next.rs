//@unit tier=quick canary=none
// SUBSET-GATE PROBE, not a unit: KFoldIter::next extracted verbatim with an empty contract.
// Run: ./vc dev specs/C16/gate/kfold_next.rs
//@include prelude/uses.rs
use vstd::std_specs::iter::*;
verus! {
//@struct src/model_selection/kfold.rs :: KFoldIter
impl KFoldIter {
//@extract src/model_selection/kfold.rs :: impl Iterator for KFoldIter :: next :: ret=r
//@spec
//@end
}
} // verus!
fn main() {}
