//@unit tier=quick canary=none
// SUBSET-GATE PROBE, not a unit (specs/C16/gate/ is not globbed): cross_val_predict extracted verbatim with an
// empty contract, to record which construct Verus rejects.  Run: ./vc dev specs/C16/gate/cross_val_predict.rs
//@include prelude/uses.rs
use vstd::std_specs::iter::*;
verus! {
//@include prelude/realnumber.rs
//@include prelude/error.rs
//@include prelude/matrix_take.rs
//@include prelude/predictor.rs
//@include C16/inc/cv_defs.rs
//@extract src/model_selection/mod.rs :: - :: cross_val_predict :: ret=r
//@spec
//@end
} // verus!
fn main() {}
