// ---------------------------------------------------------------------------------------------
// C16/inc/cv_defs.rs -- vocabulary of the cross-validation part of C16 (src/model_selection/mod.rs):
// the splitter trait, the result struct, and the spec predicates "fold (train, test) was fitted on exactly its
// training rows and scored on exactly its held-out rows".
// Needs: prelude/uses.rs, `use vstd::std_specs::iter::*;`, prelude/realnumber.rs, prelude/error.rs,
//        prelude/matrix_take.rs, prelude/predictor.rs.
// ---------------------------------------------------------------------------------------------

// One fold as the splitter yields it: (training row indices, held-out row indices).
pub type Fold = (Vec<usize>, Vec<usize>);

// crate::model_selection::BaseKFold.
// ASSUME[A-KFOLD-SPLIT] `split(x)` returns an iterator that follows vstd's iterator protocol and yields a FINITE
//   sequence of (train, test) index pairs; that sequence is related to (splitter, x) by the trait-level relation
//   `split_yields` (a relation, not a function of (self, x): the shuffling KFold draws from thread_rng).  Nothing
//   else is assumed about the pairs here: every statement below is "for each yielded pair".  What KFold yields
//   (k pairs, test sets = consecutive blocks that partition 0..n, train = complement) is the bounded Kani part of C16.
pub trait BaseKFold {
    type Output: Iterator<Item = (Vec<usize>, Vec<usize>)>;

    spec fn split_yields<T: RealNumber, M: Matrix<T>>(&self, x: &M, folds: Seq<Fold>) -> bool;

//@checkdecl src/model_selection/mod.rs :: pub trait BaseKFold :: split :: fn split<T: RealNumber, M: Matrix<T>>(&self, x: &M) -> Self::Output
    // ASSUME[A-KFOLD-SPLIT]
    fn split<T: RealNumber, M: Matrix<T>>(&self, x: &M) -> (it: Self::Output)
        ensures
            it.obeys_prophetic_iter_laws(),
            it.decrease() is Some,
            self.split_yields(x, it.remaining());

//@checkdecl src/model_selection/mod.rs :: pub trait BaseKFold :: n_splits :: fn n_splits(&self) -> usize
    fn n_splits(&self) -> usize;
}

//@struct src/model_selection/mod.rs :: CrossValidationResult

// `s` is a value that `score` may return for (the targets of the rows `idx`, some prediction `p` that the model `e`
// may return for exactly the rows `idx` of x)
pub open spec fn scored_on<T, M, E, S>(e: E, score: S, x: &M, y: &M::RowVector, idx: Seq<usize>, s: T) -> bool
where
    T: RealNumber,
    M: Matrix<T>,
    E: Predictor<M, M::RowVector>,
    S: Fn(&M::RowVector, &M::RowVector) -> T,
{
    exists|p: M::RowVector|
        #[trigger] e.predict_rel(&x.take_spec(idx, 0), Ok(p))
        && call_ensures(score, (&y.take_spec(idx), &p), s)
}

// `e` is a model that `fit_estimator` may return for exactly the rows `train` of (x, y) and a clone of the parameters
pub open spec fn fitted_on<T, M, H, E, F>(fit_estimator: F, x: &M, y: &M::RowVector, parameters: H, train: Seq<usize>, e: E) -> bool
where
    T: RealNumber,
    M: Matrix<T>,
    H: Clone,
    E: Predictor<M, M::RowVector>,
    F: Fn(&M, &M::RowVector, H) -> Result<E, Failed>,
{
    exists|pc: H|
        call_ensures(H::clone, (&parameters,), pc)
        && #[trigger] call_ensures(fit_estimator, (&x.take_spec(train, 0), &y.take_spec(train), pc), Ok::<E, Failed>(e))
}

// preconditions of the closures, for exactly the arguments cross_validate passes for a fold with training rows `train`:
// `fit_estimator` is callable on (x.take(train), y.take(train), any clone of the parameters) ...
pub open spec fn fit_callable<T, M, H, E, F>(fit_estimator: F, x: &M, y: &M::RowVector, parameters: H, train: Seq<usize>) -> bool
where
    T: RealNumber,
    M: Matrix<T>,
    H: Clone,
    E: Predictor<M, M::RowVector>,
    F: Fn(&M, &M::RowVector, H) -> Result<E, Failed>,
{
    forall|pc: H| call_ensures(H::clone, (&parameters,), pc) ==>
        #[trigger] fit_estimator.requires((&x.take_spec(train, 0), &y.take_spec(train), pc))
}

// ... and `score` is callable on (y.take(idx), p) for every prediction p that a model fitted on the rows `train` may
// return for x.take(idx)  (e.g. a metric that requires equal lengths: the model predicts one value per row)
pub open spec fn score_callable<T, M, H, E, F, S>(fit_estimator: F, score: S, x: &M, y: &M::RowVector, parameters: H,
    train: Seq<usize>, idx: Seq<usize>) -> bool
where
    T: RealNumber,
    M: Matrix<T>,
    H: Clone,
    E: Predictor<M, M::RowVector>,
    F: Fn(&M, &M::RowVector, H) -> Result<E, Failed>,
    S: Fn(&M::RowVector, &M::RowVector) -> T,
{
    forall|e: E, p: M::RowVector|
        fitted_on::<T, M, H, E, F>(fit_estimator, x, y, parameters, train, e)
        && #[trigger] e.predict_rel(&x.take_spec(idx, 0), Ok(p))
        ==> score.requires((&y.take_spec(idx), &p))
}

pub open spec fn closures_callable<T, M, H, E, F, S>(fit_estimator: F, score: S, x: &M, y: &M::RowVector, parameters: H,
    train: Seq<usize>, test: Seq<usize>) -> bool
where
    T: RealNumber,
    M: Matrix<T>,
    H: Clone,
    E: Predictor<M, M::RowVector>,
    F: Fn(&M, &M::RowVector, H) -> Result<E, Failed>,
    S: Fn(&M::RowVector, &M::RowVector) -> T,
{
    &&& fit_callable::<T, M, H, E, F>(fit_estimator, x, y, parameters, train)
    &&& score_callable::<T, M, H, E, F, S>(fit_estimator, score, x, y, parameters, train, train)
    &&& score_callable::<T, M, H, E, F, S>(fit_estimator, score, x, y, parameters, train, test)
}

// the no-leak statement for one fold: ONE model, fitted on exactly the fold's training rows, produced both scores;
// the test score comes from its prediction on exactly the held-out rows, compared with exactly their targets
pub open spec fn fold_scored<T, M, H, E, F, S>(fit_estimator: F, score: S, x: &M, y: &M::RowVector, parameters: H,
    train: Seq<usize>, test: Seq<usize>, train_score: T, test_score: T) -> bool
where
    T: RealNumber,
    M: Matrix<T>,
    H: Clone,
    E: Predictor<M, M::RowVector>,
    F: Fn(&M, &M::RowVector, H) -> Result<E, Failed>,
    S: Fn(&M::RowVector, &M::RowVector) -> T,
{
    exists|e: E|
        #[trigger] fitted_on::<T, M, H, E, F>(fit_estimator, x, y, parameters, train, e)
        && scored_on::<T, M, E, S>(e, score, x, y, train, train_score)
        && scored_on::<T, M, E, S>(e, score, x, y, test, test_score)
}

// some fit / predict of the fold (train, test) may return Err
pub open spec fn fold_failed<T, M, H, E, F>(fit_estimator: F, x: &M, y: &M::RowVector, parameters: H,
    train: Seq<usize>, test: Seq<usize>) -> bool
where
    T: RealNumber,
    M: Matrix<T>,
    H: Clone,
    E: Predictor<M, M::RowVector>,
    F: Fn(&M, &M::RowVector, H) -> Result<E, Failed>,
{
    ||| exists|pc: H, err: Failed|
            call_ensures(H::clone, (&parameters,), pc)
            && #[trigger] call_ensures(fit_estimator, (&x.take_spec(train, 0), &y.take_spec(train), pc), Err::<E, Failed>(err))
    ||| exists|e: E, err: Failed|
            fitted_on::<T, M, H, E, F>(fit_estimator, x, y, parameters, train, e)
            && #[trigger] e.predict_rel(&x.take_spec(train, 0), Err(err))
    ||| exists|e: E, err: Failed|
            fitted_on::<T, M, H, E, F>(fit_estimator, x, y, parameters, train, e)
            && #[trigger] e.predict_rel(&x.take_spec(test, 0), Err(err))
}
