//@unit tier=quick
//@include prelude/uses.rs
use std::marker::PhantomData;
verus! {
//@include prelude/realnumber.rs
//@include prelude/order.rs
//@include prelude/distance.rs
//@include prelude/error.rs

//@struct src/algorithm/neighbour/linear_search.rs :: LinearKNNSearch

impl<T, F: RealNumber, D: Distance<T, F>> LinearKNNSearch<T, F, D> {
    // the true distance from `from` to data point i, and "point i lies within the radius" with the code's comparison
    spec fn dist_to(&self, from: &T, i: int) -> F { self.distance.dist_spec(from, &self.data@[i]) }
    spec fn within(&self, from: &T, radius: F, i: int) -> bool { le(self.dist_to(from, i), radius) }

    // v lists exactly the indices i < n within the radius, in increasing index order, each with its distance and point
    spec fn radius_answer(&self, from: &T, radius: F, v: Seq<(usize, F, &T)>, n: int) -> bool {
        &&& forall|a: int| 0 <= a < v.len() ==> {
                &&& 0 <= (#[trigger] v[a]).0 < n
                &&& self.within(from, radius, v[a].0 as int)       // sound: only points within the radius
                &&& v[a].1 == self.dist_to(from, v[a].0 as int)    // the true distance
                &&& *v[a].2 == self.data@[v[a].0 as int]           // the point itself
            }
        &&& forall|a: int, b: int| 0 <= a < b < v.len() ==> (#[trigger] v[a]).0 < (#[trigger] v[b]).0   // increasing index, no duplicates
        &&& forall|i: int| 0 <= i < n && #[trigger] self.within(from, radius, i) ==> exists|a: int| 0 <= a < v.len() && (#[trigger] v[a]).0 == i   // complete
    }

    // step lemma: appending point i (within the radius, with its true distance) to an exact answer for the first i points
    // gives an exact answer for the first i + 1 points
    proof fn lemma_radius_push(&self, from: &T, radius: F, v0: Seq<(usize, F, &T)>, i: usize, d: F, p: &T)
        requires
            self.radius_answer(from, radius, v0, i as int),
            i < self.data@.len(),
            self.within(from, radius, i as int),
            d == self.dist_to(from, i as int),
            *p == self.data@[i as int],
        ensures
            self.radius_answer(from, radius, v0.push((i, d, p)), i + 1),
    {
        let v1 = v0.push((i, d, p));
        assert forall|j: int| 0 <= j < i + 1 && #[trigger] self.within(from, radius, j) implies exists|a: int| 0 <= a < v1.len() && (#[trigger] v1[a]).0 == j by {
            if j < i {
                let a = choose|a: int| 0 <= a < v0.len() && (#[trigger] v0[a]).0 == j;
                assert(v1[a].0 == j);
            } else {
                assert(v1[v0.len() as int].0 == i);
            }
        }
        assert forall|a: int, b: int| 0 <= a < b < v1.len() implies (#[trigger] v1[a]).0 < (#[trigger] v1[b]).0 by {
            if b < v0.len() { assert(v0[a].0 < v0[b].0); } else { assert(v0[a].0 < i); }
        }
    }

//@extract src/algorithm/neighbour/linear_search.rs :: impl<T, F: RealNumber, D: Distance<T, F>> LinearKNNSearch<T, F, D> :: new :: ret=r
//@spec
        ensures
            r is Ok, //# new-never-fails
            r->Ok_0.data@ == data@ && r->Ok_0.distance == distance, //# new-stores-data-and-metric
//@end

//@extract src/algorithm/neighbour/linear_search.rs :: impl<T, F: RealNumber, D: Distance<T, F>> LinearKNNSearch<T, F, D> :: find_radius :: ret=r
//@spec
        requires
            forall|i: int| 0 <= i < self.data@.len() ==> #[trigger] self.distance.dist_req(from, &self.data@[i]),
        ensures
            r is Err <==> le(radius, F::zero_spec()), //# radius-error-iff-radius-not-positive
            r is Ok ==> self.radius_answer(from, radius, r->Ok_0@, self.data@.len() as int), //# radius-answer-exact
//@enter
        proof { F::ops_total(); }
//@loop 1
            invariant
                F::obeys_partial_cmp_spec(),
                forall|i: int| 0 <= i < self.data@.len() ==> #[trigger] self.distance.dist_req(from, &self.data@[i]),
                self.radius_answer(from, radius, neighbors@, i as int),
//@loopbody 1
            let ghost v0 = neighbors@;
//@loopend 1
            proof {
                if neighbors@ != v0 && self.within(from, radius, i as int) {
                    self.lemma_radius_push(from, radius, v0, i, d, &self.data[i as int]);
                }
            }
//@end
}
} // verus!
fn main() {}
