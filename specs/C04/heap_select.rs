//@unit tier=quick
//@include prelude/uses.rs
use std::fmt::Debug;
use vstd::multiset::Multiset;
verus! {
//@include prelude/order.rs
//@include prelude/total_order.rs
//@include prelude/slice_swap.rs
//@include C04/inc/heap_defs.rs

// `x.partial_cmp(&y) == Some(Ordering::..)` in exec code: Option<Ordering>'s == is structural (needed inside loop bodies too)
// (module-level `broadcast use` must live in another module than the axiom it names)
mod unit {
use super::*;
broadcast use {axiom_ordering_eq, vstd::laws_eq::group_laws_eq};

// ---- step lemmas of sift_down (one loop iteration, stated on the pre-state h of the iteration) ----
// the loop invariant of sift_down at node kk: heap order from k on except between kk and its children, whose values are
// dominated by kk's parent
spec fn sift_inv<T: PartialOrd>(h: Seq<T>, dom: Set<T>, k: int, kk: int, n: int) -> bool {
    &&& total_on(dom) && all_in(h, dom)
    &&& 0 <= k <= kk <= n < h.len()
    &&& forall|c: int| 1 <= c <= n && k <= par(c) && par(c) != kk ==> ge(h[par(c)], #[trigger] h[c])
    &&& forall|c: int| 1 <= c <= n && par(c) == kk && kk > k ==> ge(h[par(kk)], #[trigger] h[c])
}
// j is the child of kk the code goes for: 2kk+1 if it exists and is strictly larger than 2kk, else 2kk
spec fn sift_child<T: PartialOrd>(h: Seq<T>, kk: int, n: int, j: int) -> bool {
    &&& 2 * kk <= n
    &&& if 2 * kk < n && lt(h[2 * kk], h[2 * kk + 1]) { j == 2 * kk + 1 } else { j == 2 * kk }
}
// stop: kk dominates its larger child j, hence both children: heap order from k on
proof fn lemma_sift_stop<T: PartialOrd>(h: Seq<T>, dom: Set<T>, k: int, kk: int, n: int, j: int)
    requires
        sift_inv(h, dom, k, kk, n),
        sift_child(h, kk, n, j),
        ge(h[kk], h[j]),
    ensures
        heap_from(h, k, n),
{
    if 2 * kk + 1 <= n { lemma_total_not_lt(dom, h[2 * kk], h[2 * kk + 1]); }
    assert forall|c: int| 1 <= c <= n && par(c) == kk implies ge(h[kk], #[trigger] h[c]) by {
        assert(c == 2 * kk || c == 2 * kk + 1);
        if c != j {
            lemma_total_not_lt(dom, h[j], h[c]);
            lemma_total_ge_trans(dom, h[kk], h[j], h[c]);
        }
    }
}
// go on: kk does not dominate its larger child j: j is a proper child of kk, and after exchanging them the invariant holds at j
proof fn lemma_sift_swap<T: PartialOrd>(h: Seq<T>, dom: Set<T>, k: int, kk: int, n: int, j: int)
    requires
        sift_inv(h, dom, k, kk, n),
        sift_child(h, kk, n, j),
        !ge(h[kk], h[j]),
    ensures
        kk < j <= n, par(j) == kk,
        sift_inv(h.update(kk, h[j]).update(j, h[kk]), dom, k, j, n),
        h.update(kk, h[j]).update(j, h[kk]).to_multiset() == h.to_multiset(),
{
    if 2 * kk + 1 <= n { lemma_total_not_lt(dom, h[2 * kk], h[2 * kk + 1]); }
    // not (kk >= j)  ==>  kk < j strictly; in particular j != kk (reflexivity), which is what makes the loop terminate
    lemma_total_not_lt(dom, h[kk], h[j]);
    lemma_total_not_lt(dom, h[j], h[kk]);
    assert(j != kk);
    assert(par(j) == kk);
    let h2 = h.update(kk, h[j]).update(j, h[kk]);
    lemma_swap_multiset(h, kk, j);
    assert forall|c: int| 1 <= c <= n && k <= par(c) && par(c) != j implies ge(h2[par(c)], #[trigger] h2[c]) by {
        if par(c) == kk {
            assert(c == 2 * kk || c == 2 * kk + 1);
            if c != j {
                lemma_total_not_lt(dom, h[j], h[c]);
            }
        } else if c == kk {
            assert(kk > k);
            assert(ge(h[par(kk)], h[j]));
        } else {
            assert(ge(h[par(c)], h[c]));
        }
    }
    assert forall|c: int| 1 <= c <= n && par(c) == j && j > k implies ge(h2[par(j)], #[trigger] h2[c]) by {
        assert(ge(h[par(c)], h[c]));
    }
    assert(all_in(h2, dom));
}

//@struct src/algorithm/sort/heap_select.rs :: HeapSelection

impl<T: PartialOrd + Debug> HeapSelection<T> {
    // representation invariant.  n counts the add() calls; while n < k the vector is just filling up (no order);
    // from n >= k on it holds exactly k entries in heap order (root = a maximum, see lemma_heap_root_max).
    spec fn wf(&self) -> bool {
        &&& 1 <= self.k
        &&& self.k - 1 <= usize::MAX / 2
        &&& if self.n < self.k { self.heap@.len() == self.n } else { self.heap@.len() == self.k && heap_ok(self.heap@) }
        &&& self.sorted ==> self.n >= self.k
    }
    // add()'s postcondition as a relation (one text: it is add()'s `ensures` and the step relation of lemma_add_sequence_keeps_k_smallest below)
    spec fn add_post(pre: Self, element: T, post: Self) -> bool {
        &&& post.wf()
        &&& post.k == pre.k
        &&& post.n == pre.n + 1
        &&& if pre.n < pre.k {
                post.heap@.to_multiset() == pre.heap@.to_multiset().insert(element)
            } else if lt(element, pre.heap@[0]) {
                post.heap@.to_multiset() == pre.heap@.to_multiset().remove(pre.heap@[0]).insert(element)
            } else {
                post.heap@ == pre.heap@
            }
    }

//@extract src/algorithm/sort/heap_select.rs :: impl<T: PartialOrd + Debug> HeapSelection<T> :: sift_down
//@spec
        requires
            T::obeys_partial_cmp_spec(),
            total_on(old(self).heap@.to_set()),
            k <= n < old(self).heap@.len(),
            n <= usize::MAX / 2,
            // the heap order holds below k: every node p with k < p <= n dominates its children
            heap_from(old(self).heap@, k as int + 1, n as int),
        ensures
            // ... and afterwards from k on
            heap_from(final(self).heap@, k as int, n as int), //# sift-down-restores-heap-order
            final(self).heap@.to_multiset() == old(self).heap@.to_multiset(), //# sift-down-permutes
            // frame: entries outside the subtree range [k, n] and the other fields are untouched
            final(self).heap@.len() == old(self).heap@.len(),
            forall|i: int| 0 <= i < old(self).heap@.len() && !(k <= i <= n) ==> final(self).heap@[i] == old(self).heap@[i], //# sift-down-frame
            final(self).k == old(self).k, final(self).n == old(self).n, final(self).sorted == old(self).sorted,
//@enter
        proof { axiom_ordering_obeys(); }
        let ghost dom = self.heap@.to_set();
        assert(all_in(self.heap@, dom)) by {
            assert forall|i: int| 0 <= i < self.heap@.len() implies dom.contains(#[trigger] self.heap@[i]) by {
                assert(self.heap@.contains(self.heap@[i]));
            }
        }
//@loop 1
            // (loops are not isolated: what holds on the path to an exit -- the `break`, or the failed loop test -- is known after
            // the loop, so the heap order on exit needs no loop `ensures`; the step lemmas at loopbody/loopend provide it)
            invariant
                // heap order from k on, except between kk and its children ...
                forall|c: int| 1 <= c <= n && k <= par(c) && par(c) != kk ==> ge(self.heap@[par(c)], #[trigger] self.heap@[c]),
                // ... and kk's children are dominated by kk's parent (so that moving a child up is safe)
                forall|c: int| 1 <= c <= n && par(c) == kk && kk > k ==> ge(self.heap@[par(kk as int)], #[trigger] self.heap@[c]),
                T::obeys_partial_cmp_spec(), Ordering::obeys_eq_spec(),
                total_on(dom),
                all_in(self.heap@, dom),
                k <= kk <= n < self.heap@.len(),
                n <= usize::MAX / 2,
                self.heap@.len() == old(self).heap@.len(),
                self.heap@.to_multiset() == old(self).heap@.to_multiset(),
                forall|i: int| 0 <= i < self.heap@.len() && !(k <= i <= n) ==> self.heap@[i] == old(self).heap@[i],
                self.k == old(self).k, self.n == old(self).n, self.sorted == old(self).sorted,
            decreases n - kk
//@loopbody 1
            let ghost h = self.heap@;
            let ghost kk0 = kk as int;
            proof {
                assert(sift_inv(h, dom, k as int, kk0, n as int));
                // leaving the loop: whichever child the code picks (the larger one), if kk dominates it the heap order holds from k on
                if sift_child(h, kk0, n as int, 2 * kk0) && ge(h[kk0], h[2 * kk0]) { lemma_sift_stop(h, dom, k as int, kk0, n as int, 2 * kk0); }
                if sift_child(h, kk0, n as int, 2 * kk0 + 1) && ge(h[kk0], h[2 * kk0 + 1]) { lemma_sift_stop(h, dom, k as int, kk0, n as int, 2 * kk0 + 1); }
            }
//@loopend 1
            // going on: kk0 was exchanged with its larger child, which is now kk
            proof {
                if sift_child(h, kk0, n as int, kk as int) && !ge(h[kk0], h[kk as int]) {
                    lemma_sift_swap(h, dom, k as int, kk0, n as int, kk as int);
                }
            }
//@end

//@extract src/algorithm/sort/heap_select.rs :: impl<T: PartialOrd + Debug> HeapSelection<T> :: heapify
//@spec
        requires
            T::obeys_partial_cmp_spec(),
            total_on(old(self).heap@.to_set()),
            old(self).heap@.len() >= 1 ==> old(self).heap@.len() - 1 <= usize::MAX / 2,
            // what heapify needs: heap order below the nodes it sifts.  It sifts the nodes len/2-1 .. 0 only; for an
            // even length this precondition is vacuous (heapify of an arbitrary vector), for an odd length node len/2
            // still has the child len-1 and is NOT sifted, so its order must hold beforehand.  It always holds when
            // only the root was overwritten (peek_mut), which is the only use in /repo.
            heap_from(old(self).heap@, old(self).heap@.len() as int / 2, old(self).heap@.len() - 1),
        ensures
            heap_ok(final(self).heap@), //# heapify-establishes-heap-order
            final(self).heap@.to_multiset() == old(self).heap@.to_multiset(), //# heapify-permutes
            final(self).heap@.len() == old(self).heap@.len(),
            final(self).k == old(self).k, final(self).n == old(self).n, final(self).sorted == old(self).sorted,
//@loop 1
            invariant
                T::obeys_partial_cmp_spec(),
                n == self.heap@.len(), n >= 2, n - 1 <= usize::MAX / 2,
                total_on(old(self).heap@.to_set()),
                heap_from(self.heap@, n as int / 2 - VERUS_ghost_iter.index@, n - 1),
                self.heap@.to_multiset() == old(self).heap@.to_multiset(),
                self.k == old(self).k, self.n == old(self).n, self.sorted == old(self).sorted,
//@loopbody 1
            proof { lemma_same_multiset_same_set(old(self).heap@, self.heap@); }
//@end

//@extract src/algorithm/sort/heap_select.rs :: impl<T: PartialOrd + Debug> HeapSelection<T> :: with_capacity :: ret=r
//@spec
        ensures
            r.k == k, r.n == 0, !r.sorted, r.heap@ == Seq::<T>::empty(),
            1 <= k && k - 1 <= usize::MAX / 2 ==> r.wf(),
//@end

//@extract src/algorithm/sort/heap_select.rs :: impl<T: PartialOrd + Debug> HeapSelection<T> :: add
//@spec
        requires
            old(self).wf(),
            old(self).n < usize::MAX,
            T::obeys_partial_cmp_spec(),
            total_on(old(self).heap@.to_set().insert(element)),
        ensures
            Self::add_post(*old(self), element, *final(self)), //# add-keeps-k-smallest-step
//@enter
        let ghost h0 = self.heap@;
        let ghost dom = h0.to_set().insert(element);
        proof { axiom_ordering_obeys(); h0.to_multiset_ensures(); }
        proof {
            if self.n < self.k {
                // first branch: the vector becomes h0.push(element); its values lie in dom, so sort() may be called
                let h1 = h0.push(element);
                assert(h1.to_set().subset_of(dom)) by {
                    assert forall|x: T| h1.contains(x) implies dom.contains(x) by {
                        let i = choose|i: int| 0 <= i < h1.len() && h1[i] == x;
                        if i < h0.len() { assert(h0.contains(h0[i])); }
                    }
                }
                lemma_total_on_subset(dom, h1.to_set());
            } else {
                // second branch: the root is overwritten (h0.update(0, element)) and sifted down
                let h1 = h0.update(0, element);
                lemma_update_multiset(h0, 0, element);
                assert(h1.to_set().subset_of(dom)) by {
                    assert forall|x: T| h1.contains(x) implies dom.contains(x) by {
                        let i = choose|i: int| 0 <= i < h1.len() && h1[i] == x;
                        if i != 0 { assert(h0.contains(h0[i])); }
                    }
                }
                lemma_total_on_subset(dom, h1.to_set());
                // only the root changed: the order below it is the old one
                assert(heap_from(h1, 1, self.k - 1)) by {
                    assert forall|c: int| 1 <= c <= self.k - 1 && 1 <= par(c) implies ge(h1[par(c)], #[trigger] h1[c]) by {
                        assert(ge(h0[par(c)], h0[c]));
                    }
                }
            }
        }
//@exit
        proof {
            // the vector just became full and was sorted in descending order: that is a heap
            if forall|i: int, j: int| 0 <= i <= j < self.heap@.len() ==> ge(self.heap@[i], self.heap@[j]) { lemma_sorted_desc_is_heap(self.heap@); }
        }
//@end

//@extract src/algorithm/sort/heap_select.rs :: impl<T: PartialOrd + Debug> HeapSelection<T> :: peek_mut :: ret=r
//@spec
        requires
            old(self).heap@.len() > 0,
        ensures
            *r == old(self).heap@[0], //# peek-mut-is-root
            final(self).heap@ == old(self).heap@.update(0, *final(r)),
            final(self).k == old(self).k, final(self).n == old(self).n, final(self).sorted == old(self).sorted,
//@end

//@extract src/algorithm/sort/heap_select.rs :: impl<T: PartialOrd + Debug> HeapSelection<T> :: get :: ret=r
//@spec
        ensures
            r@ == self.heap@, //# get-returns-heap
//@end

    // `sort` is `self.heap.sort_by(|a, b| b.partial_cmp(a).unwrap())`: a closure comparator, outside the Verus subset.
    // Stand-in with the contract of a descending sort (NOT verified here, see property.json: functions_not_under_contract).
//@checkdecl src/algorithm/sort/heap_select.rs :: impl<T: PartialOrd + Debug> HeapSelection<T> :: sort :: fn sort(&mut self)
    // ASSUME[A-HEAPSELECT-SORT] HeapSelection::sort sets `sorted` and sorts `heap` in descending order (slice::sort_by with the reversed partial_cmp, total on the values)
    #[verifier::external_body]
    fn sort(&mut self)
        requires
            total_on(old(self).heap@.to_set()),
        ensures
            final(self).sorted,
            final(self).heap@.to_multiset() == old(self).heap@.to_multiset(),
            final(self).heap@.len() == old(self).heap@.len(),
            forall|i: int, j: int| 0 <= i <= j < final(self).heap@.len() ==> ge(final(self).heap@[i], final(self).heap@[j]),
            final(self).k == old(self).k, final(self).n == old(self).n,
    { unimplemented!() }
}

// ---- "after any sequence of adds the heap holds the k smallest of everything added, root = their maximum" ----
// st[0] is a fresh selection (n == 0); st[i+1] is related to st[i] and xs[i] by NOTHING BUT add()'s postcondition.
spec fn add_run<T: PartialOrd + Debug>(st: Seq<HeapSelection<T>>, xs: Seq<T>) -> bool {
    &&& st.len() == xs.len() + 1
    &&& st[0].wf() && st[0].n == 0
    &&& forall|i: int| 0 <= i < xs.len() ==> HeapSelection::add_post(#[trigger] st[i], xs[i], st[i + 1])
}

proof fn lemma_add_sequence_keeps_k_smallest<T: PartialOrd + Debug>(st: Seq<HeapSelection<T>>, xs: Seq<T>)
    requires
        add_run(st, xs),
        total_on(xs.to_set()),
    ensures
        st.last().wf(), st.last().k == st[0].k, st.last().n == xs.len(),
        k_smallest(st.last().heap@.to_multiset(), xs.to_multiset(), st[0].k as nat), //# heap-holds-k-smallest-of-all-added
        xs.len() <= st[0].k ==> st.last().heap@.to_multiset() == xs.to_multiset(),
        // the root is the maximum of the kept ones
        xs.len() >= st[0].k ==> forall|i: int| 0 <= i < st.last().heap@.len() ==> le(#[trigger] st.last().heap@[i], st.last().heap@[0]), //# root-is-maximum-of-kept
    decreases xs.len(),
{
    let k = st[0].k as nat;
    xs.to_multiset_ensures();
    if xs.len() == 0 {
        assert(st.last() == st[0]);
        assert(st[0].heap@ =~= Seq::<T>::empty());
        assert(xs =~= Seq::<T>::empty());
        assert(st[0].heap@.to_multiset() =~= xs.to_multiset()) by { st[0].heap@.to_multiset_ensures(); }
    } else {
        let xs0 = xs.drop_last();
        let st0 = st.drop_last();
        let x = xs.last();
        let pre = st0.last();
        let post = st.last();
        assert(xs == xs0.push(x));
        xs0.to_multiset_ensures();
        assert(xs.to_multiset() == xs0.to_multiset().insert(x));
        assert(xs0.to_set().subset_of(xs.to_set())) by {
            assert forall|v: T| xs0.contains(v) implies xs.contains(v) by {
                let i = choose|i: int| 0 <= i < xs0.len() && xs0[i] == v;
                assert(xs[i] == v);
            }
        }
        lemma_total_on_subset(xs.to_set(), xs0.to_set());
        assert(add_run(st0, xs0)) by {
            assert forall|i: int| 0 <= i < xs0.len() implies HeapSelection::add_post(#[trigger] st0[i], xs0[i], st0[i + 1]) by {
                assert(HeapSelection::add_post(st[i], xs[i], st[i + 1]));
            }
        }
        lemma_add_sequence_keeps_k_smallest(st0, xs0);
        assert(pre == st[xs.len() - 1]);
        assert(HeapSelection::add_post(st[xs.len() - 1], xs[xs.len() - 1], st[xs.len() - 1 + 1]));
        assert(HeapSelection::add_post(pre, x, post));
        let s0 = xs0.to_multiset();
        let s1 = xs.to_multiset();
        let m0 = pre.heap@.to_multiset();
        let m1 = post.heap@.to_multiset();
        let dom = xs.to_set();
        pre.heap@.to_multiset_ensures();
        post.heap@.to_multiset_ensures();
        assert(xs.contains(x)) by { assert(xs[xs.len() - 1] == x); }
        // every value with a positive count in s1 lies in dom
        assert forall|v: T| s1.count(v) > 0 implies dom.contains(v) by { assert(xs.contains(v)); }
        assert forall|v: T| m0.count(v) > 0 implies s1.count(v) > 0 by { assert(m0.count(v) <= s0.count(v)); }
        if pre.n < pre.k {
            assert(m1 =~= s1);
            assert(k_smallest(m1, s1, k));
        } else {
            let m = pre.heap@[0];
            // heap values lie in dom, so the order is total on them
            assert(pre.heap@.to_set().subset_of(dom)) by {
                assert forall|v: T| pre.heap@.contains(v) implies dom.contains(v) by { assert(m0.count(v) > 0); }
            }
            lemma_total_on_subset(dom, pre.heap@.to_set());
            assert(pre.heap@.contains(m));
            assert(m0.count(m) > 0);
            // root of pre dominates everything in m0
            assert forall|a: T| m0.count(a) > 0 implies le(a, m) by {
                assert(pre.heap@.contains(a));
                let i = choose|i: int| 0 <= i < pre.heap@.len() && pre.heap@[i] == a;
                lemma_heap_root_max(pre.heap@, i);
            }
            lemma_total_not_lt(dom, x, m);
            if lt(x, m) {
                assert(m1 == m0.remove(m).insert(x));
                assert(m1.len() == k);
                assert forall|a: T, b: T| #![trigger m1.count(a), s1.count(b)] m1.count(a) > 0 && s1.count(b) > m1.count(b) implies le(a, b) by {
                    // a is x or was kept before; b is the evicted root or was left out before
                    let a_old = m0.count(a) > 0;
                    let b_old = s0.count(b) > m0.count(b);
                    assert(a == x || a_old);
                    assert(b == m || b_old);
                    if a_old && b_old {
                    } else if a_old && b == m {
                    } else if a == x && b == m {
                    } else {
                        // x < m <= b
                        assert(le(m, b));
                        assert(s1.count(b) > 0);
                        assert(le(x, m) && le(m, b));
                    }
                }
                assert(m1.subset_of(s1));
            } else {
                assert(m1 == m0);
                assert forall|a: T, b: T| #![trigger m1.count(a), s1.count(b)] m1.count(a) > 0 && s1.count(b) > m1.count(b) implies le(a, b) by {
                    if s0.count(b) > m0.count(b) {
                    } else {
                        // b is the rejected x: a <= m <= x
                        assert(b == x);
                        lemma_total_not_lt(dom, m, x);
                        assert(le(a, m) && le(m, x));
                    }
                }
                assert(m1.subset_of(s1));
            }
        }
        // root of post dominates post's heap
        if xs.len() >= k {
            assert(post.heap@.to_set().subset_of(dom)) by {
                assert forall|v: T| post.heap@.contains(v) implies dom.contains(v) by { assert(m1.count(v) > 0); assert(m1.count(v) <= s1.count(v)); }
            }
            lemma_total_on_subset(dom, post.heap@.to_set());
            assert forall|i: int| 0 <= i < post.heap@.len() implies le(#[trigger] post.heap@[i], post.heap@[0]) by {
                lemma_heap_root_max(post.heap@, i);
            }
        }
    }
}
} // mod unit
} // verus!
fn main() {}
