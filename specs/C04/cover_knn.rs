//@unit tier=quick rlimit=60
// C04 (cover tree, k-NN part): CoverTree::find(p, k), relative to the same premises as C04/cover_radius.rs (tree_wf, the
// triangle inequality metric_on, idealised reals A-REAL) plus `dist_bounded` (no distance exceeds F::max_value(), the
// sentinel the code puts into the heap) and the size premise n <= usize::MAX / 2.
// PROVED (all inputs): memory safety, termination; Err exactly for k == 0 || k > n; Ok(v): exactly k entries, each the
// true (index, distance, point) of a data point, indices pairwise different (knn_shape); and (knn_bound) there is a bound u
// -- a maximum of the heap at the end -- with: every returned entry lies within u; at least k data points lie within u and
// fewer than k strictly inside (u IS the k-th smallest distance); every data point within u is a candidate (nothing as
// close as the k-th best is pruned: lemma_prune with the code's test `d <= upper_bound + child.max_dist`, the bound never
// grows, no point is offered to the heap twice); and if exactly k data points lie within u (no tie at the k-th distance)
// the answer is the k nearest (k_nearest).
// NOT decided: which k of MORE than k candidates are returned (ties at the k-th distance), i.e. k_nearest on the
// `neighbors.len() > k` path: that rests on `sort_by(|a, b| a.1.partial_cmp(&b.1).unwrap())`, and an exec closure in
// verbatim text carries no `ensures` in this Verus, so "ascending by distance" is not available (C04/inc/sort_by_spec.rs:
// only "permutation" is used).  HeapSelection enters through the contracts of C04/heap_select.rs (C04/inc/heap_contracts.rs).
//@include prelude/uses.rs
use std::fmt::Debug;
use vstd::multiset::Multiset;
verus! {
//@include prelude/realnumber.rs
//@include prelude/order.rs
//@include prelude/total_order.rs
//@include prelude/distance.rs
//@include prelude/error.rs
//@include prelude/real.rs
//@include prelude/enum_count.rs
//@include C04/inc/heap_defs.rs
//@include C04/inc/heap_contracts.rs
//@include C04/inc/sort_by_spec.rs

//@struct src/algorithm/neighbour/cover_tree.rs :: CoverTree
//@struct src/algorithm/neighbour/cover_tree.rs :: Node

//@include C04/inc/cover_defs.rs
//@include C04/inc/cover_query_defs.rs
//@include C04/inc/knn_defs.rs

mod unit {
use super::*;
broadcast use {axiom_ordering_eq, vstd::laws_eq::group_laws_eq};

// under A-REAL the order of F is total on every set of values (so the `total_on` preconditions of the heap hold)
proof fn lemma_all_total<F: RealNumber>()
    ensures forall|s: Set<F>| #[trigger] total_on(s),
{
    axiom_real::<F>();
}
// a maximum of the heap values, if there is one
spec fn hmax<F: RealNumber>(hs: Seq<F>) -> F { choose|u: F| is_max_of(hs, u) }
proof fn lemma_has_max<F: RealNumber>(hs: Seq<F>)
    requires hs.len() > 0,
    ensures is_max_of(hs, hmax(hs)),
    decreases hs.len()
{
    axiom_real::<F>();
    let x = hs.last();
    if hs.len() == 1 {
        assert(hs[0] == x);
        assert(is_max_of(hs, x));
    } else {
        let h0 = hs.drop_last();
        lemma_has_max(h0);
        let m0 = hmax(h0);
        let t = choose|t: int| 0 <= t < h0.len() && h0[t] == m0;
        assert(hs[t] == m0);
        let m = if le(x, m0) { m0 } else { x };
        assert(hs[hs.len() - 1] == x);
        assert forall|i: int| 0 <= i < hs.len() implies le(#[trigger] hs[i], m) by {
            if i < h0.len() { assert(h0[i] == hs[i]); assert(le(h0[i], m0)); }
        }
        assert(is_max_of(hs, m));
    }
}
// two maxima have the same value
proof fn lemma_max_val<F: RealNumber>(hs: Seq<F>, u: F, w: F)
    requires is_max_of(hs, u), is_max_of(hs, w),
    ensures val(u) == val(w),
{
    axiom_real::<F>();
    let a = choose|a: int| 0 <= a < hs.len() && hs[a] == u;
    let b = choose|b: int| 0 <= b < hs.len() && hs[b] == w;
    assert(le(hs[a], w) && le(hs[b], u));
}

// the candidate entry built from a zero-set entry
spec fn keys<F: RealNumber>(zs: Seq<(F, &Node<F>)>) -> Seq<int> { Seq::new(zs.len(), |a: int| zs[a].1.idx as int) }

impl<T: Debug + PartialEq, F: RealNumber + Debug, D: Distance<T, F>> CoverTree<T, F, D> {
    spec fn nn(&self) -> int { self.data@.len() as int }
    // ASSUME[A-KNN-DIST-BOUNDED] premise of the contract (not a trusted construct): no distance from a data point to the query
    // exceeds the sentinel F::max_value() the code starts the heap with (for f32/f64: no infinite distance).  Without it
    // the code can return fewer than k entries.
    spec fn dist_bounded(&self, p: &T) -> bool {
        forall|i: int| 0 <= i < self.data@.len() ==> le(#[trigger] self.dist_to(p, i), F::max_value_spec())
    }
    // "data point i lies within u", as a predicate to count with
    spec fn good(&self, p: &T, u: F) -> spec_fn(int) -> bool { |i: int| self.within(p, u, i) }
    spec fn dists(&self, p: &T, added: Seq<int>) -> Seq<F> { Seq::new(added.len(), |t: int| self.dist_to(p, added[t])) }

    // the heap holds some of: the sentinel and the distances of the DIFFERENT data points `added` offered so far
    #[verifier::opaque]
    spec fn heap_core(&self, p: &T, k: usize, hp: HeapSelection<F>, added: Seq<int>) -> bool {
        &&& hp.wf() && hp.k == k && hp.n == added.len() + 1 && hp.heap@.len() > 0
        &&& forall|t: int| 0 <= t < added.len() ==> 0 <= #[trigger] added[t] < self.data@.len()
        &&& forall|s: int, t: int| 0 <= s < t < added.len() ==> added[s] != added[t]
        &&& hp.heap@.to_multiset().subset_of(self.dists(p, added).to_multiset().insert(F::max_value_spec()))
        // not yet full: everything offered is kept; full: whatever was left out is at least as large as everything kept
        &&& hp.n < k ==> hp.heap@.to_multiset() == self.dists(p, added).to_multiset().insert(F::max_value_spec())
        &&& hp.n >= k ==> forall|v: F| self.dists(p, added).to_multiset().insert(F::max_value_spec()).count(v) > #[trigger] hp.heap@.to_multiset().count(v)
                ==> forall|t: int| 0 <= t < hp.heap@.len() ==> le(#[trigger] hp.heap@[t], v)
    }
    // "data point i lies strictly inside u"
    spec fn near(&self, p: &T, u: F) -> spec_fn(int) -> bool { |i: int| lt(self.dist_to(p, i), u) }
    // every data point strictly inside the bound has been offered to the heap or still has a leaf to be offered
    spec fn near_ok(&self, p: &T, u: F, added: Seq<int>, next: Seq<(F, &Node<F>)>, kids: Seq<Node<F>>, c: int, cs: Seq<(F, &Node<F>)>, j: int) -> bool {
        forall|i: int| 0 <= i < self.data@.len() && lt(self.dist_to(p, i), u) ==> added.contains(i) || #[trigger] fresh(next, kids, c, cs, j, i) >= 1
    }
    // entries of the zero set: leaves with their true distance
    spec fn leaves_ok(&self, p: &T, zs: Seq<(F, &Node<F>)>) -> bool {
        forall|k: int| 0 <= k < zs.len() ==> {
            let e = #[trigger] zs[k];
            &&& e.1.idx < self.data@.len()
            &&& e.1.children@.len() == 0
            &&& e.0 == self.dist_to(p, e.1.idx as int)
        }
    }
    // ---- the answer ----
    spec fn entries_ok(&self, p: &T, v: Seq<(usize, F, &T)>) -> bool {
        &&& forall|a: int| 0 <= a < v.len() ==> {
                &&& 0 <= (#[trigger] v[a]).0 < self.data@.len()
                &&& v[a].1 == self.dist_to(p, v[a].0 as int)    // the true distance
                &&& *v[a].2 == self.data@[v[a].0 as int]        // the point itself
            }
        &&& forall|a: int, b: int| 0 <= a < b < v.len() ==> (#[trigger] v[a]).0 != (#[trigger] v[b]).0   // no duplicates
    }
    spec fn knn_shape(&self, p: &T, k: usize, v: Seq<(usize, F, &T)>) -> bool {
        v.len() == k && self.entries_ok(p, v)
    }
    // every entry is at least as close as every data point that was not returned (ties arbitrary)
    spec fn k_nearest(&self, p: &T, v: Seq<(usize, F, &T)>) -> bool {
        forall|j: int, a: int| 0 <= j < self.data@.len() && 0 <= a < v.len() && (forall|b: int| 0 <= b < v.len() ==> (#[trigger] v[b]).0 != j)
            ==> val((#[trigger] v[a]).1) <= val(#[trigger] self.dist_to(p, j))
    }
    // what is proved about WHICH points are returned: all lie within u = the k-th smallest distance (at least k data points
    // lie within u, fewer than k strictly inside), and if exactly k data points lie within u the answer is the k nearest
    spec fn knn_bound(&self, p: &T, k: usize, v: Seq<(usize, F, &T)>) -> bool {
        exists|u: F| {
            &&& forall|a: int| 0 <= a < v.len() ==> #[trigger] self.within(p, u, v[a].0 as int)
            &&& count_range(#[trigger] self.good(p, u), self.nn()) >= k
            &&& count_range(self.near(p, u), self.nn()) < k
            &&& count_range(self.good(p, u), self.nn()) == k ==> self.k_nearest(p, v)
        }
    }

    // every well-formed node has the leaf of its own point below it: nl counts it, nfl does not
    proof fn lemma_nl_nfl(&self, nd: Node<F>, i: int)
        requires self.node_wf(nd),
        ensures nl(nd, i) == nfl(nd, i) + (if i == nd.idx { 1nat } else { 0nat }),
        decreases nd
    {
        if nd.children@.len() > 0 {
            let kids = nd.children@;
            assert(self.node_wf(kids[0]));
            self.lemma_nl_nfl(kids[0], i);
            assert(nl_seq(kids, 0, kids.len() as int, i) == nl(kids[0], i) + nl_seq(kids, 1, kids.len() as int, i));
        }
    }
    // a smaller bound keeps the bookkeeping
    proof fn lemma_counts_mono(&self, p: &T, r1: F, r2: F, zero: Seq<(F, &Node<F>)>, next: Seq<(F, &Node<F>)>, kids: Seq<Node<F>>, c: int,
                               cs: Seq<(F, &Node<F>)>, j: int)
        requires
            self.counts_ok(p, r1, zero, next, kids, c, cs, j),
            val(r2) <= val(r1),
        ensures
            self.counts_ok(p, r2, zero, next, kids, c, cs, j),
    {
        axiom_real::<F>();
        assert forall|i: int| 0 <= i < self.data@.len() implies ({
            let t = #[trigger] Self::total(zero, next, kids, c, cs, j, i);
            t <= 1 && (self.within(p, r2, i) ==> t == 1)
        }) by {
            if self.within(p, r2, i) { assert(self.within(p, r1, i)); }
        }
    }
    // a non-first child that is being inspected has not been offered before
    proof fn lemma_fresh_new(&self, added: Seq<int>, next: Seq<(F, &Node<F>)>, kids: Seq<Node<F>>, c: int, cs: Seq<(F, &Node<F>)>, j: int)
        requires
            fresh_ok(added, next, kids, c, cs, j),
            1 <= c < kids.len(),
            self.node_wf(kids[c]),
        ensures
            forall|t: int| 0 <= t < added.len() ==> #[trigger] added[t] != kids[c].idx,
    {
        let xi = kids[c].idx as int;
        self.lemma_nl_nfl(kids[c], xi);
        lemma_nl_seq_member(kids, c, kids.len() as int, c, xi);
        assert(fresh(next, kids, c, cs, j, xi) >= 1);
    }
    // ... and once it has been offered (queued or collected) nothing of its point remains to be offered
    proof fn lemma_fresh_offered(&self, zero: Seq<(F, &Node<F>)>, next: Seq<(F, &Node<F>)>, kids: Seq<Node<F>>, c: int, cs: Seq<(F, &Node<F>)>, j: int, x: (F, &Node<F>))
        requires
            1 <= c < kids.len(),
            *x.1 == kids[c],
            self.node_wf(kids[c]),
            Self::total(zero, next, kids, c, cs, j, kids[c].idx as int) <= 1,
        ensures
            fresh(next.push(x), kids, c + 1, cs, j, kids[c].idx as int) == 0,
            fresh(next, kids, c + 1, cs, j, kids[c].idx as int) == 0,
    {
        let xi = kids[c].idx as int;
        self.lemma_nl_nfl(kids[c], xi);
        assert(nl_seq(kids, c, kids.len() as int, xi) == nl(kids[c], xi) + nl_seq(kids, c + 1, kids.len() as int, xi));
        lemma_nfl_cov_le(next, 0, next.len() as int, xi);
        lemma_nfl_cov_le(cs, j, cs.len() as int, xi);
        lemma_nfl_cov_push(next, x, 0, xi);
    }

    // ---- "every strictly closer point has been offered or is still to come" ----
    proof fn lemma_near_same(&self, p: &T, u: F, added: Seq<int>, next: Seq<(F, &Node<F>)>, kids: Seq<Node<F>>, c: int, cs: Seq<(F, &Node<F>)>, j: int,
                             next2: Seq<(F, &Node<F>)>, kids2: Seq<Node<F>>, c2: int, cs2: Seq<(F, &Node<F>)>, j2: int)
        requires
            self.near_ok(p, u, added, next, kids, c, cs, j),
            forall|i: int| #[trigger] fresh(next2, kids2, c2, cs2, j2, i) == fresh(next, kids, c, cs, j, i),
        ensures
            self.near_ok(p, u, added, next2, kids2, c2, cs2, j2),
    {
        assert forall|i: int| 0 <= i < self.data@.len() && lt(self.dist_to(p, i), u) implies added.contains(i) || #[trigger] fresh(next2, kids2, c2, cs2, j2, i) >= 1 by {
            assert(added.contains(i) || fresh(next, kids, c, cs, j, i) >= 1);
        }
    }
    proof fn lemma_near_mono(&self, p: &T, u1: F, u2: F, added: Seq<int>, next: Seq<(F, &Node<F>)>, kids: Seq<Node<F>>, c: int, cs: Seq<(F, &Node<F>)>, j: int)
        requires
            self.near_ok(p, u1, added, next, kids, c, cs, j),
            val(u2) <= val(u1),
        ensures
            self.near_ok(p, u2, added, next, kids, c, cs, j),
    {
        axiom_real::<F>();
        assert forall|i: int| 0 <= i < self.data@.len() && lt(self.dist_to(p, i), u2) implies added.contains(i) || #[trigger] fresh(next, kids, c, cs, j, i) >= 1 by {
            assert(lt(self.dist_to(p, i), u1));
        }
    }
    // child c is dealt with: kept (queued, or collected as a leaf) -- then, if it is a non-first child strictly inside the new
    // bound, its point is among the offered ones; or dropped -- then nothing below it lies within the bound ub used
    proof fn lemma_near_child(&self, p: &T, ub: F, u2: F, added: Seq<int>, added2: Seq<int>, next0: Seq<(F, &Node<F>)>, next2: Seq<(F, &Node<F>)>,
                              kids: Seq<Node<F>>, c: int, cs: Seq<(F, &Node<F>)>, j: int, x: (F, &Node<F>))
        requires
            self.near_ok(p, ub, added, next0, kids, c, cs, j),
            val(u2) <= val(ub),
            forall|t: int| 0 <= t < added.len() ==> added2.contains(#[trigger] added[t]),
            0 <= c < kids.len(),
            *x.1 == kids[c],
            self.node_wf(kids[c]),
            ({
                ||| ((next2 == next0.push(x) || (next2 == next0 && kids[c].children@.len() == 0))
                        && (c >= 1 && lt(self.dist_to(p, kids[c].idx as int), u2) ==> added2.contains(kids[c].idx as int)))
                ||| (next2 == next0 && forall|i: int| 0 <= i < self.data@.len() && #[trigger] nl(kids[c], i) > 0 ==> !self.within(p, ub, i))
            }),
        ensures
            self.near_ok(p, u2, added2, next2, kids, c + 1, cs, j),
    {
        axiom_real::<F>();
        lemma_fresh_drop_bound(next0, kids, c, cs, j);
        let xi = kids[c].idx as int;
        assert forall|i: int| 0 <= i < self.data@.len() && lt(self.dist_to(p, i), u2) implies added2.contains(i) || #[trigger] fresh(next2, kids, c + 1, cs, j, i) >= 1 by {
            assert(lt(self.dist_to(p, i), ub));
            assert(self.within(p, ub, i));
            if added.contains(i) {
                let t = choose|t: int| 0 <= t < added.len() && added[t] == i;
                assert(added2.contains(added[t]));
            } else {
                assert(fresh(next0, kids, c, cs, j, i) >= 1);
                assert(fresh(next0, kids, c + 1, cs, j, i) + nl(kids[c], i) >= fresh(next0, kids, c, cs, j, i));
                self.lemma_nl_nfl(kids[c], i);
                lemma_nfl_cov_push(next0, x, 0, i);
                if c == 0 {
                    // the first child continues its parent's chain: exactly its non-first leaves are fresh
                    if kids.len() == 1 { assert(nl_seq(kids, 1, 1, i) == 0); }
                    assert(fresh(next0, kids, 1, cs, j, i) + nfl(kids[0], i) == fresh(next0, kids, 0, cs, j, i));
                }
            }
        }
    }

    // ---- the heap ----
    proof fn lemma_heap_facts(&self, p: &T, k: usize, hp: HeapSelection<F>, added: Seq<int>)
        requires
            self.heap_core(p, k, hp, added),
            self.data@.len() <= usize::MAX / 2,
        ensures
            hp.wf(), hp.k == k, hp.heap@.len() > 0, hp.n < usize::MAX,
            is_max_of(hp.heap@, hmax(hp.heap@)),
    {
        reveal(CoverTree::heap_core);
        lemma_distinct_list_count(added, |j: int| true, self.nn());
        lemma_has_max(hp.heap@);
    }
    // the two adds before the descent: the sentinel and the root's distance
    proof fn lemma_heap_init(&self, p: &T, k: usize)
        requires
            self.tree_wf(),
            1 <= k <= self.data@.len() <= usize::MAX / 2,
        ensures
            forall|h0: HeapSelection<F>, h1: HeapSelection<F>, h2: HeapSelection<F>, d0: F|
                h0.wf() && h0.k == k && h0.n == 0 && h0.heap@ == Seq::<F>::empty() && d0 == self.dist_to(p, self.root.idx as int)
                && #[trigger] HeapSelection::add_post(h0, F::max_value_spec(), h1)
                && #[trigger] HeapSelection::add_post(h1, d0, h2)
                ==> self.heap_core(p, k, h2, Seq::<int>::empty().push(self.root.idx as int)) && h2.wf() && h2.heap@.len() > 0,
    {
        reveal(CoverTree::heap_core);
        let m = F::max_value_spec();
        let added = Seq::<int>::empty().push(self.root.idx as int);
        assert forall|h0: HeapSelection<F>, h1: HeapSelection<F>, h2: HeapSelection<F>, d0: F|
                h0.wf() && h0.k == k && h0.n == 0 && h0.heap@ == Seq::<F>::empty() && d0 == self.dist_to(p, self.root.idx as int)
                && #[trigger] HeapSelection::add_post(h0, m, h1) && #[trigger] HeapSelection::add_post(h1, d0, h2)
                implies self.heap_core(p, k, h2, added) && h2.wf() && h2.heap@.len() > 0 by {
            h0.heap@.to_multiset_ensures();
            h1.heap@.to_multiset_ensures();
            h2.heap@.to_multiset_ensures();
            let ds = self.dists(p, added);
            assert(ds =~= Seq::<F>::empty().push(d0));
            Seq::<F>::empty().to_multiset_ensures();
            ds.to_multiset_ensures();
            let e = Multiset::<F>::empty();
            assert(h0.heap@.to_multiset() =~= e);
            assert(ds.to_multiset() =~= e.insert(d0));
            let tgt = ds.to_multiset().insert(m);
            assert(h1.heap@.to_multiset() =~= e.insert(m));
            assert(h1.heap@.to_multiset().count(m) > 0);
            assert(h1.heap@.contains(m));
            axiom_real::<F>();
            if 1 < k {
                assert(h2.heap@.to_multiset() =~= e.insert(m).insert(d0));
                assert(h2.heap@.to_multiset() =~= tgt);
            } else {
                assert(h1.heap@.len() == 1);
                assert(h1.heap@[0] == m) by { assert(h1.heap@.contains(h1.heap@[0])); }
                assert(h2.heap@.len() == 1);
                if lt(d0, h1.heap@[0]) {
                    assert(h2.heap@.to_multiset() =~= e.insert(d0));
                    assert(h2.heap@[0] == d0) by { assert(h2.heap@.contains(h2.heap@[0])); assert(h2.heap@.to_multiset().count(h2.heap@[0]) > 0); assert(e.insert(d0).count(h2.heap@[0]) > 0); }
                } else {
                    assert(h2.heap@ == h1.heap@);
                }
                assert(h2.heap@.to_multiset().subset_of(tgt));
                // the one left out (the sentinel, or the root's distance) is not smaller than the one kept
                assert forall|v: F| tgt.count(v) > #[trigger] h2.heap@.to_multiset().count(v)
                    implies forall|t: int| 0 <= t < h2.heap@.len() ==> le(#[trigger] h2.heap@[t], v) by {
                    assert(v == m || v == d0);
                }
            }
        }
    }
    // one more add: a data point not offered before, strictly below the current bound u0
    proof fn lemma_heap_step(&self, p: &T, k: usize, hp0: HeapSelection<F>, hp1: HeapSelection<F>, added: Seq<int>, xi: int, e: F, u0: F)
        requires
            self.heap_core(p, k, hp0, added),
            HeapSelection::add_post(hp0, e, hp1),
            0 <= xi < self.data@.len(),
            forall|t: int| 0 <= t < added.len() ==> #[trigger] added[t] != xi,
            e == self.dist_to(p, xi),
            is_max_of(hp0.heap@, u0),
            lt(e, u0),
        ensures
            self.heap_core(p, k, hp1, added.push(xi)),
            val(hmax(hp1.heap@)) <= val(u0), //# heap-bound-never-grows
    {
        reveal(CoverTree::heap_core);
        axiom_real::<F>();
        lemma_all_total::<F>();
        let m = F::max_value_spec();
        let hs0 = hp0.heap@;
        let hs1 = hp1.heap@;
        hs0.to_multiset_ensures();
        hs1.to_multiset_ensures();
        let ds = self.dists(p, added);
        let added1 = added.push(xi);
        let ds1 = self.dists(p, added1);
        assert(ds1 =~= ds.push(e));
        ds.to_multiset_ensures();
        assert(ds1.to_multiset() =~= ds.to_multiset().insert(e));
        if hp0.n >= hp0.k {
            // the root of a full heap is a maximum: the code's `element < heap[0]` succeeds
            let a = choose|a: int| 0 <= a < hs0.len() && hs0[a] == u0;
            lemma_heap_root_max(hs0, a);
            assert(lt(e, hs0[0]));
            assert(hs0.contains(hs0[0]));
        }
        // every value of the new heap is the new one or an old one
        assert forall|v: F| hs1.contains(v) implies v == e || hs0.contains(v) by {
            assert(hs1.to_multiset().count(v) > 0);
        }
        assert(hs1.to_multiset().subset_of(ds1.to_multiset().insert(m))) by {
            assert forall|v: F| #[trigger] hs1.to_multiset().count(v) <= ds1.to_multiset().insert(m).count(v) by {
                assert(hs0.to_multiset().count(v) <= ds.to_multiset().insert(m).count(v));
            }
        }
        let x0 = ds.to_multiset().insert(m);
        let x1 = ds1.to_multiset().insert(m);
        if hp0.n < hp0.k {
            assert(hs1.to_multiset() =~= x1);
        } else {
            // the evicted root joins the left-out values; everything kept is at most the old root
            let root = hs0[0];
            assert forall|t: int| 0 <= t < hs1.len() implies le(#[trigger] hs1[t], root) by {
                assert(hs1.contains(hs1[t]));
                if hs1[t] != e {
                    let b = choose|b: int| 0 <= b < hs0.len() && hs0[b] == hs1[t];
                    lemma_heap_root_max(hs0, b);
                }
            }
            assert forall|v: F| x1.count(v) > #[trigger] hs1.to_multiset().count(v)
                implies forall|t: int| 0 <= t < hs1.len() ==> le(#[trigger] hs1[t], v) by {
                if v != root {
                    assert(x0.count(v) > hs0.to_multiset().count(v));
                    assert(le(hs0[0], v));
                }
                assert forall|t: int| 0 <= t < hs1.len() implies le(#[trigger] hs1[t], v) by { assert(le(hs1[t], root)); }
            }
        }
        lemma_has_max(hs1);
        let u1 = hmax(hs1);
        assert(hs1.contains(u1));
        if u1 != e {
            let b = choose|b: int| 0 <= b < hs0.len() && hs0[b] == u1;
            assert(le(hs0[b], u0));
        }
    }
    // at any time at least k data points lie within a maximum of the heap
    proof fn lemma_enough(&self, p: &T, k: usize, hp: HeapSelection<F>, added: Seq<int>, u: F)
        requires
            self.heap_core(p, k, hp, added),
            is_max_of(hp.heap@, u),
            self.dist_bounded(p),
            1 <= k <= self.data@.len(),
        ensures
            count_range(self.good(p, u), self.nn()) >= k, //# at-least-k-points-within-the-heap-bound
    {
        reveal(CoverTree::heap_core);
        axiom_real::<F>();
        let m = F::max_value_spec();
        let n = self.nn();
        let g = self.good(p, u);
        if le(m, u) {
            assert forall|j: int| 0 <= j < n implies #[trigger] g(j) by {
                assert(le(self.dist_to(p, j), m));
            }
            lemma_count_range_all(g, n);
        } else {
            let hs = hp.heap@;
            hs.to_multiset_ensures();
            // the sentinel is not in the heap: the heap is full and made of offered distances only
            if hs.contains(m) {
                let a = choose|a: int| 0 <= a < hs.len() && hs[a] == m;
                assert(le(hs[a], u));
            }
            if hp.n < k { assert(hs.to_multiset().count(m) > 0); }
            assert(hs.len() == k);
            let ds = self.dists(p, added);
            assert(hs.to_multiset().subset_of(ds.to_multiset())) by {
                assert forall|v: F| hs.to_multiset().count(v) <= ds.to_multiset().count(v) by {
                    assert(hs.to_multiset().count(v) <= ds.to_multiset().insert(m).count(v));
                    if v == m { assert(hs.to_multiset().count(m) == 0); }
                }
            }
            assert forall|v: F| #[trigger] hs.to_multiset().count(v) > 0 implies le(v, u) by {
                assert(hs.contains(v));
                let a = choose|a: int| 0 <= a < hs.len() && hs[a] == v;
                assert(le(hs[a], u));
            }
            lemma_sub_multiset_count(ds, hs.to_multiset(), u);
            self.lemma_cnt_dists(p, added, u);
            lemma_distinct_list_count(added, g, n);
        }
    }
    proof fn lemma_cnt_dists(&self, p: &T, added: Seq<int>, u: F)
        ensures cnt_le(self.dists(p, added), u) == count_list(added, self.good(p, u), added.len() as int),
        decreases added.len()
    {
        let g = self.good(p, u);
        if added.len() > 0 {
            let a0 = added.drop_last();
            self.lemma_cnt_dists(p, a0, u);
            assert(self.dists(p, added).drop_last() =~= self.dists(p, a0));
            lemma_count_list_prefix_eq(added, a0, g, a0.len() as int);
            assert(g(added[added.len() - 1]) == le(self.dists(p, added).last(), u));
        }
    }

    proof fn lemma_cnt_dists_lt(&self, p: &T, added: Seq<int>, u: F)
        ensures cnt_lt(self.dists(p, added), u) == count_list(added, self.near(p, u), added.len() as int),
        decreases added.len()
    {
        let g = self.near(p, u);
        if added.len() > 0 {
            let a0 = added.drop_last();
            self.lemma_cnt_dists_lt(p, a0, u);
            assert(self.dists(p, added).drop_last() =~= self.dists(p, a0));
            lemma_count_list_prefix_eq(added, a0, g, a0.len() as int);
            assert(g(added[added.len() - 1]) == lt(self.dists(p, added).last(), u));
        }
    }
    // at the end of the descent fewer than k data points lie strictly inside a maximum of the heap: the bound is tight
    proof fn lemma_tight(&self, p: &T, k: usize, hp: HeapSelection<F>, added: Seq<int>, u: F)
        requires
            self.heap_core(p, k, hp, added),
            is_max_of(hp.heap@, u),
            self.near_ok(p, u, added, Seq::empty(), Seq::empty(), 0, Seq::empty(), 0),
            1 <= k <= self.data@.len(),
        ensures
            count_range(self.near(p, u), self.nn()) < k, //# fewer-than-k-points-strictly-inside-the-final-bound
    {
        reveal(CoverTree::heap_core);
        axiom_real::<F>();
        let m = F::max_value_spec();
        let n = self.nn();
        let g = self.near(p, u);
        let e = Seq::<(F, &Node<F>)>::empty();
        let ek = Seq::<Node<F>>::empty();
        let ds = self.dists(p, added);
        // every point strictly inside has been offered
        assert forall|j: int| 0 <= j < n && #[trigger] g(j) implies added.contains(j) by {
            assert(fresh_kids(ek, 0, j) == 0);
            assert(nfl_cov(e, 0, 0, j) == 0);
            assert(fresh(e, ek, 0, e, 0, j) == 0);
        }
        lemma_covering_list_count(added, g, n);
        self.lemma_cnt_dists_lt(p, added, u);
        if hp.n < k {
            lemma_count_list_bounds(added, g, added.len() as int);
        } else {
            let hs = hp.heap@;
            hs.to_multiset_ensures();
            ds.to_multiset_ensures();
            let hm = hs.to_multiset();
            assert(hs.contains(u));
            assert(hm.count(u) > 0);
            let h1 = hm.remove(u);
            assert forall|v: F| lt(v, u) implies #[trigger] ds.to_multiset().count(v) <= h1.count(v) by {
                if ds.to_multiset().insert(m).count(v) > hm.count(v) {
                    let a = choose|a: int| 0 <= a < hs.len() && hs[a] == u;
                    assert(le(hs[a], v));
                }
            }
            lemma_dominated_count(ds, h1, u);
            assert(hm.len() == hs.len());
        }
    }

    // ---- the candidates ----
    // at the end of the descent the zero set lists every data point within the bound exactly once
    proof fn lemma_candidates(&self, p: &T, u: F, zs: Seq<(F, &Node<F>)>)
        requires
            self.leaves_ok(p, zs),
            self.counts_ok(p, u, zs, Seq::empty(), Seq::empty(), 0, Seq::empty(), 0),
        ensures
            forall|a: int, b: int| 0 <= a < b < zs.len() ==> (#[trigger] zs[a]).1.idx != (#[trigger] zs[b]).1.idx,
            forall|i: int| 0 <= i < self.data@.len() && #[trigger] self.within(p, u, i) ==> exists|a: int| 0 <= a < zs.len() && (#[trigger] zs[a]).1.idx == i, //# every-point-within-the-final-bound-is-a-candidate
            count_list(keys(zs), self.good(p, u), zs.len() as int) == count_range(self.good(p, u), self.nn()),
    {
        let e = Seq::<(F, &Node<F>)>::empty();
        let ek = Seq::<Node<F>>::empty();
        let ks = keys(zs);
        let g = self.good(p, u);
        assert forall|a: int, b: int| 0 <= a < b < zs.len() implies (#[trigger] zs[a]).1.idx != (#[trigger] zs[b]).1.idx by {
            if zs[a].1.idx == zs[b].1.idx {
                let i = zs[a].1.idx as int;
                lemma_nl_cov_leaves_two(zs, 0, a, b, i);
                assert(Self::total(zs, e, ek, 0, e, 0, i) >= 2);
            }
        }
        assert forall|i: int| 0 <= i < self.data@.len() && #[trigger] self.within(p, u, i) implies
                exists|a: int| 0 <= a < zs.len() && (#[trigger] zs[a]).1.idx == i by {
            assert(Self::total(zs, e, ek, 0, e, 0, i) == 1);
            let a = lemma_nl_cov_leaves_find(zs, 0, i);
            assert(zs[a].1.idx == i);
        }
        assert forall|j: int| 0 <= j < self.nn() && #[trigger] g(j) implies ks.contains(j) by {
            assert(self.within(p, u, j));
            let a = choose|a: int| 0 <= a < zs.len() && (#[trigger] zs[a]).1.idx == j;
            assert(ks[a] == j);
        }
        assert forall|a: int| 0 <= a < ks.len() implies 0 <= #[trigger] ks[a] < self.nn() by { let z = zs[a]; }
        assert forall|a: int, b: int| 0 <= a < b < ks.len() implies ks[a] != ks[b] by { assert(zs[a].1.idx != zs[b].1.idx); }
        lemma_covering_list_count(ks, g, self.nn());
    }
    // the candidates (cand, in zero-set order src), permuted (nb) and cut to k
    proof fn lemma_result(&self, p: &T, k: usize, u: F, zs: Seq<(F, &Node<F>)>, src: Seq<int>, cand: Seq<(usize, F, &T)>, nb: Seq<(usize, F, &T)>)
        requires
            self.leaves_ok(p, zs),
            self.counts_ok(p, u, zs, Seq::empty(), Seq::empty(), 0, Seq::empty(), 0),
            src.len() == cand.len(),
            forall|a: int| 0 <= a < src.len() ==> 0 <= #[trigger] src[a] < zs.len(),
            forall|a: int, b: int| 0 <= a < b < src.len() ==> src[a] < src[b],
            forall|a: int| 0 <= a < cand.len() ==> (#[trigger] cand[a]).0 == zs[src[a]].1.idx && cand[a].1 == zs[src[a]].0
                && *cand[a].2 == self.data@[zs[src[a]].1.idx as int] && le(cand[a].1, u),
            cand.len() == count_list(keys(zs), self.good(p, u), zs.len() as int),
            count_range(self.good(p, u), self.nn()) >= k,
            count_range(self.near(p, u), self.nn()) < k,
            nb.to_multiset() == cand.to_multiset(),
            nb.len() == cand.len(),
            cand.len() <= k ==> nb == cand,
        ensures
            nb.len() >= k, //# at-least-k-candidates
            forall|w: Seq<(usize, F, &T)>| #![trigger self.knn_shape(p, k, w)] #![trigger self.knn_bound(p, k, w)]
                w.len() == k && (forall|a: int| 0 <= a < k ==> w[a] == nb[a]) ==> self.knn_shape(p, k, w) && self.knn_bound(p, k, w),
    {
        axiom_real::<F>();
        self.lemma_candidates(p, u, zs);
        let n = self.nn();
        let g = self.good(p, u);
        assert(self.entries_ok(p, cand)) by {
            assert forall|a: int| 0 <= a < cand.len() implies ({
                &&& 0 <= (#[trigger] cand[a]).0 < self.data@.len()
                &&& cand[a].1 == self.dist_to(p, cand[a].0 as int)
                &&& *cand[a].2 == self.data@[cand[a].0 as int]
            }) by { let z = zs[src[a]]; }
            assert forall|a: int, b: int| 0 <= a < b < cand.len() implies (#[trigger] cand[a]).0 != (#[trigger] cand[b]).0 by {
                assert(src[a] < src[b]);
                assert(zs[src[a]].1.idx != zs[src[b]].1.idx);
            }
        }
        cand.to_multiset_ensures();
        nb.to_multiset_ensures();
        assert(cand.no_duplicates());
        cand.lemma_multiset_has_no_duplicates();
        nb.lemma_multiset_has_no_duplicates_conv();
        // every entry of the permutation is a candidate
        assert forall|a: int| 0 <= a < nb.len() implies cand.contains(#[trigger] nb[a]) by {
            assert(nb.contains(nb[a]));
            assert(nb.to_multiset().count(nb[a]) > 0);
        }
        assert(self.entries_ok(p, nb)) by {
            assert forall|a: int| 0 <= a < nb.len() implies ({
                &&& 0 <= (#[trigger] nb[a]).0 < self.data@.len()
                &&& nb[a].1 == self.dist_to(p, nb[a].0 as int)
                &&& *nb[a].2 == self.data@[nb[a].0 as int]
            }) by {
                let a1 = choose|a1: int| 0 <= a1 < cand.len() && cand[a1] == nb[a];
                assert(0 <= cand[a1].0 < self.data@.len());
            }
            assert forall|a: int, b: int| 0 <= a < b < nb.len() implies (#[trigger] nb[a]).0 != (#[trigger] nb[b]).0 by {
                let a1 = choose|a1: int| 0 <= a1 < cand.len() && cand[a1] == nb[a];
                let b1 = choose|b1: int| 0 <= b1 < cand.len() && cand[b1] == nb[b];
                assert(nb[a] != nb[b]);
                if a1 < b1 { assert(cand[a1].0 != cand[b1].0); } else { assert(cand[b1].0 != cand[a1].0); }
            }
        }
        assert forall|w: Seq<(usize, F, &T)>| #![trigger self.knn_shape(p, k, w)] #![trigger self.knn_bound(p, k, w)]
                w.len() == k && (forall|a: int| 0 <= a < k ==> w[a] == nb[a]) implies self.knn_shape(p, k, w) && self.knn_bound(p, k, w) by {
            assert(self.entries_ok(p, w)) by {
                assert forall|a: int| 0 <= a < w.len() implies ({
                    &&& 0 <= (#[trigger] w[a]).0 < self.data@.len()
                    &&& w[a].1 == self.dist_to(p, w[a].0 as int)
                    &&& *w[a].2 == self.data@[w[a].0 as int]
                }) by { assert(w[a] == nb[a]); assert(0 <= nb[a].0 < self.data@.len()); }
                assert forall|a: int, b: int| 0 <= a < b < w.len() implies (#[trigger] w[a]).0 != (#[trigger] w[b]).0 by {
                    assert(w[a] == nb[a] && w[b] == nb[b]);
                    assert(nb[a].0 != nb[b].0);
                }
            }
            assert forall|a: int| 0 <= a < w.len() implies #[trigger] self.within(p, u, w[a].0 as int) by {
                assert(w[a] == nb[a]);
                let a1 = choose|a1: int| 0 <= a1 < cand.len() && cand[a1] == nb[a];
                assert(le(cand[a1].1, u));
                assert(cand[a1].1 == self.dist_to(p, cand[a1].0 as int));
            }
            if count_range(g, n) == k {
                // exactly k candidates: no sort, the answer is the candidate list, and whoever is not in it lies beyond the bound
                assert(w =~= cand);
                assert forall|j: int, a: int| 0 <= j < self.data@.len() && 0 <= a < w.len() && (forall|b: int| 0 <= b < w.len() ==> (#[trigger] w[b]).0 != j)
                    implies val((#[trigger] w[a]).1) <= val(#[trigger] self.dist_to(p, j)) by {
                    if self.within(p, u, j) {
                        let z = choose|z: int| 0 <= z < zs.len() && (#[trigger] zs[z]).1.idx == j;
                        assert(keys(zs)[z] == j);
                        self.lemma_listed(p, u, zs, src, cand, z);
                    }
                    assert(self.within(p, u, w[a].0 as int));
                }
                assert(self.k_nearest(p, w));
            }
            assert(self.knn_bound(p, k, w));
        }
    }
    // a zero-set position within the bound is the source of some candidate (cand has as many entries as there are such positions)
    proof fn lemma_listed(&self, p: &T, u: F, zs: Seq<(F, &Node<F>)>, src: Seq<int>, cand: Seq<(usize, F, &T)>, z: int)
        requires
            self.leaves_ok(p, zs),
            src.len() == cand.len(),
            forall|a: int| 0 <= a < src.len() ==> 0 <= #[trigger] src[a] < zs.len(),
            forall|a: int, b: int| 0 <= a < b < src.len() ==> src[a] < src[b],
            forall|a: int| 0 <= a < cand.len() ==> (#[trigger] cand[a]).0 == zs[src[a]].1.idx && cand[a].1 == zs[src[a]].0 && le(cand[a].1, u),
            cand.len() == count_list(keys(zs), self.good(p, u), zs.len() as int),
            0 <= z < zs.len(),
            self.within(p, u, zs[z].1.idx as int),
        ensures
            exists|a: int| 0 <= a < cand.len() && (#[trigger] cand[a]).0 == zs[z].1.idx,
    {
        // src lists positions with g(key) only, in increasing order; if z were missing, src would have fewer entries than there are such positions
        let ks = keys(zs);
        let g = self.good(p, u);
        if !(exists|a: int| 0 <= a < src.len() && src[a] == z) {
            assert forall|a: int| 0 <= a < src.len() implies g(ks[#[trigger] src[a]]) && src[a] != z by {
                let zz = zs[src[a]];
                assert(cand[a].1 == self.dist_to(p, zz.1.idx as int));
            }
            lemma_increasing_positions(ks, g, src, z, zs.len() as int);
            assert(false);
        }
        let a = choose|a: int| 0 <= a < src.len() && src[a] == z;
        assert(cand[a].0 == zs[z].1.idx);
    }

//@extract src/algorithm/neighbour/cover_tree.rs :: impl<T: Debug + PartialEq, F: RealNumber, D: Distance<T, F>> CoverTree<T, F, D> :: get_data_value :: ret=r
//@spec
        requires idx < self.data@.len(),
        ensures *r == self.data@[idx as int], //# get-data-value-returns-the-point
//@end

#[verifier::loop_isolation(false)]
//@extract src/algorithm/neighbour/cover_tree.rs :: impl<T: Debug + PartialEq, F: RealNumber, D: Distance<T, F>> CoverTree<T, F, D> :: find :: ret=r
//@spec
        requires
            self.tree_wf(),
            self.metric_on(p),
            self.dist_bounded(p),
            forall|i: int| 0 <= i < self.data@.len() ==> #[trigger] self.distance.dist_req(&self.data@[i], p),
            self.data@.len() <= usize::MAX / 2,
        ensures
            r is Err <==> (k == 0 || k > self.data@.len()), //# knn-error-iff-k-zero-or-k-above-n
            r is Ok ==> self.knn_shape(p, k, r->Ok_0@), //# knn-k-entries-true-index-distance-point-distinct
            r is Ok ==> self.knn_bound(p, k, r->Ok_0@), //# knn-within-bound-met-by-k-points-and-k-nearest-if-exactly-k
//@enter
        proof { F::ops_total(); axiom_real::<F>(); lemma_all_total::<F>(); }
        let ghost mut h: int = height(self.root) as int;
        let ghost mut gk: Seq<Node<F>> = Seq::empty();   // children of the entry expanded last (all consumed between expansions)
        let ghost mut gadd: Seq<int> = Seq::empty().push(self.root.idx as int);   // the data points offered to the heap so far
        let ghost mut src: Seq<int> = Seq::empty();      // zero-set positions of the candidates
        let ghost mut cand: Seq<(usize, F, &T)> = Seq::empty();   // the candidates before sort / truncation
        proof {
            if 1 <= k && k <= self.data@.len() { self.lemma_heap_init(p, k); }
            // the descent starts from the cover set [(d0, root)]: every point is in play exactly once, whatever the bound
            assert forall|d0: F, u: F| #[trigger] self.counts_ok(p, u, Seq::empty(), Seq::empty(), Seq::empty(), 0,
                    Seq::<(F, &Node<F>)>::empty().push((d0, &self.root)), 0) by {
                let e = Seq::<(F, &Node<F>)>::empty();
                let ek = Seq::<Node<F>>::empty();
                let cs = e.push((d0, &self.root));
                assert(cs.len() == 1 && cs[0] == (d0, &self.root));
                assert forall|i: int| 0 <= i < self.data@.len() implies ({
                    let t = #[trigger] Self::total(e, e, ek, 0, cs, 0, i);
                    t <= 1 && (self.within(p, u, i) ==> t == 1)
                }) by {
                    assert(nl_cov(cs, 1, 1, i) == 0);
                    assert(nl_cov(cs, 0, 1, i) == nl(self.root, i));
                }
            }
            // ... every other point still has its leaf to come
            assert forall|d0: F, u: F| #[trigger] self.near_ok(p, u, gadd, Seq::empty(), Seq::empty(), 0,
                    Seq::<(F, &Node<F>)>::empty().push((d0, &self.root)), 0) by {
                let e = Seq::<(F, &Node<F>)>::empty();
                let ek = Seq::<Node<F>>::empty();
                let cs = e.push((d0, &self.root));
                assert(cs.len() == 1 && cs[0] == (d0, &self.root));
                assert(gadd.len() == 1 && gadd[0] == self.root.idx as int);
                assert forall|i: int| 0 <= i < self.data@.len() && lt(self.dist_to(p, i), u) implies gadd.contains(i) || #[trigger] fresh(e, ek, 0, cs, 0, i) >= 1 by {
                    self.lemma_nl_nfl(self.root, i);
                    assert(nl(self.root, i) == 1);
                    assert(nfl_cov(cs, 1, 1, i) == 0);
                    assert(nfl_cov(cs, 0, 1, i) == nfl(self.root, i));
                    assert(fresh_kids(ek, 0, i) == 0);
                    assert(nfl_cov(e, 0, 0, i) == 0);
                    if i == self.root.idx { assert(gadd[0] == i); }
                }
            }
            // ... and only the root's point has been offered
            assert forall|d0: F| fresh_ok(gadd, Seq::empty(), Seq::empty(), 0, #[trigger] Seq::<(F, &Node<F>)>::empty().push((d0, &self.root)), 0) by {
                let e = Seq::<(F, &Node<F>)>::empty();
                let ek = Seq::<Node<F>>::empty();
                let cs = e.push((d0, &self.root));
                let i = self.root.idx as int;
                assert(cs.len() == 1 && cs[0] == (d0, &self.root));
                self.lemma_nl_nfl(self.root, i);
                assert(nl(self.root, i) == 1);
                assert(nfl_cov(cs, 1, 1, i) == 0);
                assert(nfl_cov(cs, 0, 1, i) == nfl(self.root, i));
                assert(fresh_kids(ek, 0, i) == 0);
                assert(nfl_cov(e, 0, 0, i) == 0);
                assert(gadd.len() == 1 && gadd[0] == i);
            }
        }
//@loop 1
            invariant
                1 <= k <= self.data@.len(),
                !empty_heap,
                self.cover_ok(p, current_cover_set@, h),
                self.leaves_ok(p, zero_set@),
                self.heap_core(p, k, heap, gadd),
                heap.wf() && heap.heap@.len() > 0,
                self.counts_ok(p, hmax(heap.heap@), zero_set@, Seq::empty(), Seq::empty(), 0, current_cover_set@, 0), //# inv-every-point-within-the-bound-in-play-exactly-once
                fresh_ok(gadd, Seq::empty(), Seq::empty(), 0, current_cover_set@, 0),
                self.near_ok(p, hmax(heap.heap@), gadd, Seq::empty(), Seq::empty(), 0, current_cover_set@, 0), //# inv-every-strictly-closer-point-offered-or-still-to-come
            decreases h
//@loopbody 1
            let ghost cs = current_cover_set@;
            proof {
                assert(cs.len() > 0);
                let e0 = cs[0];
                assert(height(*e0.1) >= 1);
                gk = Seq::empty();
            }
//@loop 2
                invariant
                    VERUS_ghost_iter.seq() == cs,
                    h >= 1,
                    !empty_heap,
                    self.cover_ok(p, cs, h),
                    self.cover_ok(p, next_cover_set@, h - 1),
                    self.leaves_ok(p, zero_set@),
                    self.heap_core(p, k, heap, gadd),
                    heap.wf() && heap.heap@.len() > 0,
                    self.counts_ok(p, hmax(heap.heap@), zero_set@, next_cover_set@, gk, gk.len() as int, cs, VERUS_ghost_iter.index@), //# inv-level-step-no-point-lost-or-doubled
                    fresh_ok(gadd, next_cover_set@, gk, gk.len() as int, cs, VERUS_ghost_iter.index@),
                    self.near_ok(p, hmax(heap.heap@), gadd, next_cover_set@, gk, gk.len() as int, cs, VERUS_ghost_iter.index@),
//@loopbody 2
                let ghost j = VERUS_ghost_iter.index@;
                proof {
                    assert(0 <= j < cs.len() && par == cs[j]);
                    self.lemma_kids_done(p, hmax(heap.heap@), zero_set@, next_cover_set@, gk, cs, j);
                    self.lemma_expand(p, hmax(heap.heap@), zero_set@, next_cover_set@, cs, j);
                    lemma_fresh_kids_done(gadd, next_cover_set@, gk, cs, j);
                    lemma_fresh_expand(gadd, next_cover_set@, cs, j);
                    lemma_fresh_eq_kids_done(next_cover_set@, gk, cs, j);
                    self.lemma_near_same(p, hmax(heap.heap@), gadd, next_cover_set@, gk, gk.len() as int, cs, j, next_cover_set@, Seq::empty(), 0, cs, j);
                    lemma_fresh_eq_expand(next_cover_set@, cs, j);
                    self.lemma_near_same(p, hmax(heap.heap@), gadd, next_cover_set@, Seq::empty(), 0, cs, j, next_cover_set@, par.1.children@, 0, cs, j + 1);
                    gk = par.1.children@;
                }
//@loop 3
                    invariant
                        0 <= j < cs.len(), par == cs[j], parent == par.1, gk == parent.children@,
                        h >= 1,
                        !empty_heap,
                        self.cover_ok(p, cs, h),
                        self.cover_ok(p, next_cover_set@, h - 1), //# inv-queued-nodes-are-lower-inner-nodes-with-true-distance
                        self.leaves_ok(p, zero_set@), //# inv-collected-leaves-carry-true-distance
                        self.heap_core(p, k, heap, gadd), //# inv-heap-holds-sentinel-and-distances-of-different-points
                        heap.wf() && heap.heap@.len() > 0,
                        self.counts_ok(p, hmax(heap.heap@), zero_set@, next_cover_set@, gk, c as int, cs, j + 1), //# inv-child-step-no-point-within-the-bound-lost-or-doubled
                        fresh_ok(gadd, next_cover_set@, gk, c as int, cs, j + 1), //# inv-no-point-offered-twice
                        self.near_ok(p, hmax(heap.heap@), gadd, next_cover_set@, gk, c as int, cs, j + 1), //# inv-child-step-every-strictly-closer-point-offered-or-still-to-come
//@loopbody 3
                    let ghost zero0 = zero_set@;
                    let ghost next0 = next_cover_set@;
                    let ghost heap0 = heap;
                    let ghost gadd0 = gadd;
                    proof {
                        F::ops_total();
                        assert(self.node_wf(*parent));
                        assert(self.node_wf(gk[c as int]));
                        self.lemma_heap_facts(p, k, heap, gadd);
                    }
//@loopend 3
                    // step: whatever was done with child c (offered, queued, collected, dropped) keeps the bookkeeping; stated on the
                    // state (zero0, next0, heap0, gadd0) before the step, with the code's bound `upper_bound`
                    proof {
                        assert(*child == gk[c as int]);
                        assert(d == self.dist_to(p, child.idx as int));
                        lemma_child_height(*parent, c as int);
                        let x = (d, child);
                        let ub = upper_bound;
                        let ci = c as int;
                        assert(is_max_of(heap0.heap@, ub)); //# bound-used-for-pruning-is-the-current-heap-maximum
                        lemma_max_val(heap0.heap@, hmax(heap0.heap@), ub);
                        self.lemma_counts_mono(p, hmax(heap0.heap@), ub, zero0, next0, gk, ci, cs, j + 1);
                        lemma_fresh_child(gadd0, next0, gk, ci, cs, j + 1, x);
                        // (a) the radius bookkeeping at the bound read by the code
                        if le(d, ub.add_spec(child.max_dist)) {
                            if child.children@.len() > 0 {
                                self.lemma_child_kept(p, ub, zero0, next0, gk, ci, cs, j + 1, x);
                                assert(self.cover_ok(p, next0.push(x), h - 1));
                            } else if le(d, ub) {
                                self.lemma_child_kept(p, ub, zero0, next0, gk, ci, cs, j + 1, x);
                                assert(self.leaves_ok(p, zero0.push(x)));
                            } else {
                                // a leaf beyond the bound
                                assert forall|i: int| 0 <= i < self.data@.len() && #[trigger] nl(gk[ci], i) > 0 implies !self.within(p, ub, i) by {
                                    assert(i == child.idx);
                                }
                                self.lemma_child_dropped(p, ub, zero0, next0, gk, ci, cs, j + 1);
                            }
                        } else {
                            self.lemma_prune(p, ub, *child, d);
                            self.lemma_child_dropped(p, ub, zero0, next0, gk, ci, cs, j + 1);
                        }
                        // (b) the heap: a non-first child strictly below the bound is offered -- a point not offered before
                        if le(d, ub.add_spec(child.max_dist)) && c > 0 && lt(d, ub) && HeapSelection::add_post(heap0, d, heap) {
                            self.lemma_fresh_new(gadd0, next0, gk, ci, cs, j + 1);
                            self.lemma_heap_step(p, k, heap0, heap, gadd0, child.idx as int, d, ub);
                            self.lemma_fresh_offered(zero0, next0, gk, ci, cs, j + 1, x);
                            gadd = gadd0.push(child.idx as int);
                            assert forall|t: int| 0 <= t < gadd.len() implies fresh(next_cover_set@, gk, ci + 1, cs, j + 1, #[trigger] gadd[t]) == 0 by {
                                if t < gadd0.len() { assert(gadd[t] == gadd0[t]); assert(fresh(next_cover_set@, gk, ci + 1, cs, j + 1, gadd0[t]) == 0); }
                            }
                        }
                        // (c) the bound did not grow
                        if self.heap_core(p, k, heap, gadd) { self.lemma_heap_facts(p, k, heap, gadd); }
                        if self.counts_ok(p, ub, zero_set@, next_cover_set@, gk, ci + 1, cs, j + 1) && val(hmax(heap.heap@)) <= val(ub) {
                            self.lemma_counts_mono(p, ub, hmax(heap.heap@), zero_set@, next_cover_set@, gk, ci + 1, cs, j + 1);
                        }
                        // (d) strictly closer points: child c is kept (and then offered if it is a non-first child strictly inside the
                        // bound) or dropped with nothing within the bound below it
                        if val(hmax(heap.heap@)) <= val(ub) {
                            self.lemma_near_mono(p, hmax(heap0.heap@), ub, gadd0, next0, gk, ci, cs, j + 1);
                            assert forall|t: int| 0 <= t < gadd0.len() implies gadd.contains(#[trigger] gadd0[t]) by {
                                if gadd.len() != gadd0.len() { assert(gadd[t] == gadd0[t]); }
                            }
                            if gadd.len() != gadd0.len() { assert(gadd[gadd0.len() as int] == child.idx as int); }
                            let kept = le(d, ub.add_spec(child.max_dist)) && (child.children@.len() > 0 || le(d, ub));
                            if kept || (next_cover_set@ == next0 && forall|i: int| 0 <= i < self.data@.len() && #[trigger] nl(gk[ci], i) > 0 ==> !self.within(p, ub, i)) {
                                if (kept ==> (next_cover_set@ == next0.push(x) || (next_cover_set@ == next0 && child.children@.len() == 0))
                                        && (c >= 1 && lt(d, hmax(heap.heap@)) ==> gadd.contains(child.idx as int))) {
                                    self.lemma_near_child(p, ub, hmax(heap.heap@), gadd0, gadd, next0, next_cover_set@, gk, ci, cs, j + 1, x);
                                }
                            }
                        }
                    }
//@loopend 1
            // (current_cover_set is now the next level's cover set)
            proof {
                self.lemma_kids_done(p, hmax(heap.heap@), zero_set@, current_cover_set@, gk, cs, cs.len() as int);
                self.lemma_next_level(p, hmax(heap.heap@), zero_set@, current_cover_set@, cs);
                lemma_fresh_kids_done(gadd, current_cover_set@, gk, cs, cs.len() as int);
                lemma_fresh_next_level(gadd, current_cover_set@, cs);
                lemma_fresh_eq_kids_done(current_cover_set@, gk, cs, cs.len() as int);
                self.lemma_near_same(p, hmax(heap.heap@), gadd, current_cover_set@, gk, gk.len() as int, cs, cs.len() as int, current_cover_set@, Seq::empty(), 0, cs, cs.len() as int);
                lemma_fresh_eq_next_level(current_cover_set@, cs);
                self.lemma_near_same(p, hmax(heap.heap@), gadd, current_cover_set@, Seq::empty(), 0, cs, cs.len() as int, Seq::empty(), Seq::empty(), 0, current_cover_set@, 0);
                h = h - 1;
            }
//@loop 4
            invariant
                1 <= k <= self.data@.len(),
                current_cover_set@.len() == 0,
                VERUS_ghost_iter.seq() == zero_set@,
                self.leaves_ok(p, zero_set@),
                self.heap_core(p, k, heap, gadd),
                is_max_of(heap.heap@, upper_bound),
                self.counts_ok(p, hmax(heap.heap@), zero_set@, Seq::empty(), Seq::empty(), 0, current_cover_set@, 0),
                self.near_ok(p, hmax(heap.heap@), gadd, Seq::empty(), Seq::empty(), 0, current_cover_set@, 0),
                cand == neighbors@,
                src.len() == neighbors@.len(),
                forall|a: int| 0 <= a < src.len() ==> 0 <= #[trigger] src[a] < VERUS_ghost_iter.index@,
                forall|a: int, b: int| 0 <= a < b < src.len() ==> src[a] < src[b],
                forall|a: int| 0 <= a < neighbors@.len() ==> (#[trigger] neighbors@[a]).0 == zero_set@[src[a]].1.idx && neighbors@[a].1 == zero_set@[src[a]].0
                    && *neighbors@[a].2 == self.data@[zero_set@[src[a]].1.idx as int] && le(neighbors@[a].1, upper_bound), //# inv-candidate-is-index-distance-point-within-the-final-bound
                neighbors@.len() == count_list(keys(zero_set@), self.good(p, upper_bound), VERUS_ghost_iter.index@), //# inv-candidates-are-all-collected-leaves-within-the-final-bound
//@loopbody 4
            let ghost a4 = VERUS_ghost_iter.index@;
            let ghost nb0 = neighbors@;
            proof {
                assert(0 <= a4 < zero_set@.len() && ds == zero_set@[a4]);
                assert(keys(zero_set@)[a4] == ds.1.idx);
                assert(ds.0 == self.dist_to(p, ds.1.idx as int));
            }
//@loopend 4
            proof {
                if neighbors@.len() != nb0.len() { src = src.push(a4); }
                cand = neighbors@;
            }
//@tail
        proof {
            lemma_max_val(heap.heap@, hmax(heap.heap@), upper_bound);
            assert(current_cover_set@ =~= Seq::empty());
            self.lemma_counts_mono(p, hmax(heap.heap@), upper_bound, zero_set@, Seq::empty(), Seq::empty(), 0, Seq::empty(), 0);
            self.lemma_enough(p, k, heap, gadd, upper_bound);
            self.lemma_near_mono(p, hmax(heap.heap@), upper_bound, gadd, Seq::empty(), Seq::empty(), 0, Seq::empty(), 0);
            self.lemma_tight(p, k, heap, gadd, upper_bound);
            self.lemma_result(p, k, upper_bound, zero_set@, src, cand, neighbors@);
        }
//@end
}
} // mod unit
} // verus!
fn main() {}
