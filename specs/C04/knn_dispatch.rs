//@unit tier=quick
// The two-arm dispatcher KNNAlgorithm::{find, find_radius} forwards to the configured backend with unchanged arguments:
// whatever the backend's contract says about its answer (C04/linear_radius, cover_radius, cover_knn; bounded for
// LinearKNNSearch::find) therefore holds for the dispatcher's answer.  The backends are opaque stand-ins here.
//@include prelude/uses.rs
verus! {
//@include prelude/realnumber.rs
//@include prelude/order.rs
//@include prelude/distance.rs
//@include prelude/error.rs

// ASSUME[A-BACKEND-OPAQUE] stand-ins for the two search structures: their answers are uninterpreted functions of (structure, query, k / radius)
#[verifier::external_body]
#[verifier::reject_recursive_types(T)]
#[verifier::reject_recursive_types(F)]
#[verifier::reject_recursive_types(D)]
pub struct LinearKNNSearch<T, F: RealNumber, D: Distance<T, F>> { _p: core::marker::PhantomData<(T, F, D)> }
// ASSUME[A-BACKEND-OPAQUE]
#[verifier::external_body]
#[verifier::reject_recursive_types(T)]
#[verifier::reject_recursive_types(F)]
#[verifier::reject_recursive_types(D)]
pub struct CoverTree<T, F: RealNumber, D: Distance<T, F>> { _p: core::marker::PhantomData<(T, F, D)> }

impl<T, F: RealNumber, D: Distance<T, F>> LinearKNNSearch<T, F, D> {
    // ASSUME[A-BACKEND-OPAQUE]
    pub uninterp spec fn find_spec(&self, from: &T, k: usize) -> Result<Vec<(usize, F, &T)>, Failed>;
    // ASSUME[A-BACKEND-OPAQUE]
    pub uninterp spec fn find_radius_spec(&self, from: &T, radius: F) -> Result<Vec<(usize, F, &T)>, Failed>;
    // ASSUME[A-BACKEND-OPAQUE]
    #[verifier::external_body]
    pub fn find(&self, from: &T, k: usize) -> (r: Result<Vec<(usize, F, &T)>, Failed>) ensures r == self.find_spec(from, k) { unimplemented!() }
    // ASSUME[A-BACKEND-OPAQUE]
    #[verifier::external_body]
    pub fn find_radius(&self, from: &T, radius: F) -> (r: Result<Vec<(usize, F, &T)>, Failed>) ensures r == self.find_radius_spec(from, radius) { unimplemented!() }
}
impl<T, F: RealNumber, D: Distance<T, F>> CoverTree<T, F, D> {
    // ASSUME[A-BACKEND-OPAQUE]
    pub uninterp spec fn find_spec(&self, from: &T, k: usize) -> Result<Vec<(usize, F, &T)>, Failed>;
    // ASSUME[A-BACKEND-OPAQUE]
    pub uninterp spec fn find_radius_spec(&self, from: &T, radius: F) -> Result<Vec<(usize, F, &T)>, Failed>;
    // ASSUME[A-BACKEND-OPAQUE]
    #[verifier::external_body]
    pub fn find(&self, from: &T, k: usize) -> (r: Result<Vec<(usize, F, &T)>, Failed>) ensures r == self.find_spec(from, k) { unimplemented!() }
    // ASSUME[A-BACKEND-OPAQUE]
    #[verifier::external_body]
    pub fn find_radius(&self, from: &T, radius: F) -> (r: Result<Vec<(usize, F, &T)>, Failed>) ensures r == self.find_radius_spec(from, radius) { unimplemented!() }
}

#[verifier::reject_recursive_types(T)]
#[verifier::reject_recursive_types(D)]
//@struct src/algorithm/neighbour/mod.rs :: KNNAlgorithm

impl<T: RealNumber, D: Distance<Vec<T>, T>> KNNAlgorithm<T, D> {
//@extract src/algorithm/neighbour/mod.rs :: impl<T: RealNumber, D: Distance<Vec<T>, T>> KNNAlgorithm<T, D> :: find :: ret=r
//@spec
        ensures
            match *self {
                KNNAlgorithm::LinearSearch(l) => r == l.find_spec(from, k),
                KNNAlgorithm::CoverTree(c) => r == c.find_spec(from, k),
            }, //# dispatcher-find-forwards-to-the-configured-backend
//@end
//@extract src/algorithm/neighbour/mod.rs :: impl<T: RealNumber, D: Distance<Vec<T>, T>> KNNAlgorithm<T, D> :: find_radius :: ret=r
//@spec
        ensures
            match *self {
                KNNAlgorithm::LinearSearch(l) => r == l.find_radius_spec(from, radius),
                KNNAlgorithm::CoverTree(c) => r == c.find_radius_spec(from, radius),
            }, //# dispatcher-find_radius-forwards-to-the-configured-backend
//@end
}
} // verus!
fn main() {}
