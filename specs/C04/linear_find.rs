//@unit tier=quick
//@include prelude/uses.rs
use std::marker::PhantomData;
use std::fmt::Debug;
verus! {
//@include prelude/realnumber.rs
//@include prelude/order.rs
//@include prelude/distance.rs
//@include prelude/error.rs

//@struct src/algorithm/neighbour/linear_search.rs :: LinearKNNSearch
//@struct src/algorithm/neighbour/linear_search.rs :: KNNPoint
//@struct src/algorithm/sort/heap_select.rs :: HeapSelection

impl<T: PartialOrd + Debug> HeapSelection<T> {
    #[verifier::external_body]
    fn with_capacity(k: usize) -> HeapSelection<T> { unimplemented!() }
    #[verifier::external_body]
    fn add(&mut self, element: T) { unimplemented!() }
    #[verifier::external_body]
    fn heapify(&mut self) { unimplemented!() }
    #[verifier::external_body]
    fn peek_mut(&mut self) -> &mut T { unimplemented!() }
    #[verifier::external_body]
    fn get(self) -> Vec<T> { unimplemented!() }
}

impl<F: RealNumber> PartialOrd for KNNPoint<F> {
//@extract src/algorithm/neighbour/linear_search.rs :: impl<F: RealNumber> PartialOrd for KNNPoint<F> :: partial_cmp
//@end
}
impl<F: RealNumber> PartialEq for KNNPoint<F> {
//@extract src/algorithm/neighbour/linear_search.rs :: impl<F: RealNumber> PartialEq for KNNPoint<F> :: eq
//@end
}

impl<T, F: RealNumber, D: Distance<T, F>> LinearKNNSearch<T, F, D> {
//@extract src/algorithm/neighbour/linear_search.rs :: impl<T, F: RealNumber, D: Distance<T, F>> LinearKNNSearch<T, F, D> :: find :: ret=r
//@spec
        requires
            forall|i: int| 0 <= i < self.data@.len() ==> #[trigger] self.distance.dist_req(from, &self.data@[i]),
//@enter
        proof { F::ops_total(); }
//@end
}
} // verus!
fn main() {}
