//@unit tier=quick
// C04 (cover tree part): CoverTree::find_radius returns exactly the data points within the radius, provided the tree
// satisfies the structural invariant `tree_wf` below and the distance obeys the triangle inequality on the data
// points and the query (`metric_on`).  That CoverTree::new establishes `tree_wf` is NOT proved (assumption A-COVERTREE-NEW-WF).
//@include prelude/uses.rs
use std::fmt::Debug;
verus! {
//@include prelude/realnumber.rs
//@include prelude/order.rs
//@include prelude/distance.rs
//@include prelude/error.rs
//@include prelude/real.rs
//@include prelude/distance_defs.rs

//@struct src/algorithm/neighbour/cover_tree.rs :: CoverTree
//@struct src/algorithm/neighbour/cover_tree.rs :: Node

//@include C04/inc/cover_defs.rs

impl<T: Debug + PartialEq, F: RealNumber, D: Distance<T, F>> CoverTree<T, F, D> {
    // the distance the code evaluates for data point i (stored point first, query second), and
    // "point i lies within the radius" with the code's comparison
    spec fn dist_to(&self, p: &T, i: int) -> F { self.distance.dist_spec(&self.data@[i], p) }
    spec fn within(&self, p: &T, radius: F, i: int) -> bool { le(self.dist_to(p, i), radius) }
    spec fn dist_between(&self, i: int, j: int) -> F { self.distance.dist_spec(&self.data@[i], &self.data@[j]) }

    // ASSUME[A-METRIC-AXIOMS] premise of the contract (not a trusted construct): the triangle inequality, read over the
    // reals (A-REAL), for stored point i, stored point j and the query p, in the orientation the code evaluates distances.
    // Symmetry and non-negativity are not needed: dist(j,j) >= 0 follows from the instance (j, j, p).
    spec fn metric_on(&self, p: &T) -> bool {
        forall|i: int, j: int| 0 <= i < self.data@.len() && 0 <= j < self.data@.len() ==>
            val(self.dist_to(p, i)) <= val(#[trigger] self.dist_between(i, j)) + val(self.dist_to(p, j))
    }

    // ---- the tree invariant find_radius relies on ----
    spec fn node_wf(&self, nd: Node<F>) -> bool
        decreases nd
    {
        // (a) the node's point exists
        &&& nd.idx < self.data@.len()
        // (b) covering: max_dist bounds the distance from the node's point to every point reported below it
        &&& forall|i: int| 0 <= i < self.data@.len() && #[trigger] nl(nd, i) > 0 ==>
                val(self.dist_between(nd.idx as int, i)) <= val(nd.max_dist)
        // (c) nesting: the first child of an inner node carries the node's own point (the code reuses the parent's distance for it)
        &&& nd.children@.len() > 0 ==> nd.children@[0].idx == nd.idx
        // (d) recursively
        &&& forall|c: int| 0 <= c < nd.children@.len() ==> self.node_wf(#[trigger] nd.children@[c])
    }
    // ASSUME[A-COVERTREE-NEW-WF] that CoverTree::new establishes tree_wf is OPEN (construction uses ln/powf/drain; not verified).
    // find_radius is proved relative to it (a `requires`); `witness_two_point_tree` below shows it is satisfiable.
    spec fn tree_wf(&self) -> bool {
        &&& self.node_wf(self.root)
        // the root is an inner node (a root without children is never reported: only children are inspected)
        &&& self.root.children@.len() > 0
        // every data index sits on exactly one leaf
        &&& forall|i: int| 0 <= i < self.data@.len() ==> #[trigger] nl(self.root, i) == 1
        // the field is initialised to false by `new` and never written
        &&& !self.identical_excluded
    }

    // ---- the answer ----
    spec fn radius_answer(&self, p: &T, radius: F, v: Seq<(usize, F, &T)>) -> bool {
        &&& forall|a: int| 0 <= a < v.len() ==> {
                &&& 0 <= (#[trigger] v[a]).0 < self.data@.len()
                &&& self.within(p, radius, v[a].0 as int)       // sound: only points within the radius
                &&& v[a].1 == self.dist_to(p, v[a].0 as int)    // the true distance
                &&& *v[a].2 == self.data@[v[a].0 as int]        // the point itself
            }
        &&& forall|a: int, b: int| 0 <= a < b < v.len() ==> (#[trigger] v[a]).0 != (#[trigger] v[b]).0   // no duplicates
        &&& forall|i: int| 0 <= i < self.data@.len() && #[trigger] self.within(p, radius, i) ==>
                exists|a: int| 0 <= a < v.len() && (#[trigger] v[a]).0 == i   // complete
    }

    // ---- bookkeeping of the level-wise descent ----
    // how often index i is still "in play": reported already (zero), queued for the next level (next), below the
    // children kids[c..] of the node being expanded, or below the not yet expanded entries cs[j..] of this level
    spec fn total(zero: Seq<(F, &Node<F>)>, next: Seq<(F, &Node<F>)>, kids: Seq<Node<F>>, c: int, cs: Seq<(F, &Node<F>)>, j: int, i: int) -> nat {
        nl_cov(zero, 0, zero.len() as int, i) + nl_cov(next, 0, next.len() as int, i)
            + nl_seq(kids, c, kids.len() as int, i) + nl_cov(cs, j, cs.len() as int, i)
    }
    // never twice; exactly once if within the radius
    spec fn counts_ok(&self, p: &T, radius: F, zero: Seq<(F, &Node<F>)>, next: Seq<(F, &Node<F>)>, kids: Seq<Node<F>>, c: int,
                      cs: Seq<(F, &Node<F>)>, j: int) -> bool {
        forall|i: int| 0 <= i < self.data@.len() ==> {
            let t = #[trigger] Self::total(zero, next, kids, c, cs, j, i);
            t <= 1 && (self.within(p, radius, i) ==> t == 1)
        }
    }
    // entries of a cover set: well-formed inner nodes with their true distance, of height <= h
    spec fn cover_ok(&self, p: &T, cs: Seq<(F, &Node<F>)>, h: int) -> bool {
        forall|k: int| 0 <= k < cs.len() ==> {
            let e = #[trigger] cs[k];
            &&& self.node_wf(*e.1)
            &&& e.1.children@.len() > 0
            &&& e.0 == self.dist_to(p, e.1.idx as int)
            &&& height(*e.1) <= h
        }
    }
    // entries of the zero set: leaves within the radius with their true distance
    spec fn zero_ok(&self, p: &T, radius: F, zs: Seq<(F, &Node<F>)>) -> bool {
        forall|k: int| 0 <= k < zs.len() ==> {
            let e = #[trigger] zs[k];
            &&& e.1.idx < self.data@.len()
            &&& e.1.children@.len() == 0
            &&& e.0 == self.dist_to(p, e.1.idx as int)
            &&& self.within(p, radius, e.1.idx as int)
        }
    }

    // PRUNING SOUNDNESS: a subtree whose root is farther than radius + max_dist holds no point within the radius
    proof fn lemma_prune(&self, p: &T, radius: F, nd: Node<F>, d: F)
        requires
            self.node_wf(nd),
            self.metric_on(p),
            d == self.dist_to(p, nd.idx as int),
            !le(d, radius.add_spec(nd.max_dist)),
        ensures
            forall|i: int| 0 <= i < self.data@.len() && #[trigger] nl(nd, i) > 0 ==> !self.within(p, radius, i), //# pruning-sound
    {
        axiom_real::<F>();
        assert forall|i: int| 0 <= i < self.data@.len() && #[trigger] nl(nd, i) > 0 implies !self.within(p, radius, i) by {
            let m = self.dist_between(nd.idx as int, i);
            assert(val(m) <= val(nd.max_dist));
            assert(val(d) <= val(m) + val(self.dist_to(p, i)));
        }
    }
    // a leaf passes the pruning test whenever it is within the radius (so the test loses no leaf)
    proof fn lemma_leaf_passes(&self, p: &T, radius: F, nd: Node<F>, d: F)
        requires
            self.node_wf(nd),
            self.metric_on(p),
            nd.children@.len() == 0,
            d == self.dist_to(p, nd.idx as int),
            le(d, radius),
        ensures
            le(d, radius.add_spec(nd.max_dist)),
    {
        axiom_real::<F>();
        let l = nd.idx as int;
        assert(nl(nd, l) > 0);
        let m = self.dist_between(l, l);
        assert(val(m) <= val(nd.max_dist));
        assert(val(d) <= val(m) + val(d));
    }

    // ---- transitions of the bookkeeping ----
    proof fn lemma_expand(&self, p: &T, radius: F, zero: Seq<(F, &Node<F>)>, next: Seq<(F, &Node<F>)>, cs: Seq<(F, &Node<F>)>, j: int)
        requires
            self.counts_ok(p, radius, zero, next, Seq::empty(), 0, cs, j),
            0 <= j < cs.len(),
            cs[j].1.children@.len() > 0,
        ensures
            self.counts_ok(p, radius, zero, next, cs[j].1.children@, 0, cs, j + 1),
    {
        let kids = cs[j].1.children@;
        assert forall|i: int| 0 <= i < self.data@.len() implies ({
            let t = #[trigger] Self::total(zero, next, kids, 0, cs, j + 1, i);
            t <= 1 && (self.within(p, radius, i) ==> t == 1)
        }) by {
            assert(Self::total(zero, next, kids, 0, cs, j + 1, i) == Self::total(zero, next, Seq::empty(), 0, cs, j, i));
        }
    }
    proof fn lemma_child_kept(&self, p: &T, radius: F, zero: Seq<(F, &Node<F>)>, next: Seq<(F, &Node<F>)>, kids: Seq<Node<F>>, c: int,
                              cs: Seq<(F, &Node<F>)>, j: int, x: (F, &Node<F>))
        requires
            self.counts_ok(p, radius, zero, next, kids, c, cs, j),
            0 <= c < kids.len(),
            *x.1 == kids[c],
        ensures
            self.counts_ok(p, radius, zero, next.push(x), kids, c + 1, cs, j),
            self.counts_ok(p, radius, zero.push(x), next, kids, c + 1, cs, j),
    {
        assert forall|i: int| 0 <= i < self.data@.len() implies ({
            let t = #[trigger] Self::total(zero, next.push(x), kids, c + 1, cs, j, i);
            t <= 1 && (self.within(p, radius, i) ==> t == 1)
        }) by {
            lemma_nl_cov_push(next, x, 0, i);
            assert(Self::total(zero, next.push(x), kids, c + 1, cs, j, i) == Self::total(zero, next, kids, c, cs, j, i));
        }
        assert forall|i: int| 0 <= i < self.data@.len() implies ({
            let t = #[trigger] Self::total(zero.push(x), next, kids, c + 1, cs, j, i);
            t <= 1 && (self.within(p, radius, i) ==> t == 1)
        }) by {
            lemma_nl_cov_push(zero, x, 0, i);
            assert(Self::total(zero.push(x), next, kids, c + 1, cs, j, i) == Self::total(zero, next, kids, c, cs, j, i));
        }
    }
    proof fn lemma_child_dropped(&self, p: &T, radius: F, zero: Seq<(F, &Node<F>)>, next: Seq<(F, &Node<F>)>, kids: Seq<Node<F>>, c: int,
                                 cs: Seq<(F, &Node<F>)>, j: int)
        requires
            self.counts_ok(p, radius, zero, next, kids, c, cs, j),
            0 <= c < kids.len(),
            forall|i: int| 0 <= i < self.data@.len() && #[trigger] nl(kids[c], i) > 0 ==> !self.within(p, radius, i),
        ensures
            self.counts_ok(p, radius, zero, next, kids, c + 1, cs, j),
    {
        assert forall|i: int| 0 <= i < self.data@.len() implies ({
            let t = #[trigger] Self::total(zero, next, kids, c + 1, cs, j, i);
            t <= 1 && (self.within(p, radius, i) ==> t == 1)
        }) by {
            assert(Self::total(zero, next, kids, c + 1, cs, j, i) + nl(kids[c], i) == Self::total(zero, next, kids, c, cs, j, i));
        }
    }
    proof fn lemma_kids_done(&self, p: &T, radius: F, zero: Seq<(F, &Node<F>)>, next: Seq<(F, &Node<F>)>, kids: Seq<Node<F>>, cs: Seq<(F, &Node<F>)>, j: int)
        requires
            self.counts_ok(p, radius, zero, next, kids, kids.len() as int, cs, j),
        ensures
            self.counts_ok(p, radius, zero, next, Seq::empty(), 0, cs, j),
    {
        let ek = Seq::<Node<F>>::empty();
        assert forall|i: int| 0 <= i < self.data@.len() implies ({
            let t = #[trigger] Self::total(zero, next, ek, 0, cs, j, i);
            t <= 1 && (self.within(p, radius, i) ==> t == 1)
        }) by {
            assert(Self::total(zero, next, ek, 0, cs, j, i) == Self::total(zero, next, kids, kids.len() as int, cs, j, i));
        }
    }
    proof fn lemma_next_level(&self, p: &T, radius: F, zero: Seq<(F, &Node<F>)>, next: Seq<(F, &Node<F>)>, cs: Seq<(F, &Node<F>)>)
        requires
            self.counts_ok(p, radius, zero, next, Seq::empty(), 0, cs, cs.len() as int),
        ensures
            self.counts_ok(p, radius, zero, Seq::empty(), Seq::empty(), 0, next, 0),
    {
        let e = Seq::<(F, &Node<F>)>::empty();
        let ek = Seq::<Node<F>>::empty();
        assert forall|i: int| 0 <= i < self.data@.len() implies ({
            let t = #[trigger] Self::total(zero, e, ek, 0, next, 0, i);
            t <= 1 && (self.within(p, radius, i) ==> t == 1)
        }) by {
            assert(Self::total(zero, e, ek, 0, next, 0, i) == Self::total(zero, next, ek, 0, cs, cs.len() as int, i));
        }
    }
    // at the end of the descent the zero set is the answer
    proof fn lemma_answer(&self, p: &T, radius: F, zs: Seq<(F, &Node<F>)>, v: Seq<(usize, F, &T)>)
        requires
            self.zero_ok(p, radius, zs),
            self.counts_ok(p, radius, zs, Seq::empty(), Seq::empty(), 0, Seq::empty(), 0),
            v.len() == zs.len(),
            forall|a: int| 0 <= a < v.len() ==> (#[trigger] v[a]).0 == zs[a].1.idx && v[a].1 == zs[a].0 && *v[a].2 == self.data@[zs[a].1.idx as int],
        ensures
            self.radius_answer(p, radius, v),
    {
        let e = Seq::<(F, &Node<F>)>::empty();
        let ek = Seq::<Node<F>>::empty();
        assert forall|a: int, b: int| 0 <= a < b < v.len() implies (#[trigger] v[a]).0 != (#[trigger] v[b]).0 by {
            if v[a].0 == v[b].0 {
                let i = v[a].0 as int;
                assert(zs[a].1.idx == i && zs[b].1.idx == i);
                lemma_nl_cov_leaves_two(zs, 0, a, b, i);
                assert(Self::total(zs, e, ek, 0, e, 0, i) >= 2);
            }
        }
        assert forall|i: int| 0 <= i < self.data@.len() && #[trigger] self.within(p, radius, i) implies
                exists|a: int| 0 <= a < v.len() && (#[trigger] v[a]).0 == i by {
            assert(Self::total(zs, e, ek, 0, e, 0, i) == 1);
            let a = lemma_nl_cov_leaves_find(zs, 0, i);
            assert(v[a].0 == i);
        }
        assert forall|a: int| 0 <= a < v.len() implies ({
                &&& 0 <= (#[trigger] v[a]).0 < self.data@.len()
                &&& self.within(p, radius, v[a].0 as int)
                &&& v[a].1 == self.dist_to(p, v[a].0 as int)
                &&& *v[a].2 == self.data@[v[a].0 as int]
            }) by {
            let z = zs[a];
        }
    }

//@extract src/algorithm/neighbour/cover_tree.rs :: impl<T: Debug + PartialEq, F: RealNumber, D: Distance<T, F>> CoverTree<T, F, D> :: get_data_value :: ret=r
//@spec
        requires idx < self.data@.len(),
        ensures *r == self.data@[idx as int], //# get-data-value-returns-the-point
//@end

//@extract src/algorithm/neighbour/cover_tree.rs :: impl<T: Debug + PartialEq, F: RealNumber, D: Distance<T, F>> CoverTree<T, F, D> :: find_radius :: ret=r
//@spec
        requires
            self.tree_wf(),
            self.metric_on(p),
            forall|i: int| 0 <= i < self.data@.len() ==> #[trigger] self.distance.dist_req(&self.data@[i], p),
        ensures
            r is Err <==> le(radius, F::zero_spec()), //# radius-error-iff-radius-not-positive
            r is Ok ==> self.radius_answer(p, radius, r->Ok_0@), //# radius-answer-exact
//@enter
        proof { F::ops_total(); }
        let ghost mut h: int = height(self.root) as int;
        let ghost mut gk: Seq<Node<F>> = Seq::empty();   // children of the entry expanded last (all consumed between expansions)
        proof {
            // the descent starts from the cover set [(d0, root)], whatever the distance d0: every point is in play exactly once
            assert forall|d0: F| self.counts_ok(p, radius, Seq::empty(), Seq::empty(), Seq::empty(), 0,
                    #[trigger] Seq::<(F, &Node<F>)>::empty().push((d0, &self.root)), 0) by {
                let e = Seq::<(F, &Node<F>)>::empty();
                let ek = Seq::<Node<F>>::empty();
                let cs = e.push((d0, &self.root));
                assert(cs.len() == 1 && cs[0] == (d0, &self.root));
                assert forall|i: int| 0 <= i < self.data@.len() implies ({
                    let t = #[trigger] Self::total(e, e, ek, 0, cs, 0, i);
                    t <= 1 && (self.within(p, radius, i) ==> t == 1)
                }) by {
                    assert(nl_cov(cs, 1, 1, i) == 0);
                    assert(nl_cov(cs, 0, 1, i) == nl(self.root, i));
                }
            }
        }
//@loop 1
            invariant
                self.tree_wf(),
                self.metric_on(p),
                forall|i: int| 0 <= i < self.data@.len() ==> #[trigger] self.distance.dist_req(&self.data@[i], p),
                self.cover_ok(p, current_cover_set@, h),
                self.zero_ok(p, radius, zero_set@),
                self.counts_ok(p, radius, zero_set@, Seq::empty(), Seq::empty(), 0, current_cover_set@, 0), //# inv-each-point-in-play-at-most-once-and-once-if-within
                neighbors@.len() == 0,
            decreases h
//@loopbody 1
            let ghost cs = current_cover_set@;
            proof {
                assert(cs.len() > 0);
                let e0 = cs[0];
                assert(height(*e0.1) >= 1);
                gk = Seq::empty();
            }
//@loop 2
                invariant
                    self.tree_wf(),
                    self.metric_on(p),
                    forall|i: int| 0 <= i < self.data@.len() ==> #[trigger] self.distance.dist_req(&self.data@[i], p),
                    VERUS_ghost_iter.seq() == cs,
                    h >= 1,
                    self.cover_ok(p, cs, h),
                    self.cover_ok(p, next_cover_set@, h - 1),
                    self.zero_ok(p, radius, zero_set@),
                    self.counts_ok(p, radius, zero_set@, next_cover_set@, gk, gk.len() as int, cs, VERUS_ghost_iter.index@), //# inv-level-step-no-point-lost-or-doubled
                    neighbors@.len() == 0,
//@loopbody 2
                let ghost j = VERUS_ghost_iter.index@;
                proof {
                    assert(0 <= j < cs.len() && par == cs[j]);
                    self.lemma_kids_done(p, radius, zero_set@, next_cover_set@, gk, cs, j);
                    self.lemma_expand(p, radius, zero_set@, next_cover_set@, cs, j);
                    gk = par.1.children@;
                }
//@loop 3
                    invariant
                        self.tree_wf(),
                        self.metric_on(p),
                        forall|i: int| 0 <= i < self.data@.len() ==> #[trigger] self.distance.dist_req(&self.data@[i], p),
                        0 <= j < cs.len(), par == cs[j], parent == par.1, gk == parent.children@,
                        h >= 1,
                        self.cover_ok(p, cs, h),
                        self.cover_ok(p, next_cover_set@, h - 1), //# inv-queued-nodes-are-lower-inner-nodes-with-true-distance
                        self.zero_ok(p, radius, zero_set@), //# inv-collected-leaves-are-within-radius
                        self.counts_ok(p, radius, zero_set@, next_cover_set@, gk, c as int, cs, j + 1), //# inv-child-step-no-point-lost-or-doubled
                        neighbors@.len() == 0,
//@loopbody 3
                    proof {
                        F::ops_total();
                        assert(self.node_wf(*parent));
                        assert(self.node_wf(gk[c as int]));
                    }
                    let ghost zero0 = zero_set@;
                    let ghost next0 = next_cover_set@;
//@loopend 3
                    // step: whatever was done with child c (queued, collected, dropped) keeps the bookkeeping; stated on the state
                    // (zero0, next0) before the step
                    proof {
                        assert(*child == gk[c as int]);
                        assert(d == self.dist_to(p, child.idx as int));
                        lemma_child_height(*parent, c as int);
                        let x = (d, child);
                        if le(d, radius.add_spec(child.max_dist)) {
                            if child.children@.len() > 0 {
                                self.lemma_child_kept(p, radius, zero0, next0, gk, c as int, cs, j + 1, x);
                                assert(self.cover_ok(p, next0.push(x), h - 1));
                            } else if le(d, radius) {
                                self.lemma_child_kept(p, radius, zero0, next0, gk, c as int, cs, j + 1, x);
                                assert(self.zero_ok(p, radius, zero0.push(x)));
                            } else {
                                // a leaf outside the radius
                                assert forall|i: int| 0 <= i < self.data@.len() && #[trigger] nl(gk[c as int], i) > 0 implies !self.within(p, radius, i) by {
                                    assert(i == child.idx);
                                }
                                self.lemma_child_dropped(p, radius, zero0, next0, gk, c as int, cs, j + 1);
                            }
                        } else {
                            self.lemma_prune(p, radius, *child, d);
                            self.lemma_child_dropped(p, radius, zero0, next0, gk, c as int, cs, j + 1);
                        }
                    }
//@loopend 1
            // (current_cover_set is now the next level's cover set)
            proof {
                self.lemma_kids_done(p, radius, zero_set@, current_cover_set@, gk, cs, cs.len() as int);
                self.lemma_next_level(p, radius, zero_set@, current_cover_set@, cs);
                h = h - 1;
            }
//@loop 4
            invariant
                // the descent is over: nothing is queued any more (the loop test of loop 1 failed; a loop that is not isolated
                // cannot have `ensures`, so this is carried to the tail, where it turns into `current_cover_set@ =~= Seq::empty()`)
                current_cover_set@.len() == 0,
                self.tree_wf(),
                VERUS_ghost_iter.seq() == zero_set@,
                self.zero_ok(p, radius, zero_set@),
                self.counts_ok(p, radius, zero_set@, Seq::empty(), Seq::empty(), 0, current_cover_set@, 0),
                neighbors@.len() == VERUS_ghost_iter.index@,
                forall|a: int| 0 <= a < neighbors@.len() ==> (#[trigger] neighbors@[a]).0 == zero_set@[a].1.idx && neighbors@[a].1 == zero_set@[a].0
                    && *neighbors@[a].2 == self.data@[zero_set@[a].1.idx as int], //# inv-result-entry-is-index-distance-point
//@loopbody 4
            proof {
                let a = VERUS_ghost_iter.index@;
                assert(0 <= a < zero_set@.len() && ds == zero_set@[a]);
            }
//@tail
        proof {
            assert(current_cover_set@ =~= Seq::empty());
            self.lemma_answer(p, radius, zero_set@, neighbors@);
        }
//@end
}

// metric_on is satisfiable and is what C17 proves: for a distance whose closed form is the Manhattan sum (the contract of
// Manhattan::distance, C17/manhattan.rs) it holds whenever the stored points and the query have one common length.
// (The termwise triangle lemma is re-proved here in four lines; C17/metric_manhattan.rs is a unit, not an include.)
proof fn lemma_manhattan_sum_triangle<F: RealNumber>(a: Seq<F>, b: Seq<F>, c: Seq<F>, n: int)
    ensures val(manhattan_sum(a, c, n)) <= val(manhattan_sum(a, b, n)) + val(manhattan_sum(b, c, n)),
    decreases n
{
    axiom_real::<F>();
    if n > 0 { lemma_manhattan_sum_triangle(a, b, c, n - 1); }
}
proof fn lemma_metric_on_for_manhattan_form<F: RealNumber + Debug, D: Distance<Vec<F>, F>>(t: &CoverTree<Vec<F>, F, D>, p: &Vec<F>)
    requires
        forall|a: &Vec<F>, b: &Vec<F>| #[trigger] t.distance.dist_spec(a, b) == manhattan(a@, b@),
        forall|i: int| 0 <= i < t.data@.len() ==> (#[trigger] t.data@[i])@.len() == p@.len(),
    ensures
        t.metric_on(p),
{
    assert forall|i: int, j: int| 0 <= i < t.data@.len() && 0 <= j < t.data@.len() implies
        val(t.dist_to(p, i)) <= val(#[trigger] t.dist_between(i, j)) + val(t.dist_to(p, j)) by {
        let n = p@.len() as int;
        assert(t.data@[i]@.len() == n && t.data@[j]@.len() == n);
        lemma_manhattan_sum_triangle(t.data@[i]@, t.data@[j]@, p@, n);
    }
}

// tree_wf is satisfiable and means what it should: the two-point tree  root(0) -> [leaf(0), leaf(1)]  with any common
// bound m on the pairwise distances satisfies it (our text, not code from /repo; CoverTree::new itself is not verified).
fn witness_two_point_tree<T: Debug + PartialEq, F: RealNumber, D: Distance<T, F>>(data: Vec<T>, distance: D, m: F) -> (t: CoverTree<T, F, D>)
    requires
        data@.len() == 2,
        forall|i: int, j: int| 0 <= i < 2 && 0 <= j < 2 ==> val(#[trigger] distance.dist_spec(&data@[i], &data@[j])) <= val(m),
    ensures
        t.tree_wf(),
        t.data@ == data@ && t.distance == distance,
{
    let mut children: Vec<Node<F>> = Vec::new();
    children.push(Node { idx: 0, max_dist: m, parent_dist: F::zero(), children: Vec::new(), _scale: 100 });
    children.push(Node { idx: 1, max_dist: m, parent_dist: F::zero(), children: Vec::new(), _scale: 100 });
    let root = Node { idx: 0, max_dist: m, parent_dist: F::zero(), children, _scale: 0 };
    let t = CoverTree { base: F::one(), inv_log_base: F::one(), distance, root, data, identical_excluded: false };
    proof {
        reveal_with_fuel(nl_seq, 4);
        let kids = t.root.children@;
        assert(kids.len() == 2 && kids[0].idx == 0 && kids[1].idx == 1);
        assert(kids[0].children@.len() == 0 && kids[1].children@.len() == 0);
        assert forall|i: int| nl(t.root, i) == (if i == 0 || i == 1 { 1nat } else { 0nat }) by {
            assert(nl(t.root, i) == nl_seq(kids, 0, 2, i));
            assert(nl_seq(kids, 0, 2, i) == nl(kids[0], i) + nl_seq(kids, 1, 2, i));
            assert(nl_seq(kids, 1, 2, i) == nl(kids[1], i) + nl_seq(kids, 2, 2, i));
        }
        assert forall|i: int| 0 <= i < 2 && #[trigger] nl(t.root, i) > 0 implies val(t.dist_between(0, i)) <= val(m) by {
            assert(t.dist_between(0, i) == distance.dist_spec(&data@[0], &data@[i]));
        }
        assert(t.dist_between(0, 0) == distance.dist_spec(&data@[0], &data@[0]));
        assert(t.dist_between(1, 1) == distance.dist_spec(&data@[1], &data@[1]));
        assert(t.node_wf(kids[0]));
        assert(t.node_wf(kids[1]));
        assert(t.node_wf(t.root));
    }
    t
}
} // verus!
fn main() {}
