// ---------------------------------------------------------------------------------------------
// C04/inc/heap_contracts.rs -- HeapSelection<T> as a CALLEE: the struct copied from /repo and stand-ins for the three
// methods CoverTree::find calls.  `wf` and `add_post` are the texts of C04/heap_select.rs (keep in step).
//   with_capacity, add : the contracts PROVED in C04/heap_select.rs on the extracted bodies (labels
//                        add-keeps-k-smallest-step, with_capacity ensures); A-HEAPSELECT-PROVED
//   peek               : body uses `max_by` with a closure (outside the Verus subset); contract = what the Kani harnesses
//                        c04_heap_peek_k1..4 (kani/c04_heap_select.rs) discharge for every heap of length <= 4:
//                        the returned element is an element of the heap and no element is larger; A-HEAPSELECT-PEEK
// Needs prelude/order.rs, prelude/total_order.rs, C04/inc/heap_defs.rs.
// ---------------------------------------------------------------------------------------------
//@struct src/algorithm/sort/heap_select.rs :: HeapSelection

// u is a maximum of the values h
pub open spec fn is_max_of<T: PartialOrd>(h: Seq<T>, u: T) -> bool {
    &&& h.contains(u)
    &&& forall|i: int| 0 <= i < h.len() ==> le(#[trigger] h[i], u)
}

impl<T: PartialOrd + Debug> HeapSelection<T> {
    // (text of C04/heap_select.rs)
    spec fn wf(&self) -> bool {
        &&& 1 <= self.k
        &&& self.k - 1 <= usize::MAX / 2
        &&& if self.n < self.k { self.heap@.len() == self.n } else { self.heap@.len() == self.k && heap_ok(self.heap@) }
        &&& self.sorted ==> self.n >= self.k
    }
    // (text of C04/heap_select.rs)
    spec fn add_post(pre: Self, element: T, post: Self) -> bool {
        &&& post.wf()
        &&& post.k == pre.k
        &&& post.n == pre.n + 1
        &&& if pre.n < pre.k {
                post.heap@.to_multiset() == pre.heap@.to_multiset().insert(element)
            } else if lt(element, pre.heap@[0]) {
                post.heap@.to_multiset() == pre.heap@.to_multiset().remove(pre.heap@[0]).insert(element)
            } else {
                post.heap@ == pre.heap@
            }
    }

//@checkdecl src/algorithm/sort/heap_select.rs :: impl<T: PartialOrd + Debug> HeapSelection<T> :: with_capacity :: fn with_capacity(k: usize) -> HeapSelection<T>
    // ASSUME[A-HEAPSELECT-PROVED] contract proved in C04/heap_select.rs on the extracted body of with_capacity
    #[verifier::external_body]
    fn with_capacity(k: usize) -> (r: HeapSelection<T>)
        ensures
            r.k == k, r.n == 0, !r.sorted, r.heap@ == Seq::<T>::empty(),
            1 <= k && k - 1 <= usize::MAX / 2 ==> r.wf(),
    { unimplemented!() }

//@checkdecl src/algorithm/sort/heap_select.rs :: impl<T: PartialOrd + Debug> HeapSelection<T> :: add :: fn add(&mut self, element: T)
    // ASSUME[A-HEAPSELECT-PROVED] contract proved in C04/heap_select.rs on the extracted body of add (add-keeps-k-smallest-step)
    #[verifier::external_body]
    fn add(&mut self, element: T)
        requires
            old(self).wf(),
            old(self).n < usize::MAX,
            T::obeys_partial_cmp_spec(),
            total_on(old(self).heap@.to_set().insert(element)),
        ensures
            Self::add_post(*old(self), element, *final(self)),
    { unimplemented!() }

//@checkdecl src/algorithm/sort/heap_select.rs :: impl<T: PartialOrd + Debug> HeapSelection<T> :: peek :: fn peek(&self) -> &T
    // ASSUME[A-HEAPSELECT-PEEK] HeapSelection::peek returns a maximum of the heap contents (flagged sorted only by sort(); otherwise max_by over the vector)
    #[verifier::external_body]
    fn peek(&self) -> (r: &T)
        requires
            self.wf(),
            self.heap@.len() > 0,
            total_on(self.heap@.to_set()),
        ensures
            is_max_of(self.heap@, *r),
    { unimplemented!() }
}
