// ---------------------------------------------------------------------------------------------
// prelude/heap_defs.rs -- representation of crate::algorithm::sort::heap_select::HeapSelection<T>.
// Layout derived from sift_down: the children of node p are 2p and 2p+1 *on the 0-based vector*, i.e.
// node 0 has the single child 1 (its "child" 2*0 is itself) and the nodes 1.. form a classical 1-based
// binary heap.  parent(c) = c / 2 for every c >= 1.  Max-heap: a parent is >= its children.
// Needs prelude/order.rs.
// ---------------------------------------------------------------------------------------------
pub open spec fn par(c: int) -> int { c / 2 }

// every node p with lo <= p dominates its children c <= n
pub open spec fn heap_from<T: PartialOrd>(h: Seq<T>, lo: int, n: int) -> bool {
    forall|c: int| 1 <= c <= n && lo <= par(c) ==> ge(h[par(c)], #[trigger] h[c])
}
// the whole vector is a max-heap (root at 0)
pub open spec fn heap_ok<T: PartialOrd>(h: Seq<T>) -> bool {
    heap_from(h, 0, h.len() - 1)
}

// exchanging two entries of a sequence keeps its multiset
pub proof fn lemma_swap_multiset<T>(s: Seq<T>, i: int, j: int)
    requires 0 <= i < s.len(), 0 <= j < s.len(),
    ensures s.update(i, s[j]).update(j, s[i]).to_multiset() == s.to_multiset(),
{
    vstd::seq_lib::to_multiset_update(s, i, s[j]);
    vstd::seq_lib::to_multiset_update(s.update(i, s[j]), j, s[i]);
    s.to_multiset_ensures();
    assert(s.update(i, s[j]).update(j, s[i]).to_multiset() =~= s.to_multiset());
}
// all entries of s lie in dom
pub open spec fn all_in<T>(s: Seq<T>, dom: Set<T>) -> bool {
    forall|i: int| 0 <= i < s.len() ==> dom.contains(#[trigger] s[i])
}
// two sequences with the same multiset have the same set of values
pub proof fn lemma_same_multiset_same_set<T>(a: Seq<T>, b: Seq<T>)
    requires a.to_multiset() == b.to_multiset(),
    ensures a.to_set() == b.to_set(),
{
    a.to_multiset_ensures();
    b.to_multiset_ensures();
    assert forall|x: T| a.to_set().contains(x) == b.to_set().contains(x) by {
        assert(a.contains(x) <==> a.to_multiset().count(x) > 0);
        assert(b.contains(x) <==> b.to_multiset().count(x) > 0);
    }
    assert(a.to_set() =~= b.to_set());
}
// a vector sorted in descending order is a heap (the parent index is never larger than the child index)
pub proof fn lemma_sorted_desc_is_heap<T: PartialOrd>(h: Seq<T>)
    requires forall|i: int, j: int| 0 <= i <= j < h.len() ==> ge(h[i], h[j]),
    ensures heap_ok(h),
{
    assert forall|c: int| 1 <= c <= h.len() - 1 && 0 <= par(c) implies ge(h[par(c)], #[trigger] h[c]) by {
        assert(0 <= par(c) <= c);
    }
}
// overwriting entry i: the old value leaves the multiset, the new one enters
pub proof fn lemma_update_multiset<T>(s: Seq<T>, i: int, x: T)
    requires 0 <= i < s.len(),
    ensures s.update(i, x).to_multiset() == s.to_multiset().remove(s[i]).insert(x),
{
    vstd::seq_lib::to_multiset_update(s, i, x);
    s.to_multiset_ensures();
    assert(s.contains(s[i]));
    assert(s.update(i, x).to_multiset() =~= s.to_multiset().remove(s[i]).insert(x));
}
// the root of a heap dominates every entry
pub proof fn lemma_heap_root_max<T: PartialOrd>(h: Seq<T>, i: int)
    requires heap_ok(h), total_on(h.to_set()), 0 <= i < h.len(),
    ensures ge(h[0], h[i]), le(h[i], h[0]),
    decreases i,
{
    assert(h.contains(h[0]) && h.contains(h[i]));
    if i == 0 {
        lemma_total_not_lt(h.to_set(), h[0], h[0]);
    } else {
        lemma_heap_root_max(h, par(i));
        assert(h.contains(h[par(i)]));
        assert(ge(h[par(i)], h[i]));
        lemma_total_ge_trans(h.to_set(), h[0], h[par(i)], h[i]);
        lemma_total_not_lt(h.to_set(), h[0], h[i]);
    }
}

// m holds k smallest members of seen (all of seen while fewer than k): m is a sub-multiset of seen of size min(k, |seen|),
// and every member of m is <= every member of seen that was left out (b is left out iff seen has more copies of b than m).
// With ties the k smallest are not unique as a multiset; this is the tie-agnostic statement.
pub open spec fn k_smallest<T: PartialOrd>(m: Multiset<T>, seen: Multiset<T>, k: nat) -> bool {
    &&& m.subset_of(seen)
    &&& m.len() == (if seen.len() < k { seen.len() } else { k })
    &&& forall|a: T, b: T| #![trigger m.count(a), seen.count(b)] m.count(a) > 0 && seen.count(b) > m.count(b) ==> le(a, b)
}
