// ---------------------------------------------------------------------------------------------
// C04/inc/knn_defs.rs -- vocabulary of the k-NN descent of the cover tree (CoverTree::find), on top of
// C04/inc/cover_defs.rs (nl, nl_seq, nl_cov, height) and prelude/enum_count.rs.  Nothing here is trusted.
//
// The descent offers the distance of a node's point to the heap only when the node is a NON-FIRST child (`c > 0`): the
// first child repeats its parent's point.  To know that no point is offered twice we count, next to the leaves below
// a node (nl), the leaves below it that do not lie at the bottom of its first-child chain:
//   nfl(nd, i)           leaves with idx i below nd, except the leaf at the end of nd's first-child chain
//   nfl_cov(cs,lo,hi,i)  the same summed over the cover-set entries cs[lo..hi)
// For a well-formed node  nl(nd, i) == nfl(nd, i) + (1 if i == nd.idx)   (CoverTree::lemma_nl_nfl).
// ---------------------------------------------------------------------------------------------
spec fn nfl<F: RealNumber>(nd: Node<F>, i: int) -> nat
    decreases nd
{
    if nd.children@.len() == 0 { 0 } else { nfl(nd.children@[0], i) + nl_seq(nd.children@, 1, nd.children@.len() as int, i) }
}
spec fn nfl_cov<F: RealNumber>(cs: Seq<(F, &Node<F>)>, lo: int, hi: int, i: int) -> nat
    decreases hi - lo
{
    if lo < 0 || lo >= hi || hi > cs.len() { 0 } else { nfl(*cs[lo].1, i) + nfl_cov(cs, lo + 1, hi, i) }
}
// children kids[c..] of the node being expanded: the first child continues the parent's chain, the others are new
spec fn fresh_kids<F: RealNumber>(kids: Seq<Node<F>>, c: int, i: int) -> nat {
    if kids.len() == 0 { 0 }
    else if c <= 0 { nfl(kids[0], i) + nl_seq(kids, 1, kids.len() as int, i) }
    else { nl_seq(kids, c, kids.len() as int, i) }
}
// leaves with index i still in play whose point has NOT been offered to the heap yet
spec fn fresh<F: RealNumber>(next: Seq<(F, &Node<F>)>, kids: Seq<Node<F>>, c: int, cs: Seq<(F, &Node<F>)>, j: int, i: int) -> nat {
    nfl_cov(next, 0, next.len() as int, i) + fresh_kids(kids, c, i) + nfl_cov(cs, j, cs.len() as int, i)
}
// no offered index has a leaf that is still to be offered
spec fn fresh_ok<F: RealNumber>(added: Seq<int>, next: Seq<(F, &Node<F>)>, kids: Seq<Node<F>>, c: int, cs: Seq<(F, &Node<F>)>, j: int) -> bool {
    forall|t: int| 0 <= t < added.len() ==> fresh(next, kids, c, cs, j, #[trigger] added[t]) == 0
}

proof fn lemma_nfl_le<F: RealNumber>(nd: Node<F>, i: int)
    ensures nfl(nd, i) <= nl(nd, i),
    decreases nd
{
    if nd.children@.len() > 0 {
        lemma_nfl_le(nd.children@[0], i);
        assert(nl_seq(nd.children@, 0, nd.children@.len() as int, i) == nl(nd.children@[0], i) + nl_seq(nd.children@, 1, nd.children@.len() as int, i));
    }
}
proof fn lemma_nfl_cov_le<F: RealNumber>(cs: Seq<(F, &Node<F>)>, lo: int, hi: int, i: int)
    ensures nfl_cov(cs, lo, hi, i) <= nl_cov(cs, lo, hi, i),
    decreases hi - lo
{
    if !(lo < 0 || lo >= hi || hi > cs.len()) {
        lemma_nfl_le(*cs[lo].1, i);
        lemma_nfl_cov_le(cs, lo + 1, hi, i);
    }
}
proof fn lemma_nfl_cov_push<F: RealNumber>(cs: Seq<(F, &Node<F>)>, x: (F, &Node<F>), lo: int, i: int)
    requires 0 <= lo <= cs.len(),
    ensures nfl_cov(cs.push(x), lo, cs.len() as int + 1, i) == nfl_cov(cs, lo, cs.len() as int, i) + nfl(*x.1, i),
    decreases cs.len() - lo
{
    let cs1 = cs.push(x);
    if lo < cs.len() {
        lemma_nfl_cov_push(cs, x, lo + 1, i);
        assert(cs1[lo] == cs[lo]);
    } else {
        assert(cs1[lo] == x);
        assert(nfl_cov(cs1, lo + 1, cs.len() as int + 1, i) == 0);
        assert(nfl_cov(cs, lo, cs.len() as int, i) == 0);
    }
}
// a child's leaves are among the leaves of kids[c..]
proof fn lemma_nl_seq_member<F: RealNumber>(s: Seq<Node<F>>, lo: int, hi: int, c: int, i: int)
    requires 0 <= lo <= c < hi <= s.len(),
    ensures nl(s[c], i) <= nl_seq(s, lo, hi, i),
    decreases hi - lo
{
    if lo < c { lemma_nl_seq_member(s, lo + 1, hi, c, i); }
}

// ---- bookkeeping transitions of `fresh_ok` (they mirror those of counts_ok) ----
proof fn lemma_fresh_expand<F: RealNumber>(added: Seq<int>, next: Seq<(F, &Node<F>)>, cs: Seq<(F, &Node<F>)>, j: int)
    requires
        fresh_ok(added, next, Seq::empty(), 0, cs, j),
        0 <= j < cs.len(),
        cs[j].1.children@.len() > 0,
    ensures
        fresh_ok(added, next, cs[j].1.children@, 0, cs, j + 1),
{
    let kids = cs[j].1.children@;
    let ek = Seq::<Node<F>>::empty();
    assert forall|t: int| 0 <= t < added.len() implies fresh(next, kids, 0, cs, j + 1, #[trigger] added[t]) == 0 by {
        let i = added[t];
        assert(fresh(next, ek, 0, cs, j, i) == 0);
        assert(fresh_kids(ek, 0, i) == 0);
        assert(nfl_cov(cs, j, cs.len() as int, i) == nfl(*cs[j].1, i) + nfl_cov(cs, j + 1, cs.len() as int, i));
        assert(nfl(*cs[j].1, i) == fresh_kids(kids, 0, i));
    }
}
proof fn lemma_fresh_kids_done<F: RealNumber>(added: Seq<int>, next: Seq<(F, &Node<F>)>, kids: Seq<Node<F>>, cs: Seq<(F, &Node<F>)>, j: int)
    requires
        fresh_ok(added, next, kids, kids.len() as int, cs, j),
    ensures
        fresh_ok(added, next, Seq::empty(), 0, cs, j),
{
    let ek = Seq::<Node<F>>::empty();
    assert forall|t: int| 0 <= t < added.len() implies fresh(next, ek, 0, cs, j, #[trigger] added[t]) == 0 by {
        let i = added[t];
        assert(fresh(next, kids, kids.len() as int, cs, j, i) == 0);
        assert(fresh_kids(ek, 0, i) == 0);
        assert(fresh_kids(kids, kids.len() as int, i) == 0);
    }
}
proof fn lemma_fresh_next_level<F: RealNumber>(added: Seq<int>, next: Seq<(F, &Node<F>)>, cs: Seq<(F, &Node<F>)>)
    requires
        fresh_ok(added, next, Seq::empty(), 0, cs, cs.len() as int),
    ensures
        fresh_ok(added, Seq::empty(), Seq::empty(), 0, next, 0),
{
    let e = Seq::<(F, &Node<F>)>::empty();
    let ek = Seq::<Node<F>>::empty();
    assert forall|t: int| 0 <= t < added.len() implies fresh(e, ek, 0, next, 0, #[trigger] added[t]) == 0 by {
        let i = added[t];
        assert(fresh(next, ek, 0, cs, cs.len() as int, i) == 0);
        assert(nfl_cov(cs, cs.len() as int, cs.len() as int, i) == 0);
        assert(nfl_cov(e, 0, 0, i) == 0);
    }
}
// child c leaves the pending children: queued (its own chain is not fresh any more) or taken out of play -- never more fresh leaves
proof fn lemma_fresh_child<F: RealNumber>(added: Seq<int>, next: Seq<(F, &Node<F>)>, kids: Seq<Node<F>>, c: int, cs: Seq<(F, &Node<F>)>, j: int, x: (F, &Node<F>))
    requires
        0 <= c < kids.len(),
        *x.1 == kids[c],
    ensures
        forall|i: int| fresh(next.push(x), kids, c + 1, cs, j, i) <= #[trigger] fresh(next, kids, c, cs, j, i),
        forall|i: int| fresh(next, kids, c + 1, cs, j, i) <= #[trigger] fresh(next, kids, c, cs, j, i),
        fresh_ok(added, next, kids, c, cs, j) ==> fresh_ok(added, next.push(x), kids, c + 1, cs, j) && fresh_ok(added, next, kids, c + 1, cs, j),
{
    assert forall|i: int| fresh(next.push(x), kids, c + 1, cs, j, i) <= #[trigger] fresh(next, kids, c, cs, j, i)
        && fresh(next, kids, c + 1, cs, j, i) <= fresh(next, kids, c, cs, j, i) by {
        lemma_nfl_cov_push(next, x, 0, i);
        lemma_nfl_le(kids[c], i);
        if c == 0 {
            if kids.len() == 1 { assert(nl_seq(kids, 1, 1, i) == 0); }
        } else {
            assert(nl_seq(kids, c, kids.len() as int, i) == nl(kids[c], i) + nl_seq(kids, c + 1, kids.len() as int, i));
        }
    }
    if fresh_ok(added, next, kids, c, cs, j) {
        assert forall|t: int| 0 <= t < added.len() implies fresh(next.push(x), kids, c + 1, cs, j, #[trigger] added[t]) == 0 by {
            assert(fresh(next, kids, c, cs, j, added[t]) == 0);
        }
        assert forall|t: int| 0 <= t < added.len() implies fresh(next, kids, c + 1, cs, j, #[trigger] added[t]) == 0 by {
            assert(fresh(next, kids, c, cs, j, added[t]) == 0);
        }
    }
}

// ---- counting ----
// number of positions of a value sequence with a value <= u
spec fn cnt_le<T: PartialOrd>(s: Seq<T>, u: T) -> int
    decreases s.len()
{
    if s.len() == 0 { 0 } else { cnt_le(s.drop_last(), u) + if le(s.last(), u) { 1int } else { 0int } }
}
// a sub-multiset of the values of s all of whose members are <= u has at most cnt_le(s, u) members
proof fn lemma_sub_multiset_count<T: PartialOrd>(s: Seq<T>, h: Multiset<T>, u: T)
    requires
        h.subset_of(s.to_multiset()),
        forall|v: T| #[trigger] h.count(v) > 0 ==> le(v, u),
    ensures
        cnt_le(s, u) >= h.len(),
    decreases s.len()
{
    s.to_multiset_ensures();
    if s.len() == 0 {
        assert(s.to_multiset().len() == 0);
        assert forall|v: T| h.count(v) == 0 by { assert(h.count(v) <= s.to_multiset().count(v)); assert(s.to_multiset().count(v) == 0) by { if s.to_multiset().count(v) > 0 { assert(s.contains(v)); } } }
        assert(h =~= Multiset::<T>::empty());
    } else {
        let s0 = s.drop_last();
        let x = s.last();
        assert(s == s0.push(x));
        s0.to_multiset_ensures();
        assert(s.to_multiset() == s0.to_multiset().insert(x));
        if h.count(x) > 0 {
            let h1 = h.remove(x);
            assert(h1.subset_of(s0.to_multiset())) by {
                assert forall|v: T| #[trigger] h1.count(v) <= s0.to_multiset().count(v) by { assert(h.count(v) <= s.to_multiset().count(v)); }
            }
            assert forall|v: T| #[trigger] h1.count(v) > 0 implies le(v, u) by { assert(h.count(v) > 0); }
            lemma_sub_multiset_count(s0, h1, u);
            assert(le(x, u));
        } else {
            assert(h.subset_of(s0.to_multiset())) by {
                assert forall|v: T| #[trigger] h.count(v) <= s0.to_multiset().count(v) by { assert(h.count(v) <= s.to_multiset().count(v)); }
            }
            lemma_sub_multiset_count(s0, h, u);
        }
    }
}
proof fn lemma_count_range_mono(p: spec_fn(int) -> bool, q: spec_fn(int) -> bool, n: int)
    requires forall|j: int| 0 <= j < n && #[trigger] p(j) ==> q(j),
    ensures count_range(p, n) <= count_range(q, n),
    decreases n
{
    if n > 0 { lemma_count_range_mono(p, q, n - 1); }
}
proof fn lemma_count_range_all(p: spec_fn(int) -> bool, n: int)
    requires 0 <= n, forall|j: int| 0 <= j < n ==> #[trigger] p(j),
    ensures count_range(p, n) == n,
    decreases n
{
    if n > 0 { lemma_count_range_all(p, n - 1); }
}
// a list of different indices below n: counting the entries with f never exceeds counting the indices with f; at most n entries
proof fn lemma_distinct_list_count(idx: Seq<int>, f: spec_fn(int) -> bool, n: int)
    requires
        0 <= n,
        forall|a: int| 0 <= a < idx.len() ==> 0 <= #[trigger] idx[a] < n,
        forall|a: int, b: int| 0 <= a < b < idx.len() ==> idx[a] != idx[b],
    ensures
        count_list(idx, f, idx.len() as int) <= count_range(f, n),
        idx.len() <= n,
{
    let pa = |j: int| idx.contains(j);
    assert(enumerates(idx, pa, n)) by {
        assert forall|a: int| 0 <= a < idx.len() implies 0 <= #[trigger] idx[a] < n && pa(idx[a]) by { assert(idx.contains(idx[a])); }
        assert forall|j: int| 0 <= j < n && #[trigger] pa(j) implies exists|a: int| 0 <= a < idx.len() && idx[a] == j by {
            let a = choose|a: int| 0 <= a < idx.len() && idx[a] == j;
            assert(idx[a] == j);
        }
    }
    lemma_enum_count(idx, pa, f, n);
    lemma_count_range_mono(|j: int| pa(j) && f(j), f, n);
    lemma_enum_len(idx, pa, n);
    lemma_count_range_bounds(pa, n);
}
// a list of different indices below n that contains every index with f: exactly as many entries with f as indices with f
proof fn lemma_covering_list_count(idx: Seq<int>, f: spec_fn(int) -> bool, n: int)
    requires
        0 <= n,
        forall|a: int| 0 <= a < idx.len() ==> 0 <= #[trigger] idx[a] < n,
        forall|a: int, b: int| 0 <= a < b < idx.len() ==> idx[a] != idx[b],
        forall|j: int| 0 <= j < n && #[trigger] f(j) ==> idx.contains(j),
    ensures
        count_list(idx, f, idx.len() as int) == count_range(f, n),
{
    let pa = |j: int| idx.contains(j);
    assert(enumerates(idx, pa, n)) by {
        assert forall|a: int| 0 <= a < idx.len() implies 0 <= #[trigger] idx[a] < n && pa(idx[a]) by { assert(idx.contains(idx[a])); }
        assert forall|j: int| 0 <= j < n && #[trigger] pa(j) implies exists|a: int| 0 <= a < idx.len() && idx[a] == j by {
            let a = choose|a: int| 0 <= a < idx.len() && idx[a] == j;
            assert(idx[a] == j);
        }
    }
    lemma_enum_count(idx, pa, f, n);
    lemma_count_range_ext(|j: int| pa(j) && f(j), f, n);
}
// strictly increasing list positions below m whose entries satisfy g: there are at most as many as count_list counts,
// and one fewer if a position z < m with g is not among them
proof fn lemma_increasing_positions_le(ks: Seq<int>, g: spec_fn(int) -> bool, src: Seq<int>, m: int)
    requires
        0 <= m <= ks.len(),
        forall|a: int| 0 <= a < src.len() ==> 0 <= #[trigger] src[a] < m && g(ks[src[a]]),
        forall|a: int, b: int| 0 <= a < b < src.len() ==> src[a] < src[b],
    ensures
        src.len() <= count_list(ks, g, m),
    decreases m
{
    if m == 0 {
        if src.len() > 0 { assert(0 <= src[0] < m); }
    } else {
        lemma_count_list_bounds(ks, g, m - 1);
        if src.len() > 0 && src.last() == m - 1 {
            let s0 = src.drop_last();
            assert forall|a: int| 0 <= a < s0.len() implies 0 <= #[trigger] s0[a] < m - 1 && g(ks[s0[a]]) by {
                assert(s0[a] == src[a]);
                assert(src[a] < src[src.len() - 1]);
            }
            assert forall|a: int, b: int| 0 <= a < b < s0.len() implies s0[a] < s0[b] by { assert(s0[a] == src[a] && s0[b] == src[b]); }
            lemma_increasing_positions_le(ks, g, s0, m - 1);
            assert(g(ks[m - 1])) by { assert(src[src.len() - 1] == m - 1); }
        } else {
            assert forall|a: int| 0 <= a < src.len() implies 0 <= #[trigger] src[a] < m - 1 && g(ks[src[a]]) by {
                if a < src.len() - 1 { assert(src[a] < src[src.len() - 1]); }
            }
            lemma_increasing_positions_le(ks, g, src, m - 1);
        }
    }
}
proof fn lemma_increasing_positions(ks: Seq<int>, g: spec_fn(int) -> bool, src: Seq<int>, z: int, m: int)
    requires
        0 <= z < m <= ks.len(),
        g(ks[z]),
        forall|a: int| 0 <= a < src.len() ==> 0 <= #[trigger] src[a] < m && g(ks[src[a]]) && src[a] != z,
        forall|a: int, b: int| 0 <= a < b < src.len() ==> src[a] < src[b],
    ensures
        src.len() + 1 <= count_list(ks, g, m),
    decreases m
{
    if z == m - 1 {
        assert forall|a: int| 0 <= a < src.len() implies 0 <= #[trigger] src[a] < m - 1 && g(ks[src[a]]) by { }
        lemma_increasing_positions_le(ks, g, src, m - 1);
    } else if src.len() > 0 && src.last() == m - 1 {
        let s0 = src.drop_last();
        assert forall|a: int| 0 <= a < s0.len() implies 0 <= #[trigger] s0[a] < m - 1 && g(ks[s0[a]]) && s0[a] != z by {
            assert(s0[a] == src[a]);
            assert(src[a] < src[src.len() - 1]);
        }
        assert forall|a: int, b: int| 0 <= a < b < s0.len() implies s0[a] < s0[b] by { assert(s0[a] == src[a] && s0[b] == src[b]); }
        lemma_increasing_positions(ks, g, s0, z, m - 1);
        assert(g(ks[m - 1])) by { assert(src[src.len() - 1] == m - 1); }
    } else {
        assert forall|a: int| 0 <= a < src.len() implies 0 <= #[trigger] src[a] < m - 1 && g(ks[src[a]]) && src[a] != z by {
            if a < src.len() - 1 { assert(src[a] < src[src.len() - 1]); }
        }
        lemma_increasing_positions(ks, g, src, z, m - 1);
        lemma_count_list_bounds(ks, g, m - 1);
    }
}

// ---- pointwise facts about `fresh` (for the "every strictly closer point has been offered or is still to come" invariant) ----
proof fn lemma_fresh_eq_expand<F: RealNumber>(next: Seq<(F, &Node<F>)>, cs: Seq<(F, &Node<F>)>, j: int)
    requires 0 <= j < cs.len(), cs[j].1.children@.len() > 0,
    ensures forall|i: int| #[trigger] fresh(next, cs[j].1.children@, 0, cs, j + 1, i) == fresh(next, Seq::empty(), 0, cs, j, i),
{
    let kids = cs[j].1.children@;
    let ek = Seq::<Node<F>>::empty();
    assert forall|i: int| #[trigger] fresh(next, kids, 0, cs, j + 1, i) == fresh(next, ek, 0, cs, j, i) by {
        assert(fresh_kids(ek, 0, i) == 0);
        assert(nfl_cov(cs, j, cs.len() as int, i) == nfl(*cs[j].1, i) + nfl_cov(cs, j + 1, cs.len() as int, i));
        assert(nfl(*cs[j].1, i) == fresh_kids(kids, 0, i));
    }
}
proof fn lemma_fresh_eq_kids_done<F: RealNumber>(next: Seq<(F, &Node<F>)>, kids: Seq<Node<F>>, cs: Seq<(F, &Node<F>)>, j: int)
    ensures forall|i: int| #[trigger] fresh(next, Seq::empty(), 0, cs, j, i) == fresh(next, kids, kids.len() as int, cs, j, i),
{
    let ek = Seq::<Node<F>>::empty();
    assert forall|i: int| #[trigger] fresh(next, ek, 0, cs, j, i) == fresh(next, kids, kids.len() as int, cs, j, i) by {
        assert(fresh_kids(ek, 0, i) == 0);
        assert(fresh_kids(kids, kids.len() as int, i) == 0);
    }
}
proof fn lemma_fresh_eq_next_level<F: RealNumber>(next: Seq<(F, &Node<F>)>, cs: Seq<(F, &Node<F>)>)
    ensures forall|i: int| #[trigger] fresh(Seq::empty(), Seq::empty(), 0, next, 0, i) == fresh(next, Seq::empty(), 0, cs, cs.len() as int, i),
{
    let e = Seq::<(F, &Node<F>)>::empty();
    let ek = Seq::<Node<F>>::empty();
    assert forall|i: int| #[trigger] fresh(e, ek, 0, next, 0, i) == fresh(next, ek, 0, cs, cs.len() as int, i) by {
        assert(nfl_cov(cs, cs.len() as int, cs.len() as int, i) == 0);
        assert(nfl_cov(e, 0, 0, i) == 0);
    }
}
// taking child c out of the pending children loses at most the leaves below it
proof fn lemma_fresh_drop_bound<F: RealNumber>(next: Seq<(F, &Node<F>)>, kids: Seq<Node<F>>, c: int, cs: Seq<(F, &Node<F>)>, j: int)
    requires 0 <= c < kids.len(),
    ensures forall|i: int| #[trigger] fresh(next, kids, c + 1, cs, j, i) + nl(kids[c], i) >= fresh(next, kids, c, cs, j, i),
{
    assert forall|i: int| #[trigger] fresh(next, kids, c + 1, cs, j, i) + nl(kids[c], i) >= fresh(next, kids, c, cs, j, i) by {
        lemma_nfl_le(kids[c], i);
        if c == 0 {
            if kids.len() == 1 { assert(nl_seq(kids, 1, 1, i) == 0); }
        } else {
            assert(nl_seq(kids, c, kids.len() as int, i) == nl(kids[c], i) + nl_seq(kids, c + 1, kids.len() as int, i));
        }
    }
}

// number of positions of a value sequence with a value < u
spec fn cnt_lt<T: PartialOrd>(s: Seq<T>, u: T) -> int
    decreases s.len()
{
    if s.len() == 0 { 0 } else { cnt_lt(s.drop_last(), u) + if lt(s.last(), u) { 1int } else { 0int } }
}
// if every value below u occurs in h at least as often as in s, s has at most |h| positions below u
proof fn lemma_dominated_count<T: PartialOrd>(s: Seq<T>, h: Multiset<T>, u: T)
    requires
        forall|v: T| lt(v, u) ==> #[trigger] s.to_multiset().count(v) <= h.count(v),
    ensures
        cnt_lt(s, u) <= h.len(),
    decreases s.len()
{
    s.to_multiset_ensures();
    if s.len() > 0 {
        let s0 = s.drop_last();
        let x = s.last();
        assert(s == s0.push(x));
        s0.to_multiset_ensures();
        assert(s.to_multiset() == s0.to_multiset().insert(x));
        if lt(x, u) {
            assert(s.to_multiset().count(x) <= h.count(x));
            let h1 = h.remove(x);
            assert forall|v: T| lt(v, u) implies #[trigger] s0.to_multiset().count(v) <= h1.count(v) by {
                assert(s.to_multiset().count(v) <= h.count(v));
            }
            lemma_dominated_count(s0, h1, u);
        } else {
            assert forall|v: T| lt(v, u) implies #[trigger] s0.to_multiset().count(v) <= h.count(v) by {
                assert(s.to_multiset().count(v) <= h.count(v));
            }
            lemma_dominated_count(s0, h, u);
        }
    }
}
