// ---------------------------------------------------------------------------------------------
// C04/inc/cover_defs.rs -- structural vocabulary for the cover tree (src/algorithm/neighbour/cover_tree.rs).
// Needs the `Node` struct (//@struct in the unit) and prelude/realnumber.rs.  Nothing here is trusted.
//
// What find_radius reports are LEAVES (nodes without children): an inner node's own point is reported through
// its first child, recursively down to a leaf.  So the vocabulary counts leaves:
//   nl(nd, i)          number of leaves at or below nd whose `idx` is i
//   nl_seq(s,lo,hi,i)  the same summed over the nodes s[lo..hi)            (children of a node)
//   nl_cov(cs,lo,hi,i) the same summed over the nodes of cover-set entries cs[lo..hi)   (Vec<(F, &Node<F>)>)
//   height(nd)         0 for a leaf, 1 + max over the children otherwise   (termination measure of the descent)
// ---------------------------------------------------------------------------------------------
spec fn nl<F: RealNumber>(nd: Node<F>, i: int) -> nat
    decreases nd
{
    if nd.children@.len() == 0 {
        if nd.idx == i { 1 } else { 0 }
    } else {
        nl_seq(nd.children@, 0, nd.children@.len() as int, i)
    }
}
spec fn nl_seq<F: RealNumber>(s: Seq<Node<F>>, lo: int, hi: int, i: int) -> nat
    decreases s, hi - lo
{
    if lo < 0 || lo >= hi || hi > s.len() { 0 } else { nl(s[lo], i) + nl_seq(s, lo + 1, hi, i) }
}
spec fn nl_cov<F: RealNumber>(cs: Seq<(F, &Node<F>)>, lo: int, hi: int, i: int) -> nat
    decreases hi - lo
{
    if lo < 0 || lo >= hi || hi > cs.len() { 0 } else { nl(*cs[lo].1, i) + nl_cov(cs, lo + 1, hi, i) }
}
spec fn height<F: RealNumber>(nd: Node<F>) -> nat
    decreases nd
{
    if nd.children@.len() == 0 { 0 } else { 1 + max_height(nd.children@, 0, nd.children@.len() as int) }
}
spec fn max_height<F: RealNumber>(s: Seq<Node<F>>, lo: int, hi: int) -> nat
    decreases s, hi - lo
{
    if lo < 0 || lo >= hi || hi > s.len() { 0 } else {
        let h = height(s[lo]);
        let m = max_height(s, lo + 1, hi);
        if h > m { h } else { m }
    }
}

// a child is strictly lower than its parent
proof fn lemma_max_height_bounds<F: RealNumber>(s: Seq<Node<F>>, lo: int, hi: int, c: int)
    requires 0 <= lo <= c < hi <= s.len(),
    ensures height(s[c]) <= max_height(s, lo, hi),
    decreases hi - lo
{
    if c > lo { lemma_max_height_bounds(s, lo + 1, hi, c); }
}
proof fn lemma_child_height<F: RealNumber>(nd: Node<F>, c: int)
    requires 0 <= c < nd.children@.len(),
    ensures height(nd.children@[c]) + 1 <= height(nd),
{
    lemma_max_height_bounds(nd.children@, 0, nd.children@.len() as int, c);
}

// appending an entry to a cover set adds its leaves
proof fn lemma_nl_cov_push<F: RealNumber>(cs: Seq<(F, &Node<F>)>, x: (F, &Node<F>), lo: int, i: int)
    requires 0 <= lo <= cs.len(),
    ensures nl_cov(cs.push(x), lo, cs.len() as int + 1, i) == nl_cov(cs, lo, cs.len() as int, i) + nl(*x.1, i),
    decreases cs.len() - lo
{
    let cs1 = cs.push(x);
    if lo < cs.len() {
        lemma_nl_cov_push(cs, x, lo + 1, i);
        assert(cs1[lo] == cs[lo]);
    } else {
        assert(cs1[lo] == x);
        assert(nl_cov(cs1, lo + 1, cs.len() as int + 1, i) == 0);
        assert(nl_cov(cs, lo, cs.len() as int, i) == 0);
    }
}
// a cover set made of leaves only: the count of index i is the number of positions carrying i
proof fn lemma_nl_cov_leaves_two<F: RealNumber>(cs: Seq<(F, &Node<F>)>, lo: int, a: int, b: int, i: int)
    requires
        0 <= lo <= a < b < cs.len(),
        cs[a].1.children@.len() == 0, cs[b].1.children@.len() == 0,
        cs[a].1.idx == i, cs[b].1.idx == i,
    ensures nl_cov(cs, lo, cs.len() as int, i) >= 2,
    decreases cs.len() - lo
{
    if lo < a {
        lemma_nl_cov_leaves_two(cs, lo + 1, a, b, i);
    } else {
        lemma_nl_cov_leaves_one(cs, lo + 1, b, i);
    }
}
proof fn lemma_nl_cov_leaves_one<F: RealNumber>(cs: Seq<(F, &Node<F>)>, lo: int, a: int, i: int)
    requires
        0 <= lo <= a < cs.len(),
        cs[a].1.children@.len() == 0,
        cs[a].1.idx == i,
    ensures nl_cov(cs, lo, cs.len() as int, i) >= 1,
    decreases cs.len() - lo
{
    if lo < a { lemma_nl_cov_leaves_one(cs, lo + 1, a, i); }
}
proof fn lemma_nl_cov_leaves_find<F: RealNumber>(cs: Seq<(F, &Node<F>)>, lo: int, i: int) -> (a: int)
    requires
        0 <= lo <= cs.len(),
        forall|k: int| lo <= k < cs.len() ==> (#[trigger] cs[k]).1.children@.len() == 0,
        nl_cov(cs, lo, cs.len() as int, i) >= 1,
    ensures lo <= a < cs.len() && cs[a].1.idx == i,
    decreases cs.len() - lo
{
    if lo >= cs.len() { lo } else if cs[lo].1.idx == i { lo } else { lemma_nl_cov_leaves_find(cs, lo + 1, i) }
}
