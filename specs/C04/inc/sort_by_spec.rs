// ---------------------------------------------------------------------------------------------
// C04/inc/sort_by_spec.rs -- trusted specification of std's `<[T]>::sort_by`.
// The result is a permutation of the input; and it is ordered with respect to the comparator in the only way a
// specification can speak about a closure: through `call_ensures`.  `cmp_le(compare, a, b)` says "the comparator's own
// contract admits a result other than Greater for (a, b)".
// NOTE (limit of this Verus): an exec closure WITHOUT an `ensures` clause has an opaque `call_ensures`; the comparator
// of CoverTree::find (`|a, b| a.1.partial_cmp(&b.1).unwrap()`) sits in the verbatim body and cannot be annotated, so the
// third clause cannot be turned into "ascending by .1" there.  The first two clauses are what cover_knn.rs uses.
// Sound also for comparators that are not total orders: std then leaves the order unspecified but still returns a
// permutation (or panics); the ordering clause is guarded by the comparator being deterministic and a total preorder.
// ---------------------------------------------------------------------------------------------
pub open spec fn cmp_le<T, C: FnMut(&T, &T) -> Ordering>(compare: C, a: T, b: T) -> bool {
    exists|o: Ordering| #[trigger] call_ensures(compare, (&a, &b), o) && o != Ordering::Greater
}
// the comparator's contract determines its result, relates every two values, and is transitive
pub open spec fn cmp_total_preorder<T, C: FnMut(&T, &T) -> Ordering>(compare: C) -> bool {
    &&& forall|a: T, b: T, o1: Ordering, o2: Ordering| #![trigger call_ensures(compare, (&a, &b), o1), call_ensures(compare, (&a, &b), o2)]
            call_ensures(compare, (&a, &b), o1) && call_ensures(compare, (&a, &b), o2) ==> o1 == o2
    &&& forall|a: T, b: T| #![trigger cmp_le(compare, a, b)] cmp_le(compare, a, b) || cmp_le(compare, b, a)
    &&& forall|a: T, b: T, c: T| #![trigger cmp_le(compare, a, b), cmp_le(compare, b, c)]
            cmp_le(compare, a, b) && cmp_le(compare, b, c) ==> cmp_le(compare, a, c)
}
// ASSUME[TRUSTED-STD-SORT-BY] <[T]>::sort_by(compare) permutes the slice; for a comparator that is a total preorder the result is ordered by it
pub assume_specification<T, C: FnMut(&T, &T) -> Ordering> [ <[T]>::sort_by ] (s: &mut [T], compare: C)
    requires
        forall|a: &T, b: &T| call_requires(compare, (a, b)),
    ensures
        final(s)@.to_multiset() == old(s)@.to_multiset(),
        final(s)@.len() == old(s)@.len(),
        cmp_total_preorder(compare) ==> forall|i: int, j: int| 0 <= i < j < final(s)@.len() ==> cmp_le(compare, #[trigger] final(s)@[i], #[trigger] final(s)@[j]);
