// ---------------------------------------------------------------------------------------------
// C04/inc/cover_query_defs.rs -- the contract vocabulary of the cover-tree queries, shared text of C04/cover_radius.rs
// (copied from there verbatim: dist_to .. tree_wf, total/counts_ok/cover_ok, lemma_prune and the bookkeeping
// transitions; keep in step) so that C04/cover_knn.rs states CoverTree::find against the SAME tree invariant and
// metric premise as find_radius.  Needs CoverTree/Node (//@struct), C04/inc/cover_defs.rs, prelude/real.rs.
// ---------------------------------------------------------------------------------------------
impl<T: Debug + PartialEq, F: RealNumber, D: Distance<T, F>> CoverTree<T, F, D> {
    // the distance the code evaluates for data point i (stored point first, query second), and
    // "point i lies within the radius" with the code's comparison
    spec fn dist_to(&self, p: &T, i: int) -> F { self.distance.dist_spec(&self.data@[i], p) }
    spec fn within(&self, p: &T, radius: F, i: int) -> bool { le(self.dist_to(p, i), radius) }
    spec fn dist_between(&self, i: int, j: int) -> F { self.distance.dist_spec(&self.data@[i], &self.data@[j]) }

    // ASSUME[A-METRIC-AXIOMS] premise of the contract (not a trusted construct): the triangle inequality, read over the
    // reals (A-REAL), for stored point i, stored point j and the query p, in the orientation the code evaluates distances.
    // Symmetry and non-negativity are not needed: dist(j,j) >= 0 follows from the instance (j, j, p).
    spec fn metric_on(&self, p: &T) -> bool {
        forall|i: int, j: int| 0 <= i < self.data@.len() && 0 <= j < self.data@.len() ==>
            val(self.dist_to(p, i)) <= val(#[trigger] self.dist_between(i, j)) + val(self.dist_to(p, j))
    }

    // ---- the tree invariant find_radius relies on ----
    spec fn node_wf(&self, nd: Node<F>) -> bool
        decreases nd
    {
        // (a) the node's point exists
        &&& nd.idx < self.data@.len()
        // (b) covering: max_dist bounds the distance from the node's point to every point reported below it
        &&& forall|i: int| 0 <= i < self.data@.len() && #[trigger] nl(nd, i) > 0 ==>
                val(self.dist_between(nd.idx as int, i)) <= val(nd.max_dist)
        // (c) nesting: the first child of an inner node carries the node's own point (the code reuses the parent's distance for it)
        &&& nd.children@.len() > 0 ==> nd.children@[0].idx == nd.idx
        // (d) recursively
        &&& forall|c: int| 0 <= c < nd.children@.len() ==> self.node_wf(#[trigger] nd.children@[c])
    }
    // ASSUME[A-COVERTREE-NEW-WF] that CoverTree::new establishes tree_wf is OPEN (construction uses ln/powf/drain; not verified).
    // find_radius is proved relative to it (a `requires`); `witness_two_point_tree` below shows it is satisfiable.
    spec fn tree_wf(&self) -> bool {
        &&& self.node_wf(self.root)
        // the root is an inner node (a root without children is never reported: only children are inspected)
        &&& self.root.children@.len() > 0
        // every data index sits on exactly one leaf
        &&& forall|i: int| 0 <= i < self.data@.len() ==> #[trigger] nl(self.root, i) == 1
        // the field is initialised to false by `new` and never written
        &&& !self.identical_excluded
    }

    // ---- bookkeeping of the level-wise descent ----
    // how often index i is still "in play": reported already (zero), queued for the next level (next), below the
    // children kids[c..] of the node being expanded, or below the not yet expanded entries cs[j..] of this level
    spec fn total(zero: Seq<(F, &Node<F>)>, next: Seq<(F, &Node<F>)>, kids: Seq<Node<F>>, c: int, cs: Seq<(F, &Node<F>)>, j: int, i: int) -> nat {
        nl_cov(zero, 0, zero.len() as int, i) + nl_cov(next, 0, next.len() as int, i)
            + nl_seq(kids, c, kids.len() as int, i) + nl_cov(cs, j, cs.len() as int, i)
    }
    // never twice; exactly once if within the radius
    spec fn counts_ok(&self, p: &T, radius: F, zero: Seq<(F, &Node<F>)>, next: Seq<(F, &Node<F>)>, kids: Seq<Node<F>>, c: int,
                      cs: Seq<(F, &Node<F>)>, j: int) -> bool {
        forall|i: int| 0 <= i < self.data@.len() ==> {
            let t = #[trigger] Self::total(zero, next, kids, c, cs, j, i);
            t <= 1 && (self.within(p, radius, i) ==> t == 1)
        }
    }
    // entries of a cover set: well-formed inner nodes with their true distance, of height <= h
    spec fn cover_ok(&self, p: &T, cs: Seq<(F, &Node<F>)>, h: int) -> bool {
        forall|k: int| 0 <= k < cs.len() ==> {
            let e = #[trigger] cs[k];
            &&& self.node_wf(*e.1)
            &&& e.1.children@.len() > 0
            &&& e.0 == self.dist_to(p, e.1.idx as int)
            &&& height(*e.1) <= h
        }
    }

    // PRUNING SOUNDNESS: a subtree whose root is farther than radius + max_dist holds no point within the radius
    proof fn lemma_prune(&self, p: &T, radius: F, nd: Node<F>, d: F)
        requires
            self.node_wf(nd),
            self.metric_on(p),
            d == self.dist_to(p, nd.idx as int),
            !le(d, radius.add_spec(nd.max_dist)),
        ensures
            forall|i: int| 0 <= i < self.data@.len() && #[trigger] nl(nd, i) > 0 ==> !self.within(p, radius, i), //# pruning-sound
    {
        axiom_real::<F>();
        assert forall|i: int| 0 <= i < self.data@.len() && #[trigger] nl(nd, i) > 0 implies !self.within(p, radius, i) by {
            let m = self.dist_between(nd.idx as int, i);
            assert(val(m) <= val(nd.max_dist));
            assert(val(d) <= val(m) + val(self.dist_to(p, i)));
        }
    }
    // ---- transitions of the bookkeeping ----
    proof fn lemma_expand(&self, p: &T, radius: F, zero: Seq<(F, &Node<F>)>, next: Seq<(F, &Node<F>)>, cs: Seq<(F, &Node<F>)>, j: int)
        requires
            self.counts_ok(p, radius, zero, next, Seq::empty(), 0, cs, j),
            0 <= j < cs.len(),
            cs[j].1.children@.len() > 0,
        ensures
            self.counts_ok(p, radius, zero, next, cs[j].1.children@, 0, cs, j + 1),
    {
        let kids = cs[j].1.children@;
        assert forall|i: int| 0 <= i < self.data@.len() implies ({
            let t = #[trigger] Self::total(zero, next, kids, 0, cs, j + 1, i);
            t <= 1 && (self.within(p, radius, i) ==> t == 1)
        }) by {
            assert(Self::total(zero, next, kids, 0, cs, j + 1, i) == Self::total(zero, next, Seq::empty(), 0, cs, j, i));
        }
    }
    proof fn lemma_child_kept(&self, p: &T, radius: F, zero: Seq<(F, &Node<F>)>, next: Seq<(F, &Node<F>)>, kids: Seq<Node<F>>, c: int,
                              cs: Seq<(F, &Node<F>)>, j: int, x: (F, &Node<F>))
        requires
            self.counts_ok(p, radius, zero, next, kids, c, cs, j),
            0 <= c < kids.len(),
            *x.1 == kids[c],
        ensures
            self.counts_ok(p, radius, zero, next.push(x), kids, c + 1, cs, j),
            self.counts_ok(p, radius, zero.push(x), next, kids, c + 1, cs, j),
    {
        assert forall|i: int| 0 <= i < self.data@.len() implies ({
            let t = #[trigger] Self::total(zero, next.push(x), kids, c + 1, cs, j, i);
            t <= 1 && (self.within(p, radius, i) ==> t == 1)
        }) by {
            lemma_nl_cov_push(next, x, 0, i);
            assert(Self::total(zero, next.push(x), kids, c + 1, cs, j, i) == Self::total(zero, next, kids, c, cs, j, i));
        }
        assert forall|i: int| 0 <= i < self.data@.len() implies ({
            let t = #[trigger] Self::total(zero.push(x), next, kids, c + 1, cs, j, i);
            t <= 1 && (self.within(p, radius, i) ==> t == 1)
        }) by {
            lemma_nl_cov_push(zero, x, 0, i);
            assert(Self::total(zero.push(x), next, kids, c + 1, cs, j, i) == Self::total(zero, next, kids, c, cs, j, i));
        }
    }
    proof fn lemma_child_dropped(&self, p: &T, radius: F, zero: Seq<(F, &Node<F>)>, next: Seq<(F, &Node<F>)>, kids: Seq<Node<F>>, c: int,
                                 cs: Seq<(F, &Node<F>)>, j: int)
        requires
            self.counts_ok(p, radius, zero, next, kids, c, cs, j),
            0 <= c < kids.len(),
            forall|i: int| 0 <= i < self.data@.len() && #[trigger] nl(kids[c], i) > 0 ==> !self.within(p, radius, i),
        ensures
            self.counts_ok(p, radius, zero, next, kids, c + 1, cs, j),
    {
        assert forall|i: int| 0 <= i < self.data@.len() implies ({
            let t = #[trigger] Self::total(zero, next, kids, c + 1, cs, j, i);
            t <= 1 && (self.within(p, radius, i) ==> t == 1)
        }) by {
            assert(Self::total(zero, next, kids, c + 1, cs, j, i) + nl(kids[c], i) == Self::total(zero, next, kids, c, cs, j, i));
        }
    }
    proof fn lemma_kids_done(&self, p: &T, radius: F, zero: Seq<(F, &Node<F>)>, next: Seq<(F, &Node<F>)>, kids: Seq<Node<F>>, cs: Seq<(F, &Node<F>)>, j: int)
        requires
            self.counts_ok(p, radius, zero, next, kids, kids.len() as int, cs, j),
        ensures
            self.counts_ok(p, radius, zero, next, Seq::empty(), 0, cs, j),
    {
        let ek = Seq::<Node<F>>::empty();
        assert forall|i: int| 0 <= i < self.data@.len() implies ({
            let t = #[trigger] Self::total(zero, next, ek, 0, cs, j, i);
            t <= 1 && (self.within(p, radius, i) ==> t == 1)
        }) by {
            assert(Self::total(zero, next, ek, 0, cs, j, i) == Self::total(zero, next, kids, kids.len() as int, cs, j, i));
        }
    }
    proof fn lemma_next_level(&self, p: &T, radius: F, zero: Seq<(F, &Node<F>)>, next: Seq<(F, &Node<F>)>, cs: Seq<(F, &Node<F>)>)
        requires
            self.counts_ok(p, radius, zero, next, Seq::empty(), 0, cs, cs.len() as int),
        ensures
            self.counts_ok(p, radius, zero, Seq::empty(), Seq::empty(), 0, next, 0),
    {
        let e = Seq::<(F, &Node<F>)>::empty();
        let ek = Seq::<Node<F>>::empty();
        assert forall|i: int| 0 <= i < self.data@.len() implies ({
            let t = #[trigger] Self::total(zero, e, ek, 0, next, 0, i);
            t <= 1 && (self.within(p, radius, i) ==> t == 1)
        }) by {
            assert(Self::total(zero, e, ek, 0, next, 0, i) == Self::total(zero, next, ek, 0, cs, cs.len() as int, i));
        }
    }
}
