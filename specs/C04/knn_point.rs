//@unit tier=quick
//@include prelude/uses.rs
verus! {
//@include prelude/realnumber.rs
//@include prelude/order.rs

// the heap element of LinearKNNSearch::find: ordered and compared by distance only
// (re-declared with identical fields but `pub`: Verus requires the fields named in a trait method's contract to be visible)
pub struct KNNPoint<F: RealNumber> {
    pub distance: F,
    pub index: Option<usize>,
}
// the spec-level order/equality of KNNPoint IS that of the distances; the exec methods below are proved to implement it
impl<F: RealNumber> vstd::std_specs::cmp::PartialOrdSpecImpl for KNNPoint<F> {
    open spec fn obeys_partial_cmp_spec() -> bool { F::obeys_partial_cmp_spec() }
    open spec fn partial_cmp_spec(&self, other: &Self) -> Option<Ordering> { self.distance.partial_cmp_spec(&other.distance) }
}
impl<F: RealNumber> vstd::std_specs::cmp::PartialEqSpecImpl for KNNPoint<F> {
    open spec fn obeys_eq_spec() -> bool { F::obeys_eq_spec() }
    open spec fn eq_spec(&self, other: &Self) -> bool { self.distance.eq_spec(&other.distance) }
}

impl<F: RealNumber> PartialOrd for KNNPoint<F> {
//@extract src/algorithm/neighbour/linear_search.rs :: impl<F: RealNumber> PartialOrd for KNNPoint<F> :: partial_cmp :: ret=r
//@spec
        ensures
            F::obeys_partial_cmp_spec() ==> r == self.distance.partial_cmp_spec(&other.distance), //# knnpoint-ordered-by-distance
//@end
}
impl<F: RealNumber> PartialEq for KNNPoint<F> {
//@extract src/algorithm/neighbour/linear_search.rs :: impl<F: RealNumber> PartialEq for KNNPoint<F> :: eq :: ret=r
//@spec
        ensures
            F::obeys_eq_spec() ==> r == self.distance.eq_spec(&other.distance), //# knnpoint-equal-by-distance
//@end
}
} // verus!
fn main() {}
