//@unit tier=quick
// C04 (cover tree construction, leaf): CoverTree::max returns an upper bound of the last recorded distance of every entry
// of the distance set, and that bound is zero or one of those last distances (so: the maximum of zero and the last
// distances; zero for the empty set).  Premises: every entry has at least one recorded distance (the code indexes
// dist[len - 1]); the order is total on zero and the values involved (NaN excluded explicitly).
//@include prelude/uses.rs
use std::fmt::Debug;
verus! {
//@include prelude/realnumber.rs
//@include prelude/order.rs
//@include prelude/total_order.rs
//@include prelude/distance.rs

//@struct src/algorithm/neighbour/cover_tree.rs :: CoverTree
//@struct src/algorithm/neighbour/cover_tree.rs :: Node
//@struct src/algorithm/neighbour/cover_tree.rs :: DistanceSet

spec fn last_of<F: RealNumber>(s: Seq<DistanceSet<F>>, j: int) -> F {
    s[j].dist@[s[j].dist@.len() - 1]
}

spec fn max_dom<F: RealNumber>(s: Seq<DistanceSet<F>>) -> Set<F> {
    Seq::new(s.len(), |j: int| last_of(s, j)).to_set().insert(F::zero_spec())
}

impl<T: Debug + PartialEq, F: RealNumber, D: Distance<T, F>> CoverTree<T, F, D> {
//@extract src/algorithm/neighbour/cover_tree.rs :: impl<T: Debug + PartialEq, F: RealNumber, D: Distance<T, F>> CoverTree<T, F, D> :: max :: ret=r
//@spec
        requires
            forall|j: int| 0 <= j < distance_set@.len() ==> (#[trigger] distance_set@[j]).dist@.len() > 0,
            total_on(max_dom(distance_set@)),
        ensures
            forall|j: int| 0 <= j < distance_set@.len() ==> le(#[trigger] last_of(distance_set@, j), r), //# max-bounds-every-last-distance
            r == F::zero_spec() || exists|j: int| 0 <= j < distance_set@.len() && r == #[trigger] last_of(distance_set@, j), //# max-is-zero-or-one-of-the-last-distances
            distance_set@.len() == 0 ==> r == F::zero_spec(), //# max-of-empty-set-is-zero
//@enter
        proof { F::ops_total(); }
//@loop 1
            invariant
                VERUS_ghost_iter.seq().len() == distance_set@.len(),
                forall|k: int| 0 <= k < distance_set@.len() ==> *(#[trigger] VERUS_ghost_iter.seq()[k]) == distance_set@[k],
                max_dom(distance_set@).contains(max),
                max == F::zero_spec() || exists|j: int| 0 <= j < VERUS_ghost_iter.index@ && max == #[trigger] last_of(distance_set@, j),
                forall|j: int| 0 <= j < VERUS_ghost_iter.index@ ==> le(#[trigger] last_of(distance_set@, j), max),
//@loopbody 1
            let ghost a = VERUS_ghost_iter.index@;
            let ghost max0 = max;
            proof {
                assert(0 <= a < distance_set@.len() && *n == distance_set@[a]);
                let x = last_of(distance_set@, a);
                assert(Seq::new(distance_set@.len(), |j: int| last_of(distance_set@, j))[a] == x);
                assert(max_dom(distance_set@).contains(x));
                lemma_total_not_lt(max_dom(distance_set@), max0, x);
                lemma_total_not_lt(max_dom(distance_set@), x, x);
                assert forall|j: int| 0 <= j < a && lt(max0, x) implies le(#[trigger] last_of(distance_set@, j), x) by {
                    let y = last_of(distance_set@, j);
                    assert(Seq::new(distance_set@.len(), |j: int| last_of(distance_set@, j))[j] == y);
                    assert(max_dom(distance_set@).contains(y));
                    assert(le(y, max0) && le(max0, x));
                }
            }
//@end
}
} // verus!
fn main() {}
