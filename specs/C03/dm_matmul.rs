//@unit tier=quick
//@include prelude/uses.rs
verus! {
//@include prelude/realnumber.rs
//@include prelude/clone.rs
//@include prelude/dm_core.rs

impl<T: RealNumber> DenseMatrix<T> {
    // logical view after an optional transposition
    spec fn at_t(&self, tr: bool, r: int, c: int) -> T { if tr { self.at(c, r) } else { self.at(r, c) } }
    spec fn rows_t(&self, tr: bool) -> int { if tr { self.ncols as int } else { self.nrows as int } }
    spec fn cols_t(&self, tr: bool) -> int { if tr { self.nrows as int } else { self.ncols as int } }

    // sum_{i<n} op(A)[r,i] * op(B)[i,c], accumulated left to right starting from zero
    spec fn dot_rc(&self, ta: bool, other: &Self, tb: bool, r: int, c: int, n: int) -> T
        decreases n
    {
        if n <= 0 { T::zero_spec() }
        else { self.dot_rc(ta, other, tb, r, c, n - 1).add_spec(self.at_t(ta, r, n - 1).mul_spec(other.at_t(tb, n - 1, c))) }
    }
    // sum_{i<n} values[i]*other.values[i]
    spec fn dot_flat(&self, other: &Self, n: int) -> T
        decreases n
    {
        if n <= 0 { T::zero_spec() }
        else { self.dot_flat(other, n - 1).add_spec(self.values[n - 1].mul_spec(other.values[n - 1])) }
    }

    // i-th entry of a row or column vector, on the logical view
    spec fn velem(&self, i: int) -> T { if self.nrows == 1 { self.at(0, i) } else { self.at(i, 0) } }
    spec fn is_vec(&self) -> bool { self.nrows == 1 || self.ncols == 1 }
    spec fn dot_vec(&self, other: &Self, n: int) -> T
        decreases n
    {
        if n <= 0 { T::zero_spec() }
        else { self.dot_vec(other, n - 1).add_spec(self.velem(n - 1).mul_spec(other.velem(n - 1))) }
    }
    proof fn lemma_dot_flat_is_dot_vec(&self, other: &Self, n: int)
        requires self.wf(), other.wf(), self.is_vec(), other.is_vec(), 0 <= n <= self.nrows * self.ncols, n <= other.nrows * other.ncols,
        ensures self.dot_flat(other, n) == self.dot_vec(other, n),
        decreases n
    {
        if n > 0 {
            self.lemma_dot_flat_is_dot_vec(other, n - 1);
            assert(self.nrows * self.ncols == if self.nrows == 1 { self.ncols as int } else { self.nrows as int }) by(nonlinear_arith) requires self.nrows == 1 || self.ncols == 1;
            assert(other.nrows * other.ncols == if other.nrows == 1 { other.ncols as int } else { other.nrows as int }) by(nonlinear_arith) requires other.nrows == 1 || other.ncols == 1;
            assert(self.velem(n - 1) == self.values[n - 1]) by {
                if self.nrows == 1 { assert((n - 1) * 1 + 0 == n - 1); } else { assert(0 * (self.nrows as int) + (n - 1) == n - 1) by(nonlinear_arith); }
            }
            assert(other.velem(n - 1) == other.values[n - 1]) by {
                if other.nrows == 1 { assert((n - 1) * 1 + 0 == n - 1); } else { assert(0 * (other.nrows as int) + (n - 1) == n - 1) by(nonlinear_arith); }
            }
        }
    }

    #[verifier::loop_isolation(false)]
//@extract src/linalg/naive/dense_matrix.rs :: impl<T: RealNumber> BaseMatrix<T> for DenseMatrix<T> :: matmul :: ret=result
//@spec
        requires self.wf(), other.wf(), self.ncols == other.nrows, self.nrows * other.ncols <= usize::MAX,
        ensures result.wf(), result.nrows == self.nrows, result.ncols == other.ncols,
            forall|r: int, c: int| 0 <= r < self.nrows && 0 <= c < other.ncols ==>
                result.at(r, c) == self.dot_rc(false, other, false, r, c, self.ncols as int), //# matmul-is-row-times-column
//@enter
        proof { T::ops_total(); }
//@loop 1
            invariant self.wf(), other.wf(), self.ncols == other.nrows,
                result.wf(), result.nrows == self.nrows, result.ncols == other.ncols,
                forall|r2: int, c2: int| 0 <= r2 < r && 0 <= c2 < other.ncols ==> result.at(r2, c2) == self.dot_rc(false, other, false, r2, c2, self.ncols as int),
//@loop 2
                invariant self.wf(), other.wf(), self.ncols == other.nrows, r < self.nrows,
                    result.wf(), result.nrows == self.nrows, result.ncols == other.ncols,
                    forall|r2: int, c2: int| 0 <= r2 < r && 0 <= c2 < other.ncols ==> result.at(r2, c2) == self.dot_rc(false, other, false, r2, c2, self.ncols as int),
                    forall|c2: int| 0 <= c2 < c ==> result.at(r as int, c2) == self.dot_rc(false, other, false, r as int, c2, self.ncols as int),
//@loop 3
                    invariant self.wf(), other.wf(), self.ncols == other.nrows, r < self.nrows, c < other.ncols,
                        s == self.dot_rc(false, other, false, r as int, c as int, i as int),
//@loopbody 3
                    proof { T::ops_total(); }
//@end

//@extract src/linalg/naive/dense_matrix.rs :: impl<T: RealNumber> HighOrderOperations<T> for DenseMatrix<T> :: ab :: ret=result
//@spec
        requires self.wf(), b.wf(),
            self.cols_t(a_transpose) == b.rows_t(b_transpose),
            self.rows_t(a_transpose) * b.cols_t(b_transpose) <= usize::MAX,
        ensures result.wf(), result.nrows == self.rows_t(a_transpose), result.ncols == b.cols_t(b_transpose),
            // op(A) * op(B) on the logical views, for each of the four flag combinations
            forall|r: int, c: int| 0 <= r < result.nrows && 0 <= c < result.ncols ==>
                result.at(r, c) == self.dot_rc(a_transpose, b, b_transpose, r, c, self.cols_t(a_transpose)), //# ab-applies-transposes-to-logical-view
//@enter
        proof { T::ops_total(); }
//@loop 1
                invariant self.wf(), b.wf(), a_transpose || b_transpose,
                    d1 == self.cols_t(a_transpose), d2 == self.rows_t(a_transpose), d3 == b.cols_t(b_transpose), d4 == b.rows_t(b_transpose), d1 == d4,
                    result.wf(), result.nrows == d2, result.ncols == d3,
                    forall|r2: int, c2: int| 0 <= r2 < r && 0 <= c2 < d3 ==> result.at(r2, c2) == self.dot_rc(a_transpose, b, b_transpose, r2, c2, d1 as int),
//@loop 2
                    invariant self.wf(), b.wf(), a_transpose || b_transpose, r < d2,
                        d1 == self.cols_t(a_transpose), d2 == self.rows_t(a_transpose), d3 == b.cols_t(b_transpose), d4 == b.rows_t(b_transpose), d1 == d4,
                        result.wf(), result.nrows == d2, result.ncols == d3,
                        forall|r2: int, c2: int| 0 <= r2 < r && 0 <= c2 < d3 ==> result.at(r2, c2) == self.dot_rc(a_transpose, b, b_transpose, r2, c2, d1 as int),
                        forall|c2: int| 0 <= c2 < c ==> result.at(r as int, c2) == self.dot_rc(a_transpose, b, b_transpose, r as int, c2, d1 as int),
//@loop 3
                        invariant self.wf(), b.wf(), a_transpose || b_transpose, r < d2, c < d3,
                            d1 == self.cols_t(a_transpose), d2 == self.rows_t(a_transpose), d3 == b.cols_t(b_transpose), d4 == b.rows_t(b_transpose), d1 == d4,
                            s == self.dot_rc(a_transpose, b, b_transpose, r as int, c as int, i as int),
//@loopbody 3
                        proof { T::ops_total(); }
//@end

//@extract src/linalg/naive/dense_matrix.rs :: impl<T: RealNumber> BaseMatrix<T> for DenseMatrix<T> :: dot :: ret=result
//@spec
        requires self.wf(), other.wf(),
            !((self.nrows != 1 && other.nrows != 1) && (self.ncols != 1 && other.ncols != 1)),
            self.nrows * self.ncols == other.nrows * other.ncols,
        ensures result == self.dot_flat(other, self.nrows * self.ncols), //# dot-is-sum-of-products-in-storage-order
            // for genuine row/column vectors (any orientation mix) this is the logical dot product
            self.is_vec() && other.is_vec() ==> result == self.dot_vec(other, self.nrows * self.ncols), //# dot-is-logical-dot-product
//@enter
        proof { T::ops_total(); if self.is_vec() && other.is_vec() { self.lemma_dot_flat_is_dot_vec(other, self.nrows * self.ncols); } }
//@loop 1
            invariant self.wf(), other.wf(), self.nrows * self.ncols == other.nrows * other.ncols,
                result == self.dot_flat(other, i as int),
//@loopbody 1
            proof { T::ops_total(); }
//@end
}
} // verus!
fn main() {}
