//@unit tier=quick
// Discharges the trait-level contract that GENERIC callers (KMeans, DBSCAN, Mahalanobis, ...) are verified against
// (prelude/matrix_abs2.rs, assumption A-MATRIX-TRAIT / A-MATRIX-TRAIT2) for the built-in backend:
// `impl Matrix<T> for DenseMatrix<T>` with the method text extracted from /repo must satisfy it.
// get_row_as_vec / copy_row_as_vec iterate with `.iter_mut().enumerate()` (not Verus units): they stay assumed here
// (A-MATRIX-TRAIT2-ROWS) and are covered by the bounded Kani harnesses of C03.
//@include prelude/uses.rs
verus! {
//@include prelude/realnumber.rs
//@include prelude/clone.rs
//@include prelude/basevector.rs
//@include prelude/matrix_abs2.rs
//@include prelude/dm_core.rs

impl<T: RealNumber> BaseVector<T> for Vec<T> {
    open spec fn vview(&self) -> Seq<T> { self@ }
//@extract src/linalg/naive/dense_matrix.rs :: impl<T: RealNumber> BaseVector<T> for Vec<T> :: get
//@end
//@extract src/linalg/naive/dense_matrix.rs :: impl<T: RealNumber> BaseVector<T> for Vec<T> :: set
//@end
//@extract src/linalg/naive/dense_matrix.rs :: impl<T: RealNumber> BaseVector<T> for Vec<T> :: len
//@end
//@extract src/linalg/naive/dense_matrix.rs :: impl<T: RealNumber> BaseVector<T> for Vec<T> :: to_vec
//@enter
        broadcast use axiom_clone_realnumber;
//@end
//@extract src/linalg/naive/dense_matrix.rs :: impl<T: RealNumber> BaseVector<T> for Vec<T> :: zeros
//@enter
        broadcast use axiom_clone_realnumber;
//@end
}

impl<T: RealNumber> Matrix<T> for DenseMatrix<T> {
    type RowVector = Vec<T>;
    closed spec fn mwf(&self) -> bool { self.wf() && self.nrows * self.ncols <= usize::MAX }
    closed spec fn nrows_spec(&self) -> int { self.nrows as int }
    closed spec fn ncols_spec(&self) -> int { self.ncols as int }
    closed spec fn at(&self, r: int, c: int) -> T { DenseMatrix::<T>::at(self, r, c) }   // the inherent representation function of dm_core.rs

//@extract src/linalg/naive/dense_matrix.rs :: impl<T: RealNumber> BaseMatrix<T> for DenseMatrix<T> :: get
//@enter
        proof { lemma_idx(row as int, col as int, self.nrows as int, self.ncols as int); }
//@end
//@extract src/linalg/naive/dense_matrix.rs :: impl<T: RealNumber> BaseMatrix<T> for DenseMatrix<T> :: shape
//@end
//@extract src/linalg/naive/dense_matrix.rs :: impl<T: RealNumber> BaseMatrix<T> for DenseMatrix<T> :: zeros
//@end
//@extract src/linalg/naive/dense_matrix.rs :: impl<T: RealNumber> BaseMatrix<T> for DenseMatrix<T> :: set
//@enter
        proof { lemma_idx(row as int, col as int, self.nrows as int, self.ncols as int); }
        let ghost pre = *self;
//@exit
        proof {
            assert forall|r: int, c: int| 0 <= r < pre.nrows && 0 <= c < pre.ncols && !(r == row && c == col)
                implies #[trigger] DenseMatrix::<T>::at(self, r, c) == DenseMatrix::<T>::at(&pre, r, c) by {
                if c * pre.nrows + r == col * pre.nrows + row { lemma_idx_inj(r, c, row as int, col as int, pre.nrows as int); }
                lemma_idx(r, c, pre.nrows as int, pre.ncols as int);
            }
        }
//@end
//@extract src/linalg/naive/dense_matrix.rs :: impl<T: RealNumber> BaseMatrix<T> for DenseMatrix<T> :: to_row_vector
//@enter
        broadcast use axiom_clone_realnumber;
        proof { assert(self.nrows * self.ncols == self.ncols) by(nonlinear_arith) requires self.nrows == 1; }
//@loop 1
            invariant self.wf(), self.nrows == 1, v.len() == self.ncols,
                forall|c2: int| 0 <= c2 < self.ncols && r >= 1 ==> v[c2] == self.values[c2 * self.nrows + 0],
//@loop 2
                invariant self.wf(), self.nrows == 1, v.len() == self.ncols, r == 0,
                    forall|c2: int| 0 <= c2 < c ==> v[c2] == self.values[c2 * self.nrows + 0],
//@loopbody 2
                proof { assert(r * self.ncols + c == c) by(nonlinear_arith) requires r == 0; }
//@end

    // ASSUME[A-MATRIX-TRAIT2-ROWS] get_row_as_vec / copy_row_as_vec of DenseMatrix return the logical row (bodies use .enumerate(): bounded Kani harness, C03)
    #[verifier::external_body]
    fn get_row_as_vec(&self, row: usize) -> Vec<T> { unimplemented!() }
    // ASSUME[A-MATRIX-TRAIT2-ROWS]
    #[verifier::external_body]
    fn copy_row_as_vec(&self, row: usize, result: &mut Vec<T>) { unimplemented!() }
}
} // verus!
fn main() {}
