//@unit tier=quick rlimit=60 canary_includes=no
// cov(): sample covariance of the columns, relative to the contract of column_mean() (which uses
// `.iter_mut().enumerate()` and is therefore not a Verus unit: assumed here, bounded Kani harness planned).
//@include prelude/uses.rs
verus! {
//@include prelude/realnumber.rs
//@include prelude/clone.rs
//@include prelude/dm_core.rs
//@include C03/inc/dm_elementwise_fns.rs

impl<T: RealNumber> DenseMatrix<T> {
    // column mean as the code computes it: left fold of the column, divided by from(nrows)
    spec fn colsum(&self, c: int, n: int) -> T decreases n {
        if n <= 0 { T::zero_spec() } else { self.colsum(c, n - 1).add_spec(self.at(n - 1, c)) }
    }
    spec fn colmean(&self, c: int) -> T { self.colsum(c, self.nrows as int).div_spec(T::from_spec::<usize>(self.nrows)) }

//@checkdecl src/linalg/mod.rs :: pub trait BaseMatrix<T: RealNumber>: Clone + Debug :: column_mean :: fn column_mean(&self) -> Vec<T>
    // ASSUME[A-COLUMN-MEAN] column_mean() returns, per column, the left-fold sum of the column divided by from(nrows)
    #[verifier::external_body]
    fn column_mean(&self) -> (mu: Vec<T>)
        requires self.wf(),
        ensures mu@.len() == self.ncols, forall|c: int| 0 <= c < self.ncols ==> #[trigger] mu@[c] == self.colmean(c),
    { unimplemented!() }

    // sum_{k<n} (x[k,i]-mu[i]) * (x[k,j]-mu[j]), accumulated in row order
    spec fn cross(&self, mu: Seq<T>, i: int, j: int, n: int) -> T decreases n {
        if n <= 0 { T::zero_spec() }
        else { self.cross(mu, i, j, n - 1).add_spec(self.at(n - 1, i).sub_spec(mu[i]).mul_spec(self.at(n - 1, j).sub_spec(mu[j]))) }
    }
    spec fn mu_seq(&self) -> Seq<T> { Seq::new(self.ncols as nat, |c: int| self.colmean(c)) }

//@extract src/linalg/naive/dense_matrix.rs :: impl<T: RealNumber> BaseMatrix<T> for DenseMatrix<T> :: cov :: ret=cov
//@spec
        requires self.wf(), self.nrows >= 1, self.ncols * self.ncols <= usize::MAX,
        ensures cov.wf(), cov.nrows == self.ncols, cov.ncols == self.ncols,
            // lower triangle incl. diagonal: the cross-product sum over all rows divided by from(nrows - 1) ...
            forall|i: int, j: int| 0 <= j <= i < self.ncols ==>
                cov.at(i, j) == self.cross(self.mu_seq(), i, j, self.nrows as int).div_spec(T::from_spec::<usize>((self.nrows - 1) as usize)), //# cov-lower-triangle-is-centered-cross-product-over-n-minus-1
            // ... mirrored into the upper triangle
            forall|i: int, j: int| 0 <= j <= i < self.ncols ==> cov.at(j, i) == cov.at(i, j), //# cov-is-symmetric
//@enter
        proof { T::ops_total(); }
        let ghost mus = self.mu_seq();
//@loop 1
            invariant self.wf(), m == self.nrows, n == self.ncols, mu@ =~= mus, mus.len() == n, cov.wf(), cov.nrows == n, cov.ncols == n,
                forall|i2: int, j2: int| 0 <= j2 <= i2 < n ==> cov.at(i2, j2) == self.cross(mus, i2, j2, k as int),
                forall|i2: int, j2: int| 0 <= i2 < j2 < n ==> cov.at(i2, j2) == T::zero_spec(),
//@loop 2
                invariant self.wf(), m == self.nrows, n == self.ncols, mu@ == mus, mus.len() == n, cov.wf(), cov.nrows == n, cov.ncols == n, k < m,
                    forall|i2: int, j2: int| 0 <= j2 <= i2 < n && i2 < i ==> cov.at(i2, j2) == self.cross(mus, i2, j2, k as int + 1),
                    forall|i2: int, j2: int| 0 <= j2 <= i2 < n && i2 >= i ==> cov.at(i2, j2) == self.cross(mus, i2, j2, k as int),
                    forall|i2: int, j2: int| 0 <= i2 < j2 < n ==> cov.at(i2, j2) == T::zero_spec(),
//@loop 3
                    invariant self.wf(), m == self.nrows, n == self.ncols, mu@ == mus, mus.len() == n, cov.wf(), cov.nrows == n, cov.ncols == n, k < m, i < n,
                        forall|i2: int, j2: int| 0 <= j2 <= i2 < n && i2 < i ==> cov.at(i2, j2) == self.cross(mus, i2, j2, k as int + 1),
                        forall|i2: int, j2: int| 0 <= j2 <= i2 < n && i2 > i ==> cov.at(i2, j2) == self.cross(mus, i2, j2, k as int),
                        forall|j2: int| 0 <= j2 <= i && j2 < j ==> cov.at(i as int, j2) == self.cross(mus, i as int, j2, k as int + 1),
                        forall|j2: int| 0 <= j2 <= i && j2 >= j ==> cov.at(i as int, j2) == self.cross(mus, i as int, j2, k as int),
                        forall|i2: int, j2: int| 0 <= i2 < j2 < n ==> cov.at(i2, j2) == T::zero_spec(),
//@loopbody 3
                    proof { T::ops_total(); }
//@loop 4
            invariant self.wf(), m == self.nrows, n == self.ncols, cov.wf(), cov.nrows == n, cov.ncols == n,
                m_t == T::from_spec::<usize>((self.nrows - 1) as usize),
                forall|i2: int, j2: int| 0 <= j2 <= i2 < n && i2 < i ==> cov.at(i2, j2) == self.cross(mus, i2, j2, m as int).div_spec(m_t),
                forall|i2: int, j2: int| 0 <= j2 <= i2 < n && i2 < i ==> cov.at(j2, i2) == cov.at(i2, j2),
                forall|i2: int, j2: int| 0 <= j2 <= i2 < n && i2 >= i ==> cov.at(i2, j2) == self.cross(mus, i2, j2, m as int),
//@loop 5
                invariant self.wf(), m == self.nrows, n == self.ncols, cov.wf(), cov.nrows == n, cov.ncols == n, i < n,
                    m_t == T::from_spec::<usize>((self.nrows - 1) as usize),
                    forall|i2: int, j2: int| 0 <= j2 <= i2 < n && i2 < i ==> cov.at(i2, j2) == self.cross(mus, i2, j2, m as int).div_spec(m_t),
                    forall|i2: int, j2: int| 0 <= j2 <= i2 < n && i2 < i ==> cov.at(j2, i2) == cov.at(i2, j2),
                    forall|i2: int, j2: int| 0 <= j2 <= i2 < n && i2 > i ==> cov.at(i2, j2) == self.cross(mus, i2, j2, m as int),
                    forall|j2: int| 0 <= j2 <= i && j2 < j ==> cov.at(i as int, j2) == self.cross(mus, i as int, j2, m as int).div_spec(m_t),
                    forall|j2: int| 0 <= j2 <= i && j2 < j ==> cov.at(j2, i as int) == cov.at(i as int, j2),
                    forall|j2: int| 0 <= j2 <= i && j2 >= j ==> cov.at(i as int, j2) == self.cross(mus, i as int, j2, m as int),
//@end
}
} // verus!
fn main() {}
