//@unit tier=quick canary_includes=no
// Copying counterparts (default methods of trait BaseMatrix in src/linalg/mod.rs) == clone + in-place variant:
// "each in-place variant produces the same result as its copying counterpart".
//@include prelude/uses.rs
verus! {
//@include prelude/realnumber.rs
//@include prelude/clone.rs
//@include prelude/dm_core.rs
//@include C03/inc/dm_elementwise_fns.rs
//@include C03/inc/dm_unary_fns.rs

impl<T: RealNumber> DenseMatrix<T> {
    pub closed spec fn repr(&self) -> (usize, usize, Seq<T>) { (self.nrows, self.ncols, self.values@) }
}
// ASSUME[A-CLONE-DERIVE] #[derive(Clone)] on DenseMatrix clones field by field (nrows, ncols, values; T's clone is the identity: A-CLONE)
impl<T: RealNumber> Clone for DenseMatrix<T> {
    #[verifier::external_body]
    fn clone(&self) -> (r: Self)
        ensures r.repr() == self.repr()
    { unimplemented!() }
}

impl<T: RealNumber> DenseMatrix<T> {
//@extract src/linalg/mod.rs :: pub trait BaseMatrix<T: RealNumber>: Clone + Debug :: add :: ret=r
//@spec
        requires self.wf(), other.wf(), self.nrows == other.nrows, self.ncols == other.ncols,
        ensures r.wf(), r.nrows == self.nrows, r.ncols == self.ncols,
            forall|i: int, j: int| 0 <= i < self.nrows && 0 <= j < self.ncols ==> r.at(i, j) == self.at(i, j).add_spec(other.at(i, j)), //# add-is-cellwise-sum-of-a-copy
//@end
//@extract src/linalg/mod.rs :: pub trait BaseMatrix<T: RealNumber>: Clone + Debug :: sub :: ret=r
//@spec
        requires self.wf(), other.wf(), self.nrows == other.nrows, self.ncols == other.ncols,
        ensures r.wf(), r.nrows == self.nrows, r.ncols == self.ncols,
            forall|i: int, j: int| 0 <= i < self.nrows && 0 <= j < self.ncols ==> r.at(i, j) == self.at(i, j).sub_spec(other.at(i, j)), //# sub-is-cellwise-difference-of-a-copy
//@end
//@extract src/linalg/mod.rs :: pub trait BaseMatrix<T: RealNumber>: Clone + Debug :: mul :: ret=r
//@spec
        requires self.wf(), other.wf(), self.nrows == other.nrows, self.ncols == other.ncols,
        ensures r.wf(), r.nrows == self.nrows, r.ncols == self.ncols,
            forall|i: int, j: int| 0 <= i < self.nrows && 0 <= j < self.ncols ==> r.at(i, j) == self.at(i, j).mul_spec(other.at(i, j)), //# mul-is-cellwise-product-of-a-copy
//@end
//@extract src/linalg/mod.rs :: pub trait BaseMatrix<T: RealNumber>: Clone + Debug :: div :: ret=r
//@spec
        requires self.wf(), other.wf(), self.nrows == other.nrows, self.ncols == other.ncols,
        ensures r.wf(), r.nrows == self.nrows, r.ncols == self.ncols,
            forall|i: int, j: int| 0 <= i < self.nrows && 0 <= j < self.ncols ==> r.at(i, j) == self.at(i, j).div_spec(other.at(i, j)), //# div-is-cellwise-quotient-of-a-copy
//@end
//@extract src/linalg/mod.rs :: pub trait BaseMatrix<T: RealNumber>: Clone + Debug :: add_scalar :: ret=r
//@spec
        requires self.wf(),
        ensures r.wf(), r.nrows == self.nrows, r.ncols == self.ncols,
            forall|i: int, j: int| 0 <= i < self.nrows && 0 <= j < self.ncols ==> r.at(i, j) == self.at(i, j).add_spec(scalar),
//@end
//@extract src/linalg/mod.rs :: pub trait BaseMatrix<T: RealNumber>: Clone + Debug :: sub_scalar :: ret=r
//@spec
        requires self.wf(),
        ensures r.wf(), r.nrows == self.nrows, r.ncols == self.ncols,
            forall|i: int, j: int| 0 <= i < self.nrows && 0 <= j < self.ncols ==> r.at(i, j) == self.at(i, j).sub_spec(scalar),
//@end
//@extract src/linalg/mod.rs :: pub trait BaseMatrix<T: RealNumber>: Clone + Debug :: mul_scalar :: ret=r
//@spec
        requires self.wf(),
        ensures r.wf(), r.nrows == self.nrows, r.ncols == self.ncols,
            forall|i: int, j: int| 0 <= i < self.nrows && 0 <= j < self.ncols ==> r.at(i, j) == self.at(i, j).mul_spec(scalar),
//@end
//@extract src/linalg/mod.rs :: pub trait BaseMatrix<T: RealNumber>: Clone + Debug :: div_scalar :: ret=r
//@spec
        requires self.wf(),
        ensures r.wf(), r.nrows == self.nrows, r.ncols == self.ncols,
            forall|i: int, j: int| 0 <= i < self.nrows && 0 <= j < self.ncols ==> r.at(i, j) == self.at(i, j).div_spec(scalar),
//@end
//@extract src/linalg/mod.rs :: pub trait BaseMatrix<T: RealNumber>: Clone + Debug :: negative :: ret=r
//@spec
        requires self.wf(),
        ensures r.wf(), r.nrows == self.nrows, r.ncols == self.ncols,
            forall|i: int, j: int| 0 <= i < self.nrows && 0 <= j < self.ncols ==> r.at(i, j) == self.at(i, j).neg_spec(), //# negative-is-cellwise-negation-of-a-copy
//@end
//@extract src/linalg/mod.rs :: pub trait BaseMatrix<T: RealNumber>: Clone + Debug :: abs :: ret=r
//@spec
        requires self.wf(),
        ensures r.wf(), r.nrows == self.nrows, r.ncols == self.ncols,
            forall|i: int, j: int| 0 <= i < self.nrows && 0 <= j < self.ncols ==> r.at(i, j) == self.at(i, j).abs_spec(), //# abs-is-cellwise-abs-of-a-copy
//@end
//@extract src/linalg/mod.rs :: pub trait BaseMatrix<T: RealNumber>: Clone + Debug :: pow :: ret=r
//@spec
        requires old(self).wf(),
        ensures r.wf(), r.nrows == old(self).nrows, r.ncols == old(self).ncols,
            forall|i: int, j: int| 0 <= i < old(self).nrows && 0 <= j < old(self).ncols ==> r.at(i, j) == old(self).at(i, j).powf_spec(p), //# pow-is-cellwise-power-of-a-copy
//@end
}
} // verus!
fn main() {}
