//@unit tier=quick
//@include prelude/uses.rs
verus! {
//@include prelude/realnumber.rs
//@include prelude/clone.rs
//@include prelude/dm_core.rs

impl<T: RealNumber> DenseMatrix<T> {

//@extract src/linalg/naive/dense_matrix.rs :: impl<T: RealNumber> BaseMatrix<T> for DenseMatrix<T> :: transpose :: ret=m
//@spec
        requires self.wf(),
        ensures m.wf(), m.nrows == self.ncols, m.ncols == self.nrows,
            forall|r: int, c: int| 0 <= r < self.nrows && 0 <= c < self.ncols ==> m.at(c, r) == self.at(r, c), //# transpose-swaps-indices
//@enter
        broadcast use axiom_clone_realnumber;
        proof { assert(self.ncols * self.nrows == self.nrows * self.ncols) by(nonlinear_arith); }
//@loop 1
            invariant self.wf(), m.wf(), m.nrows == self.ncols, m.ncols == self.nrows,
                forall|r2: int, c2: int| 0 <= r2 < self.nrows && 0 <= c2 < c ==> m.at(c2, r2) == self.at(r2, c2),
//@loop 2
                invariant self.wf(), m.wf(), m.nrows == self.ncols, m.ncols == self.nrows, c < self.ncols,
                    forall|r2: int, c2: int| 0 <= r2 < self.nrows && 0 <= c2 < c ==> m.at(c2, r2) == self.at(r2, c2),
                    forall|r2: int| 0 <= r2 < r ==> m.at(c as int, r2) == self.at(r2, c as int),
//@end

//@extract src/linalg/naive/dense_matrix.rs :: impl<T: RealNumber> BaseMatrix<T> for DenseMatrix<T> :: v_stack :: ret=result
//@spec
        requires self.wf(), other.wf(), self.ncols == other.ncols,
            (self.nrows + other.nrows) * self.ncols <= usize::MAX, self.nrows + other.nrows <= usize::MAX,
        ensures result.wf(), result.nrows == self.nrows + other.nrows, result.ncols == self.ncols,
            forall|r: int, c: int| 0 <= r < self.nrows && 0 <= c < self.ncols ==> result.at(r, c) == self.at(r, c), //# v_stack-top-block
            forall|r: int, c: int| 0 <= r < other.nrows && 0 <= c < self.ncols ==> result.at(self.nrows + r, c) == other.at(r, c), //# v_stack-bottom-block
//@loop 1
            invariant self.wf(), other.wf(), self.ncols == other.ncols, self.nrows + other.nrows <= usize::MAX,
                result.wf(), result.nrows == self.nrows + other.nrows, result.ncols == self.ncols,
                forall|r2: int, c2: int| 0 <= r2 < self.nrows && 0 <= c2 < c ==> result.at(r2, c2) == self.at(r2, c2),
                forall|r2: int, c2: int| 0 <= r2 < other.nrows && 0 <= c2 < c ==> result.at(self.nrows + r2, c2) == other.at(r2, c2),
//@loop 2
                invariant self.wf(), other.wf(), self.ncols == other.ncols, self.nrows + other.nrows <= usize::MAX, c < self.ncols,
                    result.wf(), result.nrows == self.nrows + other.nrows, result.ncols == self.ncols,
                    forall|r2: int, c2: int| 0 <= r2 < self.nrows && 0 <= c2 < c ==> result.at(r2, c2) == self.at(r2, c2),
                    forall|r2: int, c2: int| 0 <= r2 < other.nrows && 0 <= c2 < c ==> result.at(self.nrows + r2, c2) == other.at(r2, c2),
                    forall|r2: int| 0 <= r2 < self.nrows && r2 < r ==> result.at(r2, c as int) == self.at(r2, c as int),
                    forall|r2: int| 0 <= r2 < other.nrows && self.nrows + r2 < r ==> result.at(self.nrows + r2, c as int) == other.at(r2, c as int),
//@end

//@extract src/linalg/naive/dense_matrix.rs :: impl<T: RealNumber> BaseMatrix<T> for DenseMatrix<T> :: h_stack :: ret=result
//@spec
        requires self.wf(), other.wf(), self.nrows == other.nrows,
            self.nrows * (self.ncols + other.ncols) <= usize::MAX, self.ncols + other.ncols <= usize::MAX,
        ensures result.wf(), result.nrows == self.nrows, result.ncols == self.ncols + other.ncols,
            forall|r: int, c: int| 0 <= r < self.nrows && 0 <= c < self.ncols ==> result.at(r, c) == self.at(r, c), //# h_stack-left-block
            forall|r: int, c: int| 0 <= r < self.nrows && 0 <= c < other.ncols ==> result.at(r, self.ncols + c) == other.at(r, c), //# h_stack-right-block
//@loop 1
            invariant self.wf(), other.wf(), self.nrows == other.nrows, self.ncols + other.ncols <= usize::MAX,
                result.wf(), result.nrows == self.nrows, result.ncols == self.ncols + other.ncols,
                forall|r2: int, c2: int| 0 <= r2 < r && 0 <= c2 < self.ncols ==> result.at(r2, c2) == self.at(r2, c2),
                forall|r2: int, c2: int| 0 <= r2 < r && 0 <= c2 < other.ncols ==> result.at(r2, self.ncols + c2) == other.at(r2, c2),
//@loop 2
                invariant self.wf(), other.wf(), self.nrows == other.nrows, self.ncols + other.ncols <= usize::MAX, r < self.nrows,
                    result.wf(), result.nrows == self.nrows, result.ncols == self.ncols + other.ncols,
                    forall|r2: int, c2: int| 0 <= r2 < r && 0 <= c2 < self.ncols ==> result.at(r2, c2) == self.at(r2, c2),
                    forall|r2: int, c2: int| 0 <= r2 < r && 0 <= c2 < other.ncols ==> result.at(r2, self.ncols + c2) == other.at(r2, c2),
                    forall|c2: int| 0 <= c2 < self.ncols && c2 < c ==> result.at(r as int, c2) == self.at(r as int, c2),
                    forall|c2: int| 0 <= c2 < other.ncols && self.ncols + c2 < c ==> result.at(r as int, self.ncols + c2) == other.at(r as int, c2),
//@end

//@extract src/linalg/naive/dense_matrix.rs :: impl<T: RealNumber> BaseMatrix<T> for DenseMatrix<T> :: eye :: ret=matrix
//@spec
        requires size * size <= usize::MAX,
        ensures matrix.wf(), matrix.nrows == size, matrix.ncols == size,
            forall|r: int, c: int| 0 <= r < size && 0 <= c < size ==>
                matrix.at(r, c) == (if r == c { T::one_spec() } else { T::zero_spec() }), //# eye-is-identity
//@loop 1
            invariant matrix.wf(), matrix.nrows == size, matrix.ncols == size,
                forall|r: int, c: int| 0 <= r < size && 0 <= c < size ==>
                    matrix.at(r, c) == (if r == c && r < i { T::one_spec() } else { T::zero_spec() }),
//@end
}
} // verus!
fn main() {}
