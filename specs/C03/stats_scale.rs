//@unit tier=quick
// MatrixStats::scale_mut and MatrixPreprocessing::binarize_mut: default methods written only against the matrix trait
// (get / set / shape); verified once, for EVERY backend that satisfies the abstract trait contract (prelude/matrix_abs2.rs,
// discharged for DenseMatrix in C03/dm_as_matrix_trait).  mean/var/std(axis) use `.iter_mut().enumerate()`: not Verus units.
//@include prelude/uses.rs
verus! {
//@include prelude/realnumber.rs
//@include prelude/order.rs
//@include prelude/basevector.rs
//@include prelude/matrix_abs2.rs

pub trait MatrixStats<T: RealNumber>: Matrix<T> {
#[verifier::loop_isolation(false)]
//@extract src/linalg/stats.rs :: pub trait MatrixStats<T: RealNumber>: BaseMatrix<T> :: scale_mut
//@spec
        requires
            old(self).mwf(),
            axis == 0 ==> mean@.len() == old(self).ncols_spec() && std@.len() == old(self).ncols_spec(),
            axis != 0 ==> mean@.len() == old(self).nrows_spec() && std@.len() == old(self).nrows_spec(),
        ensures
            final(self).mwf(), final(self).nrows_spec() == old(self).nrows_spec(), final(self).ncols_spec() == old(self).ncols_spec(),
            // axis 0: every column c is centred with mean[c] and scaled with std[c]; any other axis: every row likewise
            axis == 0 ==> forall|r: int, c: int| 0 <= r < old(self).nrows_spec() && 0 <= c < old(self).ncols_spec() ==>
                #[trigger] final(self).at(r, c) == old(self).at(r, c).sub_spec(mean@[c]).div_spec(std@[c]), //# scale_mut-axis0-standardises-columns
            axis != 0 ==> forall|r: int, c: int| 0 <= r < old(self).nrows_spec() && 0 <= c < old(self).ncols_spec() ==>
                #[trigger] final(self).at(r, c) == old(self).at(r, c).sub_spec(mean@[r]).div_spec(std@[r]), //# scale_mut-axis1-standardises-rows
//@enter
        proof { T::ops_total(); }
//@loop 1
            invariant
                self.mwf(), self.nrows_spec() == old(self).nrows_spec(), self.ncols_spec() == old(self).ncols_spec(),
                axis == 0 ==> n == self.ncols_spec() && m == self.nrows_spec(),
                axis != 0 ==> n == self.nrows_spec() && m == self.ncols_spec(),
                // lines (columns for axis 0, rows otherwise) before i are done, the others untouched
                axis == 0 ==> forall|r: int, c: int| 0 <= r < m && 0 <= c < n ==>
                    #[trigger] self.at(r, c) == (if c < i { old(self).at(r, c).sub_spec(mean@[c]).div_spec(std@[c]) } else { old(self).at(r, c) }),
                axis != 0 ==> forall|r: int, c: int| 0 <= r < n && 0 <= c < m ==>
                    #[trigger] self.at(r, c) == (if r < i { old(self).at(r, c).sub_spec(mean@[r]).div_spec(std@[r]) } else { old(self).at(r, c) }),
//@loop 2
                invariant
                    self.mwf(), self.nrows_spec() == old(self).nrows_spec(), self.ncols_spec() == old(self).ncols_spec(), i < n,
                    VERUS_ghost_iter.iter.end == m,
                    axis == 0 ==> n == self.ncols_spec() && m == self.nrows_spec(),
                    axis != 0 ==> n == self.nrows_spec() && m == self.ncols_spec(),
                    axis == 0 ==> forall|r: int, c: int| 0 <= r < m && 0 <= c < n ==>
                        #[trigger] self.at(r, c) == (if c < i || (c == i && r < j) { old(self).at(r, c).sub_spec(mean@[c]).div_spec(std@[c]) } else { old(self).at(r, c) }),
                    axis != 0 ==> forall|r: int, c: int| 0 <= r < n && 0 <= c < m ==>
                        #[trigger] self.at(r, c) == (if r < i || (r == i && c < j) { old(self).at(r, c).sub_spec(mean@[r]).div_spec(std@[r]) } else { old(self).at(r, c) }),
//@loopbody 2
                proof { T::ops_total(); }
//@end
}

pub trait MatrixPreprocessing<T: RealNumber>: Matrix<T> {
#[verifier::loop_isolation(false)]
//@extract src/linalg/stats.rs :: pub trait MatrixPreprocessing<T: RealNumber>: BaseMatrix<T> :: binarize_mut
//@spec
        requires old(self).mwf(),
        ensures
            final(self).mwf(), final(self).nrows_spec() == old(self).nrows_spec(), final(self).ncols_spec() == old(self).ncols_spec(),
            forall|r: int, c: int| 0 <= r < old(self).nrows_spec() && 0 <= c < old(self).ncols_spec() ==>
                #[trigger] final(self).at(r, c) == (if gt(old(self).at(r, c), threshold) { T::one_spec() } else { T::zero_spec() }), //# binarize_mut-thresholds-every-cell
//@enter
        proof { T::ops_total(); }
//@loop 1
            invariant
                self.mwf(), self.nrows_spec() == old(self).nrows_spec(), self.ncols_spec() == old(self).ncols_spec(),
                nrows == self.nrows_spec(), ncols == self.ncols_spec(),
                forall|r: int, c: int| 0 <= r < nrows && 0 <= c < ncols ==>
                    #[trigger] self.at(r, c) == (if r < row { if gt(old(self).at(r, c), threshold) { T::one_spec() } else { T::zero_spec() } } else { old(self).at(r, c) }),
//@loop 2
                invariant
                    self.mwf(), self.nrows_spec() == old(self).nrows_spec(), self.ncols_spec() == old(self).ncols_spec(),
                    nrows == self.nrows_spec(), ncols == self.ncols_spec(), row < nrows,
                    VERUS_ghost_iter.iter.end == ncols,
                    forall|r: int, c: int| 0 <= r < nrows && 0 <= c < ncols ==>
                        #[trigger] self.at(r, c) == (if r < row || (r == row && c < col) { if gt(old(self).at(r, c), threshold) { T::one_spec() } else { T::zero_spec() } } else { old(self).at(r, c) }),
//@loopbody 2
                proof { T::ops_total(); }
//@end
}
} // verus!
fn main() {}
