//@unit tier=quick canary_includes=yes
//@include prelude/uses.rs
verus! {
//@include prelude/realnumber.rs
//@include prelude/clone.rs
//@include prelude/dm_core.rs

//@include C03/inc/dm_elementwise_fns.rs
} // verus!
fn main() {}
