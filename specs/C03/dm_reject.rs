//@unit tier=quick
// Rejection variants (X5): with operands of incompatible shape these functions never return normally.
//@include prelude/uses.rs
verus! {
//@include prelude/realnumber.rs
//@include prelude/clone.rs
//@include prelude/dm_core.rs

// ASSUME[TRUSTED-STD-SLICE] signature-level specification of <[T]>::clone_from_slice (only reached in dead code here)
pub assume_specification<T: Clone> [ <[T]>::clone_from_slice ] (dst: &mut [T], src: &[T])
    requires old(dst)@.len() == src@.len();

impl<T: RealNumber> DenseMatrix<T> {
    spec fn rows_t(&self, tr: bool) -> int { if tr { self.ncols as int } else { self.nrows as int } }
    spec fn cols_t(&self, tr: bool) -> int { if tr { self.nrows as int } else { self.ncols as int } }

//@extract src/linalg/naive/dense_matrix.rs :: impl<T: RealNumber> BaseMatrix<T> for DenseMatrix<T> :: matmul :: variant=reject
//@spec
        requires self.wf(), other.wf(), self.ncols != other.nrows,
        ensures false, //# matmul-rejects-inner-dimension-mismatch
//@end

//@extract src/linalg/naive/dense_matrix.rs :: impl<T: RealNumber> HighOrderOperations<T> for DenseMatrix<T> :: ab :: variant=reject
//@spec
        requires self.wf(), b.wf(), self.cols_t(a_transpose) != b.rows_t(b_transpose),
        ensures false, //# ab-rejects-inner-dimension-mismatch
//@end

//@extract src/linalg/naive/dense_matrix.rs :: impl<T: RealNumber> BaseMatrix<T> for DenseMatrix<T> :: dot :: variant=reject
//@spec
        requires self.wf(), other.wf(), self.nrows * self.ncols != other.nrows * other.ncols,
        ensures false, //# dot-rejects-different-element-counts
//@end

//@extract src/linalg/naive/dense_matrix.rs :: impl<T: RealNumber> BaseMatrix<T> for DenseMatrix<T> :: v_stack :: variant=reject
//@spec
        requires self.wf(), other.wf(), self.ncols != other.ncols,
        ensures false, //# v_stack-rejects-column-mismatch
//@end

//@extract src/linalg/naive/dense_matrix.rs :: impl<T: RealNumber> BaseMatrix<T> for DenseMatrix<T> :: h_stack :: variant=reject
//@spec
        requires self.wf(), other.wf(), self.nrows != other.nrows,
        ensures false, //# h_stack-rejects-row-mismatch
//@end

//@extract src/linalg/naive/dense_matrix.rs :: impl<T: RealNumber> BaseMatrix<T> for DenseMatrix<T> :: reshape :: variant=reject
//@spec
        requires self.wf(), nrows * ncols <= usize::MAX, self.nrows * self.ncols != nrows * ncols,
        ensures false, //# reshape-rejects-different-element-count
//@end

//@extract src/linalg/naive/dense_matrix.rs :: impl<T: RealNumber> BaseMatrix<T> for DenseMatrix<T> :: copy_from :: variant=reject
//@spec
        requires old(self).wf(), other.wf(), old(self).nrows != other.nrows || old(self).ncols != other.ncols,
        ensures false, //# copy_from-rejects-shape-mismatch
//@end

//@extract src/linalg/naive/dense_matrix.rs :: impl<T: RealNumber> BaseMatrix<T> for DenseMatrix<T> :: add_mut :: variant=reject
//@spec
        requires old(self).wf(), other.wf(), old(self).nrows != other.nrows || old(self).ncols != other.ncols,
        ensures false, //# add_mut-rejects-shape-mismatch
//@end

//@extract src/linalg/naive/dense_matrix.rs :: impl<T: RealNumber> BaseMatrix<T> for DenseMatrix<T> :: sub_mut :: variant=reject
//@spec
        requires old(self).wf(), other.wf(), old(self).nrows != other.nrows || old(self).ncols != other.ncols,
        ensures false, //# sub_mut-rejects-shape-mismatch
//@end

//@extract src/linalg/naive/dense_matrix.rs :: impl<T: RealNumber> BaseMatrix<T> for DenseMatrix<T> :: mul_mut :: variant=reject
//@spec
        requires old(self).wf(), other.wf(), old(self).nrows != other.nrows || old(self).ncols != other.ncols,
        ensures false, //# mul_mut-rejects-shape-mismatch
//@end

//@extract src/linalg/naive/dense_matrix.rs :: impl<T: RealNumber> BaseMatrix<T> for DenseMatrix<T> :: div_mut :: variant=reject
//@spec
        requires old(self).wf(), other.wf(), old(self).nrows != other.nrows || old(self).ncols != other.ncols,
        ensures false, //# div_mut-rejects-shape-mismatch
//@end

    // callees of the bodies above that are reached only after the (diverging) shape check
    // ASSUME[DEAD-CODE-STUB] signature-only stand-ins for callees that occur only in dead code of a rejection variant
    #[verifier::external_body] fn add_element_mut(&mut self, row: usize, col: usize, x: T) requires false { unimplemented!() }
    // ASSUME[DEAD-CODE-STUB]
    #[verifier::external_body] fn sub_element_mut(&mut self, row: usize, col: usize, x: T) requires false { unimplemented!() }
    // ASSUME[DEAD-CODE-STUB]
    #[verifier::external_body] fn mul_element_mut(&mut self, row: usize, col: usize, x: T) requires false { unimplemented!() }
    // ASSUME[DEAD-CODE-STUB]
    #[verifier::external_body] fn div_element_mut(&mut self, row: usize, col: usize, x: T) requires false { unimplemented!() }
}
} // verus!
fn main() {}
