//@unit tier=quick
//@include prelude/uses.rs
verus! {
//@include prelude/realnumber.rs
//@include prelude/order.rs
//@include prelude/clone.rs
//@include prelude/dm_core.rs

impl<T: RealNumber> DenseMatrix<T> {
    // the logical cell stored at flat position k (column-major traversal of the logical view)
    spec fn cell(&self, k: int) -> T { self.at(k % (self.nrows as int), k / (self.nrows as int)) }
    proof fn lemma_cell(&self, k: int)
        requires self.wf(), 0 <= k < self.values.len(),
        ensures self.cell(k) == self.values[k], 0 <= k % (self.nrows as int) < self.nrows, 0 <= k / (self.nrows as int) < self.ncols,
    {
        assert(self.nrows > 0) by { if self.nrows == 0 { assert(self.nrows * self.ncols == 0) by(nonlinear_arith) requires self.nrows == 0; } }
        lemma_idx_decomp(k, self.nrows as int, self.ncols as int);
    }
    spec fn sum_to(&self, n: int) -> T decreases n {
        if n <= 0 { T::zero_spec() } else { self.sum_to(n - 1).add_spec(self.cell(n - 1)) }
    }
    spec fn max_to(&self, n: int) -> T decreases n {
        if n <= 0 { T::neg_infinity_spec() } else { self.max_to(n - 1).max_spec(self.cell(n - 1)) }
    }
    spec fn min_to(&self, n: int) -> T decreases n {
        if n <= 0 { T::infinity_spec() } else { self.min_to(n - 1).min_spec(self.cell(n - 1)) }
    }
    spec fn max_diff_to(&self, other: &Self, n: int) -> T decreases n {
        if n <= 0 { T::zero_spec() } else { self.max_diff_to(other, n - 1).max_spec(self.cell(n - 1).sub_spec(other.cell(n - 1)).abs_spec()) }
    }
    spec fn sumsq_to(&self, n: int) -> T decreases n {
        if n <= 0 { T::zero_spec() } else { self.sumsq_to(n - 1).add_spec(self.cell(n - 1).mul_spec(self.cell(n - 1))) }
    }
    spec fn close(a: T, b: T, tol: T) -> bool { !gt(a.sub_spec(b).abs_spec(), tol) }

//@extract src/linalg/naive/dense_matrix.rs :: impl<T: RealNumber> BaseMatrix<T> for DenseMatrix<T> :: sum :: ret=sum
//@spec
        requires self.wf(),
        ensures sum == self.sum_to(self.nrows * self.ncols), //# sum-of-all-cells
//@enter
        proof { T::ops_total(); }
//@loop 1
            invariant self.wf(), sum == self.sum_to(i as int),
//@loopbody 1
            proof { T::ops_total(); self.lemma_cell(i as int); }
//@end

//@extract src/linalg/naive/dense_matrix.rs :: impl<T: RealNumber> BaseMatrix<T> for DenseMatrix<T> :: max :: ret=max
//@spec
        requires self.wf(),
        ensures max == self.max_to(self.nrows * self.ncols), //# max-fold-from-neg-infinity
//@loop 1
            invariant self.wf(), max == self.max_to(i as int),
//@loopbody 1
            proof { self.lemma_cell(i as int); }
//@end

//@extract src/linalg/naive/dense_matrix.rs :: impl<T: RealNumber> BaseMatrix<T> for DenseMatrix<T> :: min :: ret=min
//@spec
        requires self.wf(),
        ensures min == self.min_to(self.nrows * self.ncols), //# min-fold-from-infinity
//@loop 1
            invariant self.wf(), min == self.min_to(i as int),
//@loopbody 1
            proof { self.lemma_cell(i as int); }
//@end

//@extract src/linalg/naive/dense_matrix.rs :: impl<T: RealNumber> BaseMatrix<T> for DenseMatrix<T> :: max_diff :: ret=max_diff
//@spec
        requires self.wf(), other.wf(), self.nrows == other.nrows, self.ncols == other.ncols,
        ensures max_diff == self.max_diff_to(other, self.nrows * self.ncols), //# max_diff-is-max-abs-difference
//@enter
        proof { T::ops_total(); }
//@loop 1
            invariant self.wf(), other.wf(), self.nrows == other.nrows, self.ncols == other.ncols,
                max_diff == self.max_diff_to(other, i as int),
//@loopbody 1
            proof { T::ops_total(); self.lemma_cell(i as int); other.lemma_cell(i as int); }
//@end

//@extract src/linalg/naive/dense_matrix.rs :: impl<T: RealNumber> BaseMatrix<T> for DenseMatrix<T> :: norm2 :: ret=res
//@spec
        requires self.wf(),
        ensures res == self.sumsq_to(self.nrows * self.ncols).sqrt_spec(), //# norm2-is-sqrt-of-sum-of-squares
//@enter
        proof { T::ops_total(); }
//@loop 1
            invariant self.wf(), VERUS_ghost_iter.index@ <= self.values.len(), norm == self.sumsq_to(VERUS_ghost_iter.index@ as int),
//@loopbody 1
            proof { T::ops_total(); self.lemma_cell(VERUS_ghost_iter.index@ as int); assert(*xi == self.values[VERUS_ghost_iter.index@ as int]); }
//@end

//@extract src/linalg/naive/dense_matrix.rs :: impl<T: RealNumber> BaseMatrix<T> for DenseMatrix<T> :: approximate_eq :: ret=res
//@spec
        requires self.wf(), other.wf(),
        ensures
            (self.ncols != other.ncols || self.nrows != other.nrows) ==> !res, //# approximate_eq-false-on-shape-mismatch
            (self.ncols == other.ncols && self.nrows == other.nrows) ==>
                (res <==> forall|r: int, c: int| 0 <= r < self.nrows && 0 <= c < self.ncols ==> Self::close(self.at(r, c), other.at(r, c), error)), //# approximate_eq-iff-all-cells-close
//@enter
        proof { T::ops_total(); }
//@loop 1
            invariant self.wf(), other.wf(), self.ncols == other.ncols, self.nrows == other.nrows,
                forall|r2: int, c2: int| 0 <= r2 < self.nrows && 0 <= c2 < c ==> Self::close(self.at(r2, c2), other.at(r2, c2), error),
//@loop 2
                invariant self.wf(), other.wf(), self.ncols == other.ncols, self.nrows == other.nrows, c < self.ncols,
                    forall|r2: int, c2: int| 0 <= r2 < self.nrows && 0 <= c2 < c ==> Self::close(self.at(r2, c2), other.at(r2, c2), error),
                    forall|r2: int| 0 <= r2 < r ==> Self::close(self.at(r2, c as int), other.at(r2, c as int), error),
//@loopbody 2
                proof { T::ops_total(); }
//@end
}

impl<T: RealNumber> DenseMatrix<T> {
//@extract src/linalg/naive/dense_matrix.rs :: impl<T: RealNumber> PartialEq for DenseMatrix<T> :: eq :: ret=res
//@spec
        requires self.wf(), other.wf(),
        ensures
            (self.ncols != other.ncols || self.nrows != other.nrows) ==> !res, //# eq-false-on-shape-mismatch
            (self.ncols == other.ncols && self.nrows == other.nrows) ==>
                (res <==> forall|r: int, c: int| 0 <= r < self.nrows && 0 <= c < self.ncols ==> Self::close(self.at(r, c), other.at(r, c), T::epsilon_spec())), //# eq-iff-all-cells-within-epsilon
//@enter
        proof { T::ops_total(); }
//@loop 1
            invariant self.wf(), other.wf(), self.ncols == other.ncols, self.nrows == other.nrows, len == self.values.len(), len == other.values.len(),
                forall|k: int| 0 <= k < i ==> Self::close(self.values[k], other.values[k], T::epsilon_spec()),
//@loopbody 1
            proof { T::ops_total(); self.lemma_cell(i as int); other.lemma_cell(i as int); }
//@tail
        proof {
            assert forall|r: int, c: int| 0 <= r < self.nrows && 0 <= c < self.ncols implies Self::close(self.at(r, c), other.at(r, c), T::epsilon_spec()) by {
                lemma_idx(r, c, self.nrows as int, self.ncols as int);
            }
        }
//@end
}
} // verus!
fn main() {}
