//@unit tier=quick canary_includes=yes
//@include prelude/uses.rs
verus! {
//@include prelude/realnumber.rs
//@include prelude/order.rs
//@include prelude/clone.rs
//@include prelude/basevector_full.rs

impl<T: RealNumber> BaseVector<T> for Vec<T> {
    open spec fn vview(&self) -> Seq<T> { self@ }

    proof fn clone_preserves_view() {
        broadcast use axiom_clone_realnumber;
        assert forall|a: Vec<T>, b: Vec<T>| #[trigger] call_ensures(Vec::<T>::clone, (&a,), b) implies a@ == b@ by {
            assert(a@ =~= b@);
        }
    }

//@extract src/linalg/naive/dense_matrix.rs :: impl<T: RealNumber> BaseVector<T> for Vec<T> :: get
//@end
//@extract src/linalg/naive/dense_matrix.rs :: impl<T: RealNumber> BaseVector<T> for Vec<T> :: set
//@end
//@extract src/linalg/naive/dense_matrix.rs :: impl<T: RealNumber> BaseVector<T> for Vec<T> :: len
//@end
//@extract src/linalg/naive/dense_matrix.rs :: impl<T: RealNumber> BaseVector<T> for Vec<T> :: to_vec
//@enter
        broadcast use axiom_clone_realnumber;
//@end
//@extract src/linalg/naive/dense_matrix.rs :: impl<T: RealNumber> BaseVector<T> for Vec<T> :: zeros
//@enter
        broadcast use axiom_clone_realnumber;
//@end
//@extract src/linalg/naive/dense_matrix.rs :: impl<T: RealNumber> BaseVector<T> for Vec<T> :: ones
//@enter
        broadcast use axiom_clone_realnumber;
//@end
//@extract src/linalg/naive/dense_matrix.rs :: impl<T: RealNumber> BaseVector<T> for Vec<T> :: fill
//@enter
        broadcast use axiom_clone_realnumber;
//@end
//@extract src/linalg/naive/dense_matrix.rs :: impl<T: RealNumber> BaseVector<T> for Vec<T> :: dot
//@enter
        proof { T::ops_total(); }
//@loop 1
            invariant self@.len() == other@.len(), result == vdot(self@, other@, i as int),
//@loopbody 1
            proof { T::ops_total(); }
//@end
//@extract src/linalg/naive/dense_matrix.rs :: impl<T: RealNumber> BaseVector<T> for Vec<T> :: norm2
//@enter
        proof { T::ops_total(); }
//@loop 1
            invariant VERUS_ghost_iter.index@ <= self@.len(), norm == vsumsq(self@, VERUS_ghost_iter.index@ as int),
//@loopbody 1
            proof { T::ops_total(); assert(*xi == self@[VERUS_ghost_iter.index@ as int]); }
//@end
//@extract src/linalg/naive/dense_matrix.rs :: impl<T: RealNumber> BaseVector<T> for Vec<T> :: div_element_mut
//@enter
        proof { T::ops_total(); }
//@end
//@extract src/linalg/naive/dense_matrix.rs :: impl<T: RealNumber> BaseVector<T> for Vec<T> :: mul_element_mut
//@enter
        proof { T::ops_total(); }
//@end
//@extract src/linalg/naive/dense_matrix.rs :: impl<T: RealNumber> BaseVector<T> for Vec<T> :: add_element_mut
//@enter
        proof { T::ops_total(); }
//@end
//@extract src/linalg/naive/dense_matrix.rs :: impl<T: RealNumber> BaseVector<T> for Vec<T> :: sub_element_mut
//@enter
        proof { T::ops_total(); }
//@end
//@extract src/linalg/naive/dense_matrix.rs :: impl<T: RealNumber> BaseVector<T> for Vec<T> :: add_mut
//@loop 1
            invariant self@.len() == old(self)@.len(), self@.len() == other@.len(), VERUS_ghost_iter.iter.end == self@.len(),
                forall|k: int| 0 <= k < i ==> self@[k] == old(self)@[k].add_spec(other@[k]),
                forall|k: int| i <= k < self@.len() ==> self@[k] == old(self)@[k],
//@end
//@extract src/linalg/naive/dense_matrix.rs :: impl<T: RealNumber> BaseVector<T> for Vec<T> :: sub_mut
//@loop 1
            invariant self@.len() == old(self)@.len(), self@.len() == other@.len(), VERUS_ghost_iter.iter.end == self@.len(),
                forall|k: int| 0 <= k < i ==> self@[k] == old(self)@[k].sub_spec(other@[k]),
                forall|k: int| i <= k < self@.len() ==> self@[k] == old(self)@[k],
//@end
//@extract src/linalg/naive/dense_matrix.rs :: impl<T: RealNumber> BaseVector<T> for Vec<T> :: mul_mut
//@loop 1
            invariant self@.len() == old(self)@.len(), self@.len() == other@.len(), VERUS_ghost_iter.iter.end == self@.len(),
                forall|k: int| 0 <= k < i ==> self@[k] == old(self)@[k].mul_spec(other@[k]),
                forall|k: int| i <= k < self@.len() ==> self@[k] == old(self)@[k],
//@end
//@extract src/linalg/naive/dense_matrix.rs :: impl<T: RealNumber> BaseVector<T> for Vec<T> :: div_mut
//@loop 1
            invariant self@.len() == old(self)@.len(), self@.len() == other@.len(), VERUS_ghost_iter.iter.end == self@.len(),
                forall|k: int| 0 <= k < i ==> self@[k] == old(self)@[k].div_spec(other@[k]),
                forall|k: int| i <= k < self@.len() ==> self@[k] == old(self)@[k],
//@end
//@extract src/linalg/naive/dense_matrix.rs :: impl<T: RealNumber> BaseVector<T> for Vec<T> :: approximate_eq
//@enter
        proof { T::ops_total(); }
//@loop 1
                invariant self@.len() == other@.len(),
                    forall|k: int| 0 <= k < i ==> vclose(self@[k], other@[k], error),
//@loopbody 1
                proof { T::ops_total(); }
//@end
//@extract src/linalg/naive/dense_matrix.rs :: impl<T: RealNumber> BaseVector<T> for Vec<T> :: sum
//@enter
        proof { T::ops_total(); }
//@loop 1
            invariant VERUS_ghost_iter.index@ <= self@.len(), sum == vsum(self@, VERUS_ghost_iter.index@ as int),
//@loopbody 1
            proof { T::ops_total(); assert(*self_i == self@[VERUS_ghost_iter.index@ as int]); }
//@end
}
} // verus!
fn main() {}
