//@unit tier=quick
//@include prelude/uses.rs
verus! {
//@include prelude/realnumber.rs
//@include prelude/clone.rs
//@include prelude/dm_core.rs

pub proof fn lemma_divmod(q: int, rem: int, d: int)
    requires 0 <= rem < d, 0 <= q,
    ensures (q * d + rem) / d == q, (q * d + rem) % d == rem,
{
    vstd::arithmetic::div_mod::lemma_fundamental_div_mod_converse(q * d + rem, d, q, rem);
}
pub proof fn lemma_rowmajor_bound(r: int, c: int, nr: int, nc: int)
    requires 0 <= r < nr, 0 <= c < nc,
    ensures 0 <= r * nc + c < nr * nc,
{
    assert(r * nc + c < nr * nc) by(nonlinear_arith) requires 0 <= r < nr, 0 <= c < nc;
    assert(0 <= r * nc) by(nonlinear_arith) requires 0 <= r, 0 <= nc;
}
pub proof fn lemma_row_lt(q: int, rem: int, d: int, n: int)
    requires 0 <= rem < d, 0 <= q, q * d + rem < n * d,
    ensures q < n,
{
    assert(q < n) by(nonlinear_arith) requires 0 <= rem < d, 0 <= q, q * d + rem < n * d;
}

impl<T: RealNumber> DenseMatrix<T> {
    // k-th element in logical row-major order
    spec fn rm(&self, k: int) -> T { self.at(k / (self.ncols as int), k % (self.ncols as int)) }

//@extract src/linalg/naive/dense_matrix.rs :: impl<T: RealNumber> BaseMatrix<T> for DenseMatrix<T> :: reshape :: ret=dst
//@spec
        requires self.wf(), self.nrows * self.ncols == nrows * ncols, nrows * ncols <= usize::MAX,
        ensures dst.wf(), dst.nrows == nrows, dst.ncols == ncols,
            // logical row-major order is preserved
            forall|k: int| 0 <= k < nrows * ncols ==> dst.rm(k) == self.rm(k), //# reshape-preserves-row-major-order
//@loop 1
            invariant self.wf(), dst.wf(), dst.nrows == nrows, dst.ncols == ncols, self.nrows * self.ncols == nrows * ncols,
                (dst_r as int) * (ncols as int) + (dst_c as int) == r * self.ncols, dst_c < ncols || (ncols == 0 && dst_c == 0),
                forall|k: int| 0 <= k < r * self.ncols ==> dst.rm(k) == self.rm(k),
//@loopbody 1
            proof {
                assert((r as int + 1) * (self.ncols as int) == (r as int) * (self.ncols as int) + (self.ncols as int)) by(nonlinear_arith);
            }
//@loop 2
                invariant self.wf(), dst.wf(), dst.nrows == nrows, dst.ncols == ncols, self.nrows * self.ncols == nrows * ncols,
                    r < self.nrows,
                    (r as int + 1) * (self.ncols as int) == (r as int) * (self.ncols as int) + (self.ncols as int),
                    (dst_r as int) * (ncols as int) + (dst_c as int) == r * self.ncols + c, dst_c < ncols || (ncols == 0 && dst_c == 0),
                    forall|k: int| 0 <= k < r * self.ncols + c ==> dst.rm(k) == self.rm(k),
//@loopbody 2
                // state at the start of the body: the cell about to be written is (r0, c0) = row-major position k0 of both matrices
                let ghost k0 = r as int * self.ncols as int + c as int;
                let ghost pre = dst;
                let ghost r0 = dst_r as int;
                let ghost c0 = dst_c as int;
                proof {
                    lemma_rowmajor_bound(r as int, c as int, self.nrows as int, self.ncols as int);
                    assert(ncols > 0) by { if ncols == 0 { assert(nrows * ncols == 0) by(nonlinear_arith) requires ncols == 0; } }
                    lemma_row_lt(r0, c0, ncols as int, nrows as int);
                    lemma_divmod(r0, c0, ncols as int);
                    lemma_divmod(r as int, c as int, self.ncols as int);
                    // the position reached when the write cursor wraps to the next row
                    assert((r0 + 1) * (ncols as int) == r0 * (ncols as int) + (ncols as int)) by(nonlinear_arith);
                }
//@loopend 2
                // state at the end of the body: position k0 has been copied, every earlier position is untouched
                proof {
                    assert(dst.rm(k0) == self.rm(k0));
                    assert forall|k: int| 0 <= k < k0 implies dst.rm(k) == self.rm(k) by {
                        let nc = ncols as int;
                        assert(0 <= k % nc < nc && k == (k / nc) * nc + k % nc && 0 <= k / nc) by(nonlinear_arith) requires 0 <= k, nc > 0;
                        lemma_row_lt(k / nc, k % nc, nc, nrows as int);
                        assert(pre.rm(k) == self.rm(k));
                        assert(!(k / nc == r0 && k % nc == c0));
                    }
                }
//@end

//@extract src/linalg/naive/dense_matrix.rs :: impl<T: RealNumber> BaseMatrix<T> for DenseMatrix<T> :: to_row_vector :: ret=v sub=Self::RowVector=>Vec<T>
//@spec
        requires self.wf(), self.nrows * self.ncols <= usize::MAX,
        ensures v.len() == self.nrows * self.ncols,
            // flattening follows the logical row-major order
            forall|r: int, c: int| 0 <= r < self.nrows && 0 <= c < self.ncols ==> v[r * self.ncols + c] == self.at(r, c), //# to_row_vector-row-major
//@enter
        broadcast use axiom_clone_realnumber;
//@loop 1
            invariant self.wf(), v.len() == self.nrows * self.ncols,
                forall|r2: int, c2: int| 0 <= r2 < r && 0 <= c2 < self.ncols ==> v[r2 * self.ncols + c2] == self.at(r2, c2),
//@loop 2
                invariant self.wf(), v.len() == self.nrows * self.ncols, r < self.nrows,
                    forall|r2: int, c2: int| 0 <= r2 < r && 0 <= c2 < self.ncols ==> v[r2 * self.ncols + c2] == self.at(r2, c2),
                    forall|c2: int| 0 <= c2 < c ==> v[r * self.ncols + c2] == self.at(r as int, c2),
//@loopbody 2
                proof { lemma_rowmajor_bound(r as int, c as int, self.nrows as int, self.ncols as int); }
                let ghost vpre = v@;
//@loopend 2
                // state at the end of the body: rows before r are untouched by the write to position (r, c)
                proof {
                    assert forall|r2: int, c2: int| 0 <= r2 < r && 0 <= c2 < self.ncols implies v[r2 * self.ncols + c2] == self.at(r2, c2) by {
                        lemma_rowmajor_bound(r2, c2, self.nrows as int, self.ncols as int);
                        assert(r2 * self.ncols + c2 != r * self.ncols + c) by(nonlinear_arith)
                            requires 0 <= r2 < r, 0 <= c2 < self.ncols, 0 <= c < self.ncols;
                        assert(vpre[r2 * self.ncols + c2] == self.at(r2, c2));
                    }
                }
//@end

//@extract src/linalg/naive/dense_matrix.rs :: impl<T: RealNumber> BaseMatrix<T> for DenseMatrix<T> :: from_row_vector :: ret=m sub=Self::RowVector=>Vec<T>
//@spec
        ensures m.wf(), m.nrows == 1, m.ncols == vec.len(),
            forall|c: int| 0 <= c < vec.len() ==> m.at(0, c) == vec[c], //# from_row_vector-1xn
//@end

//@extract src/linalg/naive/dense_matrix.rs :: impl<T: RealNumber> DenseMatrix<T> :: row_vector_from_vec :: ret=m
//@spec
        ensures m.wf(), m.nrows == 1, m.ncols == values.len(),
            forall|c: int| 0 <= c < values.len() ==> m.at(0, c) == values[c],
//@end

//@extract src/linalg/naive/dense_matrix.rs :: impl<T: RealNumber> DenseMatrix<T> :: column_vector_from_vec :: ret=m
//@spec
        ensures m.wf(), m.ncols == 1, m.nrows == values.len(),
            forall|r: int| 0 <= r < values.len() ==> m.at(r, 0) == values[r],
//@end

//@extract src/linalg/naive/dense_matrix.rs :: impl<T: RealNumber> DenseMatrix<T> :: from_vec :: ret=m
//@spec
        requires values@.len() == nrows * ncols, nrows * ncols <= usize::MAX,
        ensures m.wf(), m.nrows == nrows, m.ncols == ncols,
            // `values` is read in row-major order
            forall|r: int, c: int| 0 <= r < nrows && 0 <= c < ncols ==> m.at(r, c) == values@[r * ncols + c], //# from_vec-reads-row-major
//@enter
        broadcast use axiom_clone_realnumber;
        proof { assert(ncols * nrows == nrows * ncols) by(nonlinear_arith); }
//@loop 1
            invariant m.wf(), m.nrows == nrows, m.ncols == ncols, values@.len() == nrows * ncols,
                forall|r2: int, c2: int| 0 <= r2 < row && 0 <= c2 < ncols ==> m.at(r2, c2) == values@[r2 * ncols + c2],
//@loop 2
                invariant m.wf(), m.nrows == nrows, m.ncols == ncols, values@.len() == nrows * ncols, row < nrows,
                    forall|r2: int, c2: int| 0 <= r2 < row && 0 <= c2 < ncols ==> m.at(r2, c2) == values@[r2 * ncols + c2],
                    forall|c2: int| 0 <= c2 < col ==> m.at(row as int, c2) == values@[row * ncols + c2],
//@loopbody 2
                proof { lemma_rowmajor_bound(row as int, col as int, nrows as int, ncols as int); }
//@end

//@extract src/linalg/naive/dense_matrix.rs :: impl<T: RealNumber> BaseMatrix<T> for DenseMatrix<T> :: slice :: ret=m
//@spec
        requires self.wf(), rows.start <= rows.end <= self.nrows, cols.start <= cols.end <= self.ncols,
        ensures m.wf(), m.nrows == rows.end - rows.start, m.ncols == cols.end - cols.start,
            forall|r: int, c: int| 0 <= r < m.nrows && 0 <= c < m.ncols ==> m.at(r, c) == self.at(rows.start + r, cols.start + c), //# slice-copies-block
//@enter
        broadcast use axiom_clone_realnumber;
        proof {
            assert((rows.end - rows.start) * (cols.end - cols.start) <= self.nrows * self.ncols) by(nonlinear_arith)
                requires 0 <= rows.end - rows.start <= self.nrows, 0 <= cols.end - cols.start <= self.ncols;
        }
//@loop 1
            invariant self.wf(), m.wf(), rows.start <= rows.end <= self.nrows, cols.start <= cols.end <= self.ncols,
                m.nrows == rows.end - rows.start, m.ncols == cols.end - cols.start,
                forall|rr: int, cc: int| rows.start <= rr < r && cols.start <= cc < cols.end ==> m.at(rr - rows.start, cc - cols.start) == #[trigger] self.at(rr, cc),
//@loop 2
                invariant self.wf(), m.wf(), rows.start <= rows.end <= self.nrows, cols.start <= cols.end <= self.ncols,
                    rows.start <= r < rows.end,
                    m.nrows == rows.end - rows.start, m.ncols == cols.end - cols.start,
                    forall|rr: int, cc: int| rows.start <= rr < r && cols.start <= cc < cols.end ==> m.at(rr - rows.start, cc - cols.start) == #[trigger] self.at(rr, cc),
                    forall|cc: int| cols.start <= cc < c ==> m.at(r - rows.start, cc - cols.start) == #[trigger] self.at(r as int, cc),
//@end
}
} // verus!
fn main() {}
