// C03: element-wise and scalar in-place arithmetic of DenseMatrix<T>, extracted and proved (included by dm_elementwise.rs and dm_defaults.rs)
impl<T: RealNumber> DenseMatrix<T> {
    // frame + one updated cell, stated over a candidate storage sequence `vals`
    spec fn cell_updated(&self, vals: Seq<T>, row: int, col: int, v: T) -> bool {
        vals.len() == self.values.len() && vals[col * self.nrows + row] == v
        && forall|r: int, c: int| 0 <= r < self.nrows && 0 <= c < self.ncols && !(r == row && c == col)
            ==> vals[c * self.nrows + r] == #[trigger] self.at(r, c)
    }
    spec fn updated_cell(&self, pre: &Self, row: int, col: int, v: T) -> bool {
        self.wf() && self.nrows == pre.nrows && self.ncols == pre.ncols && pre.cell_updated(self.values@, row, col, v)
    }
    proof fn lemma_cell_updated(&self, row: int, col: int, v: T)
        requires self.wf(), 0 <= row < self.nrows, 0 <= col < self.ncols,
        ensures self.cell_updated(self.values@.update(col * self.nrows + row, v), row, col, v),
    {
        lemma_idx(row, col, self.nrows as int, self.ncols as int);
        let vals = self.values@.update(col * self.nrows + row, v);
        assert forall|r: int, c: int| 0 <= r < self.nrows && 0 <= c < self.ncols && !(r == row && c == col) implies vals[c * self.nrows + r] == #[trigger] self.at(r, c) by {
            if c * self.nrows + r == col * self.nrows + row { lemma_idx_inj(r, c, row, col, self.nrows as int); }
            lemma_idx(r, c, self.nrows as int, self.ncols as int);
        }
    }
    // reading the result through the logical view
    proof fn lemma_updated_cell_at(&self, pre: &Self, row: int, col: int, v: T)
        requires pre.wf(), 0 <= row < pre.nrows, 0 <= col < pre.ncols, self.updated_cell(pre, row, col, v),
        ensures self.at(row, col) == v,
            forall|r: int, c: int| 0 <= r < pre.nrows && 0 <= c < pre.ncols && !(r == row && c == col) ==> self.at(r, c) == pre.at(r, c),
    {
    }

//@extract src/linalg/naive/dense_matrix.rs :: impl<T: RealNumber> BaseMatrix<T> for DenseMatrix<T> :: add_element_mut
//@spec
        requires old(self).wf(), row < old(self).nrows, col < old(self).ncols,
        ensures final(self).updated_cell(old(self), row as int, col as int, old(self).at(row as int, col as int).add_spec(x)), //# add_element_mut-cell-and-frame
            final(self).at(row as int, col as int) == old(self).at(row as int, col as int).add_spec(x),
            forall|r: int, c: int| 0 <= r < old(self).nrows && 0 <= c < old(self).ncols && !(r == row && c == col) ==> final(self).at(r, c) == old(self).at(r, c),
//@enter
        proof { T::ops_total(); lemma_idx(row as int, col as int, self.nrows as int, self.ncols as int);
                self.lemma_cell_updated(row as int, col as int, self.at(row as int, col as int).add_spec(x)); }
//@end

//@extract src/linalg/naive/dense_matrix.rs :: impl<T: RealNumber> BaseMatrix<T> for DenseMatrix<T> :: sub_element_mut
//@spec
        requires old(self).wf(), row < old(self).nrows, col < old(self).ncols,
        ensures final(self).updated_cell(old(self), row as int, col as int, old(self).at(row as int, col as int).sub_spec(x)), //# sub_element_mut-cell-and-frame
            final(self).at(row as int, col as int) == old(self).at(row as int, col as int).sub_spec(x),
            forall|r: int, c: int| 0 <= r < old(self).nrows && 0 <= c < old(self).ncols && !(r == row && c == col) ==> final(self).at(r, c) == old(self).at(r, c),
//@enter
        proof { T::ops_total(); lemma_idx(row as int, col as int, self.nrows as int, self.ncols as int);
                self.lemma_cell_updated(row as int, col as int, self.at(row as int, col as int).sub_spec(x)); }
//@end

//@extract src/linalg/naive/dense_matrix.rs :: impl<T: RealNumber> BaseMatrix<T> for DenseMatrix<T> :: mul_element_mut
//@spec
        requires old(self).wf(), row < old(self).nrows, col < old(self).ncols,
        ensures final(self).updated_cell(old(self), row as int, col as int, old(self).at(row as int, col as int).mul_spec(x)), //# mul_element_mut-cell-and-frame
            final(self).at(row as int, col as int) == old(self).at(row as int, col as int).mul_spec(x),
            forall|r: int, c: int| 0 <= r < old(self).nrows && 0 <= c < old(self).ncols && !(r == row && c == col) ==> final(self).at(r, c) == old(self).at(r, c),
//@enter
        proof { T::ops_total(); lemma_idx(row as int, col as int, self.nrows as int, self.ncols as int);
                self.lemma_cell_updated(row as int, col as int, self.at(row as int, col as int).mul_spec(x)); }
//@end

//@extract src/linalg/naive/dense_matrix.rs :: impl<T: RealNumber> BaseMatrix<T> for DenseMatrix<T> :: div_element_mut
//@spec
        requires old(self).wf(), row < old(self).nrows, col < old(self).ncols,
        ensures final(self).updated_cell(old(self), row as int, col as int, old(self).at(row as int, col as int).div_spec(x)), //# div_element_mut-cell-and-frame
            final(self).at(row as int, col as int) == old(self).at(row as int, col as int).div_spec(x),
            forall|r: int, c: int| 0 <= r < old(self).nrows && 0 <= c < old(self).ncols && !(r == row && c == col) ==> final(self).at(r, c) == old(self).at(r, c),
//@enter
        proof { T::ops_total(); lemma_idx(row as int, col as int, self.nrows as int, self.ncols as int);
                self.lemma_cell_updated(row as int, col as int, self.at(row as int, col as int).div_spec(x)); }
//@end

//@extract src/linalg/naive/dense_matrix.rs :: impl<T: RealNumber> BaseMatrix<T> for DenseMatrix<T> :: add_mut :: ret=res
//@spec
        requires old(self).wf(), other.wf(), old(self).nrows == other.nrows, old(self).ncols == other.ncols,
        ensures final(self).wf(), final(self).nrows == old(self).nrows, final(self).ncols == old(self).ncols,
            forall|r: int, c: int| 0 <= r < other.nrows && 0 <= c < other.ncols ==> final(self).at(r, c) == old(self).at(r, c).add_spec(other.at(r, c)), //# add_mut-cellwise
            *res == *final(self),
//@loop 1
            invariant self.wf(), other.wf(), self.nrows == other.nrows, self.ncols == other.ncols, old(self).nrows == self.nrows, old(self).ncols == self.ncols,
                forall|r2: int, c2: int| 0 <= r2 < self.nrows && 0 <= c2 < c ==> self.at(r2, c2) == old(self).at(r2, c2).add_spec(other.at(r2, c2)),
                forall|r2: int, c2: int| 0 <= r2 < self.nrows && c <= c2 < self.ncols ==> self.at(r2, c2) == old(self).at(r2, c2),
//@loop 2
                invariant self.wf(), other.wf(), self.nrows == other.nrows, self.ncols == other.ncols, old(self).nrows == self.nrows, old(self).ncols == self.ncols, c < self.ncols,
                    VERUS_ghost_iter.iter.end == self.nrows,
                    forall|r2: int, c2: int| 0 <= r2 < self.nrows && 0 <= c2 < c ==> self.at(r2, c2) == old(self).at(r2, c2).add_spec(other.at(r2, c2)),
                    forall|r2: int, c2: int| 0 <= r2 < self.nrows && c < c2 < self.ncols ==> self.at(r2, c2) == old(self).at(r2, c2),
                    forall|r2: int| 0 <= r2 < r ==> self.at(r2, c as int) == old(self).at(r2, c as int).add_spec(other.at(r2, c as int)),
                    forall|r2: int| r <= r2 < self.nrows ==> self.at(r2, c as int) == old(self).at(r2, c as int),
//@end

//@extract src/linalg/naive/dense_matrix.rs :: impl<T: RealNumber> BaseMatrix<T> for DenseMatrix<T> :: sub_mut :: ret=res
//@spec
        requires old(self).wf(), other.wf(), old(self).nrows == other.nrows, old(self).ncols == other.ncols,
        ensures final(self).wf(), final(self).nrows == old(self).nrows, final(self).ncols == old(self).ncols,
            forall|r: int, c: int| 0 <= r < other.nrows && 0 <= c < other.ncols ==> final(self).at(r, c) == old(self).at(r, c).sub_spec(other.at(r, c)), //# sub_mut-cellwise
            *res == *final(self),
//@loop 1
            invariant self.wf(), other.wf(), self.nrows == other.nrows, self.ncols == other.ncols, old(self).nrows == self.nrows, old(self).ncols == self.ncols,
                forall|r2: int, c2: int| 0 <= r2 < self.nrows && 0 <= c2 < c ==> self.at(r2, c2) == old(self).at(r2, c2).sub_spec(other.at(r2, c2)),
                forall|r2: int, c2: int| 0 <= r2 < self.nrows && c <= c2 < self.ncols ==> self.at(r2, c2) == old(self).at(r2, c2),
//@loop 2
                invariant self.wf(), other.wf(), self.nrows == other.nrows, self.ncols == other.ncols, old(self).nrows == self.nrows, old(self).ncols == self.ncols, c < self.ncols,
                    VERUS_ghost_iter.iter.end == self.nrows,
                    forall|r2: int, c2: int| 0 <= r2 < self.nrows && 0 <= c2 < c ==> self.at(r2, c2) == old(self).at(r2, c2).sub_spec(other.at(r2, c2)),
                    forall|r2: int, c2: int| 0 <= r2 < self.nrows && c < c2 < self.ncols ==> self.at(r2, c2) == old(self).at(r2, c2),
                    forall|r2: int| 0 <= r2 < r ==> self.at(r2, c as int) == old(self).at(r2, c as int).sub_spec(other.at(r2, c as int)),
                    forall|r2: int| r <= r2 < self.nrows ==> self.at(r2, c as int) == old(self).at(r2, c as int),
//@end

//@extract src/linalg/naive/dense_matrix.rs :: impl<T: RealNumber> BaseMatrix<T> for DenseMatrix<T> :: mul_mut :: ret=res
//@spec
        requires old(self).wf(), other.wf(), old(self).nrows == other.nrows, old(self).ncols == other.ncols,
        ensures final(self).wf(), final(self).nrows == old(self).nrows, final(self).ncols == old(self).ncols,
            forall|r: int, c: int| 0 <= r < other.nrows && 0 <= c < other.ncols ==> final(self).at(r, c) == old(self).at(r, c).mul_spec(other.at(r, c)), //# mul_mut-cellwise
            *res == *final(self),
//@loop 1
            invariant self.wf(), other.wf(), self.nrows == other.nrows, self.ncols == other.ncols, old(self).nrows == self.nrows, old(self).ncols == self.ncols,
                forall|r2: int, c2: int| 0 <= r2 < self.nrows && 0 <= c2 < c ==> self.at(r2, c2) == old(self).at(r2, c2).mul_spec(other.at(r2, c2)),
                forall|r2: int, c2: int| 0 <= r2 < self.nrows && c <= c2 < self.ncols ==> self.at(r2, c2) == old(self).at(r2, c2),
//@loop 2
                invariant self.wf(), other.wf(), self.nrows == other.nrows, self.ncols == other.ncols, old(self).nrows == self.nrows, old(self).ncols == self.ncols, c < self.ncols,
                    VERUS_ghost_iter.iter.end == self.nrows,
                    forall|r2: int, c2: int| 0 <= r2 < self.nrows && 0 <= c2 < c ==> self.at(r2, c2) == old(self).at(r2, c2).mul_spec(other.at(r2, c2)),
                    forall|r2: int, c2: int| 0 <= r2 < self.nrows && c < c2 < self.ncols ==> self.at(r2, c2) == old(self).at(r2, c2),
                    forall|r2: int| 0 <= r2 < r ==> self.at(r2, c as int) == old(self).at(r2, c as int).mul_spec(other.at(r2, c as int)),
                    forall|r2: int| r <= r2 < self.nrows ==> self.at(r2, c as int) == old(self).at(r2, c as int),
//@end

//@extract src/linalg/naive/dense_matrix.rs :: impl<T: RealNumber> BaseMatrix<T> for DenseMatrix<T> :: div_mut :: ret=res
//@spec
        requires old(self).wf(), other.wf(), old(self).nrows == other.nrows, old(self).ncols == other.ncols,
        ensures final(self).wf(), final(self).nrows == old(self).nrows, final(self).ncols == old(self).ncols,
            forall|r: int, c: int| 0 <= r < other.nrows && 0 <= c < other.ncols ==> final(self).at(r, c) == old(self).at(r, c).div_spec(other.at(r, c)), //# div_mut-cellwise
            *res == *final(self),
//@loop 1
            invariant self.wf(), other.wf(), self.nrows == other.nrows, self.ncols == other.ncols, old(self).nrows == self.nrows, old(self).ncols == self.ncols,
                forall|r2: int, c2: int| 0 <= r2 < self.nrows && 0 <= c2 < c ==> self.at(r2, c2) == old(self).at(r2, c2).div_spec(other.at(r2, c2)),
                forall|r2: int, c2: int| 0 <= r2 < self.nrows && c <= c2 < self.ncols ==> self.at(r2, c2) == old(self).at(r2, c2),
//@loop 2
                invariant self.wf(), other.wf(), self.nrows == other.nrows, self.ncols == other.ncols, old(self).nrows == self.nrows, old(self).ncols == self.ncols, c < self.ncols,
                    VERUS_ghost_iter.iter.end == self.nrows,
                    forall|r2: int, c2: int| 0 <= r2 < self.nrows && 0 <= c2 < c ==> self.at(r2, c2) == old(self).at(r2, c2).div_spec(other.at(r2, c2)),
                    forall|r2: int, c2: int| 0 <= r2 < self.nrows && c < c2 < self.ncols ==> self.at(r2, c2) == old(self).at(r2, c2),
                    forall|r2: int| 0 <= r2 < r ==> self.at(r2, c as int) == old(self).at(r2, c as int).div_spec(other.at(r2, c as int)),
                    forall|r2: int| r <= r2 < self.nrows ==> self.at(r2, c as int) == old(self).at(r2, c as int),
//@end

//@extract src/linalg/naive/dense_matrix.rs :: impl<T: RealNumber> BaseMatrix<T> for DenseMatrix<T> :: add_scalar_mut :: ret=res
//@spec
        requires old(self).wf(),
        ensures final(self).wf(), final(self).nrows == old(self).nrows, final(self).ncols == old(self).ncols,
            forall|r: int, c: int| 0 <= r < old(self).nrows && 0 <= c < old(self).ncols ==> final(self).at(r, c) == old(self).at(r, c).add_spec(scalar), //# add_scalar_mut-cellwise
            *res == *final(self),
//@enter
        proof { T::ops_total(); }
//@loop 1
            invariant self.wf(), old(self).wf(), self.nrows == old(self).nrows, self.ncols == old(self).ncols,
                VERUS_ghost_iter.iter.end == self.values.len(),
                forall|k: int| 0 <= k < i ==> self.values[k] == old(self).values[k].add_spec(scalar),
                forall|k: int| i <= k < self.values.len() ==> self.values[k] == old(self).values[k],
//@loopbody 1
            proof { T::ops_total(); }
//@tail
        proof {
            assert forall|r: int, c: int| 0 <= r < old(self).nrows && 0 <= c < old(self).ncols implies self.at(r, c) == old(self).at(r, c).add_spec(scalar) by {
                lemma_idx(r, c, self.nrows as int, self.ncols as int);
            }
        }
//@end

//@extract src/linalg/naive/dense_matrix.rs :: impl<T: RealNumber> BaseMatrix<T> for DenseMatrix<T> :: sub_scalar_mut :: ret=res
//@spec
        requires old(self).wf(),
        ensures final(self).wf(), final(self).nrows == old(self).nrows, final(self).ncols == old(self).ncols,
            forall|r: int, c: int| 0 <= r < old(self).nrows && 0 <= c < old(self).ncols ==> final(self).at(r, c) == old(self).at(r, c).sub_spec(scalar), //# sub_scalar_mut-cellwise
            *res == *final(self),
//@enter
        proof { T::ops_total(); }
//@loop 1
            invariant self.wf(), old(self).wf(), self.nrows == old(self).nrows, self.ncols == old(self).ncols,
                VERUS_ghost_iter.iter.end == self.values.len(),
                forall|k: int| 0 <= k < i ==> self.values[k] == old(self).values[k].sub_spec(scalar),
                forall|k: int| i <= k < self.values.len() ==> self.values[k] == old(self).values[k],
//@loopbody 1
            proof { T::ops_total(); }
//@tail
        proof {
            assert forall|r: int, c: int| 0 <= r < old(self).nrows && 0 <= c < old(self).ncols implies self.at(r, c) == old(self).at(r, c).sub_spec(scalar) by {
                lemma_idx(r, c, self.nrows as int, self.ncols as int);
            }
        }
//@end

//@extract src/linalg/naive/dense_matrix.rs :: impl<T: RealNumber> BaseMatrix<T> for DenseMatrix<T> :: mul_scalar_mut :: ret=res
//@spec
        requires old(self).wf(),
        ensures final(self).wf(), final(self).nrows == old(self).nrows, final(self).ncols == old(self).ncols,
            forall|r: int, c: int| 0 <= r < old(self).nrows && 0 <= c < old(self).ncols ==> final(self).at(r, c) == old(self).at(r, c).mul_spec(scalar), //# mul_scalar_mut-cellwise
            *res == *final(self),
//@enter
        proof { T::ops_total(); }
//@loop 1
            invariant self.wf(), old(self).wf(), self.nrows == old(self).nrows, self.ncols == old(self).ncols,
                VERUS_ghost_iter.iter.end == self.values.len(),
                forall|k: int| 0 <= k < i ==> self.values[k] == old(self).values[k].mul_spec(scalar),
                forall|k: int| i <= k < self.values.len() ==> self.values[k] == old(self).values[k],
//@loopbody 1
            proof { T::ops_total(); }
//@tail
        proof {
            assert forall|r: int, c: int| 0 <= r < old(self).nrows && 0 <= c < old(self).ncols implies self.at(r, c) == old(self).at(r, c).mul_spec(scalar) by {
                lemma_idx(r, c, self.nrows as int, self.ncols as int);
            }
        }
//@end

//@extract src/linalg/naive/dense_matrix.rs :: impl<T: RealNumber> BaseMatrix<T> for DenseMatrix<T> :: div_scalar_mut :: ret=res
//@spec
        requires old(self).wf(),
        ensures final(self).wf(), final(self).nrows == old(self).nrows, final(self).ncols == old(self).ncols,
            forall|r: int, c: int| 0 <= r < old(self).nrows && 0 <= c < old(self).ncols ==> final(self).at(r, c) == old(self).at(r, c).div_spec(scalar), //# div_scalar_mut-cellwise
            *res == *final(self),
//@enter
        proof { T::ops_total(); }
//@loop 1
            invariant self.wf(), old(self).wf(), self.nrows == old(self).nrows, self.ncols == old(self).ncols,
                VERUS_ghost_iter.iter.end == self.values.len(),
                forall|k: int| 0 <= k < i ==> self.values[k] == old(self).values[k].div_spec(scalar),
                forall|k: int| i <= k < self.values.len() ==> self.values[k] == old(self).values[k],
//@loopbody 1
            proof { T::ops_total(); }
//@tail
        proof {
            assert forall|r: int, c: int| 0 <= r < old(self).nrows && 0 <= c < old(self).ncols implies self.at(r, c) == old(self).at(r, c).div_spec(scalar) by {
                lemma_idx(r, c, self.nrows as int, self.ncols as int);
            }
        }
//@end
}
