// C03: negative_mut / abs_mut / pow_mut of DenseMatrix<T>, extracted and proved (included by dm_unary.rs and dm_defaults.rs)
impl<T: RealNumber> DenseMatrix<T> {
//@extract src/linalg/naive/dense_matrix.rs :: impl<T: RealNumber> BaseMatrix<T> for DenseMatrix<T> :: negative_mut
//@spec
        requires old(self).wf(),
        ensures final(self).wf(), final(self).nrows == old(self).nrows, final(self).ncols == old(self).ncols,
            forall|r: int, c: int| 0 <= r < old(self).nrows && 0 <= c < old(self).ncols ==> final(self).at(r, c) == old(self).at(r, c).neg_spec(), //# negative_mut-cellwise
//@enter
        proof { T::ops_total(); }
//@loop 1
            invariant self.wf(), old(self).wf(), self.nrows == old(self).nrows, self.ncols == old(self).ncols,
                VERUS_ghost_iter.iter.end == self.values.len(),
                forall|k: int| 0 <= k < i ==> self.values[k] == old(self).values[k].neg_spec(),
                forall|k: int| i <= k < self.values.len() ==> self.values[k] == old(self).values[k],
//@loopbody 1
            proof { T::ops_total(); }
//@exit
        proof {
            assert forall|r: int, c: int| 0 <= r < old(self).nrows && 0 <= c < old(self).ncols implies self.at(r, c) == old(self).at(r, c).neg_spec() by {
                lemma_idx(r, c, self.nrows as int, self.ncols as int);
            }
        }
//@end

//@extract src/linalg/naive/dense_matrix.rs :: impl<T: RealNumber> BaseMatrix<T> for DenseMatrix<T> :: abs_mut :: ret=res
//@spec
        requires old(self).wf(),
        ensures final(self).wf(), final(self).nrows == old(self).nrows, final(self).ncols == old(self).ncols,
            forall|r: int, c: int| 0 <= r < old(self).nrows && 0 <= c < old(self).ncols ==> final(self).at(r, c) == old(self).at(r, c).abs_spec(), //# abs_mut-cellwise
            *res == *final(self),
//@loop 1
            invariant self.wf(), old(self).wf(), self.nrows == old(self).nrows, self.ncols == old(self).ncols,
                VERUS_ghost_iter.iter.end == self.values.len(),
                forall|k: int| 0 <= k < i ==> self.values[k] == old(self).values[k].abs_spec(),
                forall|k: int| i <= k < self.values.len() ==> self.values[k] == old(self).values[k],
//@tail
        proof {
            assert forall|r: int, c: int| 0 <= r < old(self).nrows && 0 <= c < old(self).ncols implies self.at(r, c) == old(self).at(r, c).abs_spec() by {
                lemma_idx(r, c, self.nrows as int, self.ncols as int);
            }
        }
//@end

//@extract src/linalg/naive/dense_matrix.rs :: impl<T: RealNumber> BaseMatrix<T> for DenseMatrix<T> :: pow_mut :: ret=res
//@spec
        requires old(self).wf(),
        ensures final(self).wf(), final(self).nrows == old(self).nrows, final(self).ncols == old(self).ncols,
            forall|r: int, c: int| 0 <= r < old(self).nrows && 0 <= c < old(self).ncols ==> final(self).at(r, c) == old(self).at(r, c).powf_spec(p), //# pow_mut-cellwise
            *res == *final(self),
//@loop 1
            invariant self.wf(), old(self).wf(), self.nrows == old(self).nrows, self.ncols == old(self).ncols,
                VERUS_ghost_iter.iter.end == self.values.len(),
                forall|k: int| 0 <= k < i ==> self.values[k] == old(self).values[k].powf_spec(p),
                forall|k: int| i <= k < self.values.len() ==> self.values[k] == old(self).values[k],
//@tail
        proof {
            assert forall|r: int, c: int| 0 <= r < old(self).nrows && 0 <= c < old(self).ncols implies self.at(r, c) == old(self).at(r, c).powf_spec(p) by {
                lemma_idx(r, c, self.nrows as int, self.ncols as int);
            }
        }
//@end

    // copy_from: `self.values[..].clone_from_slice(..)` takes `&mut v[..]` (IndexMut<RangeFull>), for which this vstd has no
    // specification and none can be added from outside (assume_specification must be generic over I and the allocator):
    // not a Verus unit; covered by the bounded Kani harness C03/copy_from.
}
