//@unit tier=quick
// C12, third sentence, the geometric core of the filtering tree, under idealised real arithmetic (A-REAL):
// the comparison BBDTree::prune is PROVED to return (unit bbd_prune, same spec fns prune_lhs / prune_rhs) is sound:
// if it holds for a box (center, radius), then NO point of the box is strictly nearer to the pruned centroid `test`
// than to the current best candidate `best`.  This is a lemma about the FORMULA; it says nothing about rounding and
// nothing about how filter() uses the answer.
//@include prelude/uses.rs
verus! {
//@include prelude/realnumber.rs
//@include prelude/order.rs
//@include prelude/real.rs
//@include prelude/distance_defs.rs
//@include C12/inc/prune_defs.rs

// p lies in the box: |p_i - center_i| <= radius_i for every coordinate i < d (real reading)
pub open spec fn in_box<T: RealNumber>(p: Seq<T>, center: Seq<T>, radius: Seq<T>, d: int) -> bool {
    forall|i: int| 0 <= i < d ==> val(center[i]) - val(radius[i]) <= val(#[trigger] p[i]) <= val(center[i]) + val(radius[i])
}

// one coordinate: (P - (B + dl))^2 - (P - B)^2 = dl^2 - 2 dl (P - B), and dl (P - B) <= dl (V - B) for the extreme vertex V
proof fn lemma_coord(pp: real, b: real, t: real, c: real, r: real)
    requires c - r <= pp <= c + r,
    ensures
        (pp - t) * (pp - t) - (pp - b) * (pp - b) == (t - b) * (t - b) - 2real * ((t - b) * (pp - b)),
        t - b > 0real ==> (t - b) * (pp - b) <= (c + r - b) * (t - b),
        t - b <= 0real ==> (t - b) * (pp - b) <= (c - r - b) * (t - b),
{
    assert((pp - t) * (pp - t) - (pp - b) * (pp - b) == (t - b) * (t - b) - 2real * ((t - b) * (pp - b))) by(nonlinear_arith);
    if t - b > 0real {
        assert((t - b) * (pp - b) <= (c + r - b) * (t - b)) by(nonlinear_arith) requires t - b > 0real, pp <= c + r;
    } else {
        assert((t - b) * (pp - b) <= (c - r - b) * (t - b)) by(nonlinear_arith) requires t - b <= 0real, pp >= c - r;
    }
}

// |p - test|^2 - |p - best|^2  >=  prune_lhs - 2 prune_rhs   (prefix of length n)
proof fn lemma_prune_gap<T: RealNumber>(center: Seq<T>, radius: Seq<T>, best: Seq<T>, test: Seq<T>, p: Seq<T>, d: int, n: int)
    requires 0 <= n <= d, in_box(p, center, radius, d),
    ensures
        val(sq_euclid(p, test, n)) - val(sq_euclid(p, best, n))
            >= val(prune_lhs(best, test, n)) - 2real * val(prune_rhs(center, radius, best, test, n)),
    decreases n
{
    axiom_real::<T>();
    if n > 0 {
        lemma_prune_gap(center, radius, best, test, p, d, n - 1);
        let i = n - 1;
        let pp = val(p[i]); let b = val(best[i]); let t = val(test[i]); let c = val(center[i]); let r = val(radius[i]);
        assert(c - r <= pp <= c + r);
        lemma_coord(pp, b, t, c, r);
        let diff = prune_diff(best, test, i);
        assert(val(diff) == t - b);
        assert(gt(diff, T::zero_spec()) <==> t - b > 0real);
        let term = prune_term(center, radius, best, test, i);
        assert((t - b) * (pp - b) <= val(term));
        assert(val(prune_lhs(best, test, n)) == val(prune_lhs(best, test, n - 1)) + (t - b) * (t - b));
        assert(val(prune_rhs(center, radius, best, test, n)) == val(prune_rhs(center, radius, best, test, n - 1)) + val(term));
        assert(val(sq_euclid(p, test, n)) == val(sq_euclid(p, test, n - 1)) + (pp - t) * (pp - t));
        assert(val(sq_euclid(p, best, n)) == val(sq_euclid(p, best, n - 1)) + (pp - b) * (pp - b));
    }
}

// the pruning comparison is sound for every point of the box
pub proof fn lemma_prune_sound<T: RealNumber>(center: Seq<T>, radius: Seq<T>, best: Seq<T>, test: Seq<T>, p: Seq<T>, d: int)
    requires
        d >= 0,
        val(T::two_spec()) == 2real,        // T::two() is 2 in the real reading (not part of axiom_real: a hypothesis here)
        in_box(p, center, radius, d),
        // the value BBDTree::prune returns for best != test (unit bbd_prune)
        ge(prune_lhs(best, test, d), T::two_spec().mul_spec(prune_rhs(center, radius, best, test, d))),
    ensures
        !lt(sq_euclid(p, test, d), sq_euclid(p, best, d)), //# pruned-centroid-is-nowhere-in-the-box-strictly-nearer-than-the-best
        le(sq_euclid(p, best, d), sq_euclid(p, test, d)),
{
    axiom_real::<T>();
    lemma_prune_gap(center, radius, best, test, p, d, d);
    assert(val(prune_lhs(best, test, d)) >= 2real * val(prune_rhs(center, radius, best, test, d)));
}
} // verus!
fn main() {}
