//@unit tier=quick
//@include prelude/uses.rs
verus! {
//@include prelude/realnumber.rs
//@include prelude/order.rs
//@include C12/inc/prune_defs.rs

// C12, third sentence (tree-accelerated assignment): only the pruning test is plain code inside the Verus subset.
// Proved: BBDTree::prune returns exactly the closed-form comparison of prune_defs.rs (and never prunes the best
// candidate against itself).  NOT proved: that the comparison is geometrically sound, nor anything about filter /
// build_node / node_cost / clustering (see property.json).
//@struct src/algorithm/neighbour/bbd_tree.rs :: BBDTree
//@struct src/algorithm/neighbour/bbd_tree.rs :: BBDTreeNode
impl<T: RealNumber> BBDTree<T> {
//@extract src/algorithm/neighbour/bbd_tree.rs :: impl<T: RealNumber> BBDTree<T> :: prune :: ret=r
//@spec
        requires
            best_index < centroids@.len(), test_index < centroids@.len(),
            centroids@[best_index as int]@.len() >= centroids@[0]@.len(),
            centroids@[test_index as int]@.len() >= centroids@[0]@.len(),
            center@.len() >= centroids@[0]@.len(), radius@.len() >= centroids@[0]@.len(),
        ensures
            best_index == test_index ==> !r, //# prune-never-prunes-the-best-candidate
            best_index != test_index ==> r == ge(
                prune_lhs(centroids@[best_index as int]@, centroids@[test_index as int]@, centroids@[0]@.len() as int),
                T::two_spec().mul_spec(prune_rhs(center@, radius@, centroids@[best_index as int]@, centroids@[test_index as int]@,
                                                 centroids@[0]@.len() as int))), //# prune-is-the-extreme-vertex-comparison
//@enter
        proof { T::ops_total(); }
//@loop 1
            invariant
                T::obeys_add_spec(), T::obeys_sub_spec(), T::obeys_mul_spec(), T::obeys_add_assign_spec(), T::obeys_partial_cmp_spec(),
                forall|a: T, b: T| #[trigger] a.add_req(b),
                forall|a: T, b: T| #[trigger] a.sub_req(b),
                forall|a: T, b: T| #[trigger] a.mul_req(b),
                forall|a: T, b: T| #[trigger] a.add_assign_req(b),
                forall|a: T, b: T| *(#[trigger] a.add_assign_spec(b)) == a.add_spec(b),
                d == centroids@[0]@.len(),
                best@ == centroids@[best_index as int]@, test@ == centroids@[test_index as int]@,
                best@.len() >= d, test@.len() >= d, center@.len() >= d, radius@.len() >= d,
                lhs == prune_lhs(best@, test@, i as int),
                rhs == prune_rhs(center@, radius@, best@, test@, i as int),
//@end
}
} // verus!
fn main() {}
