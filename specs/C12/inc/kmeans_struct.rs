// ---------------------------------------------------------------------------------------------
// C12/inc/kmeans_struct.rs -- the KMeans / KMeansParameters structs (copied from /repo) and the representation
// invariant `wf()` that KMeans::fit establishes (unit C12/fit) and KMeans::predict relies on (unit C12/predict).
// Needs prelude/realnumber.rs.
// ---------------------------------------------------------------------------------------------
//@struct src/cluster/kmeans.rs :: KMeans
//@struct src/cluster/kmeans.rs :: KMeansParameters

impl<T: RealNumber> KMeans<T> {
    // what `fit` establishes and `predict` relies on: k >= 2 centroids, all of one dimension; one size per cluster
    spec fn wf(&self) -> bool {
        &&& self.k >= 2
        &&& self.centroids@.len() == self.k
        &&& self.size@.len() == self.k
        &&& forall|c: int| 0 <= c < self.k ==> (#[trigger] self.centroids@[c])@.len() == self.centroids@[0]@.len()
    }
    // dimension of the centroids
    spec fn dim(&self) -> int { self.centroids@[0]@.len() as int }
    spec fn cents(&self) -> Seq<Vec<T>> { self.centroids@ }
    spec fn kk(&self) -> int { self.k as int }
}

