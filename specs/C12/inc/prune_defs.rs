// ---------------------------------------------------------------------------------------------
// C12/inc/prune_defs.rs -- closed form of the pruning test of the filtering tree (Kanungo et al.): a candidate
// centroid `test` is pruned against the current best candidate `best` for a box (center, radius) when
//     |test - best|^2  >=  2 * (v - best) . (test - best)
// where v is the vertex of the box extreme in the direction (test - best): v_i = center_i + radius_i if
// test_i - best_i > 0, else center_i - radius_i.  Left folds in index order; arithmetic uninterpreted (A-ABS).
// Needs realnumber.rs, order.rs.
// ---------------------------------------------------------------------------------------------
pub open spec fn prune_diff<T: RealNumber>(best: Seq<T>, test: Seq<T>, i: int) -> T { test[i].sub_spec(best[i]) }
// sum_{i<n} (test_i - best_i)^2
pub open spec fn prune_lhs<T: RealNumber>(best: Seq<T>, test: Seq<T>, n: int) -> T
    decreases n
{
    if n <= 0 { T::zero_spec() } else {
        prune_lhs(best, test, n - 1).add_spec(prune_diff(best, test, n - 1).mul_spec(prune_diff(best, test, n - 1)))
    }
}
// (v_i - best_i) * (test_i - best_i) for the extreme vertex v
pub open spec fn prune_term<T: RealNumber>(center: Seq<T>, radius: Seq<T>, best: Seq<T>, test: Seq<T>, i: int) -> T {
    let diff = prune_diff(best, test, i);
    if gt(diff, T::zero_spec()) {
        center[i].add_spec(radius[i]).sub_spec(best[i]).mul_spec(diff)
    } else {
        center[i].sub_spec(radius[i]).sub_spec(best[i]).mul_spec(diff)
    }
}
// sum_{i<n} (v_i - best_i) * (test_i - best_i)
pub open spec fn prune_rhs<T: RealNumber>(center: Seq<T>, radius: Seq<T>, best: Seq<T>, test: Seq<T>, n: int) -> T
    decreases n
{
    if n <= 0 { T::zero_spec() } else {
        prune_rhs(center, radius, best, test, n - 1).add_spec(prune_term(center, radius, best, test, n - 1))
    }
}
