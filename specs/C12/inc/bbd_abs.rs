// ---------------------------------------------------------------------------------------------
// C12/inc/bbd_abs.rs -- stand-ins for the two callees of KMeans::fit whose bodies are NOT verified here:
// BBDTree::new / BBDTree::clustering (src/algorithm/neighbour/bbd_tree.rs: recursion over a kd-style tree,
// `.enumerate()`, `iter_mut().for_each(closure)`, coordinate arithmetic).  Structs copied from /repo.
// Needs fit_defs.rs (cluster_stats) and a Matrix trait.
//
// ASSUME[A-BBD-CLUSTERING] (open) contract of the filtering tree as far as KMeans::fit's bookkeeping needs it:
//   for a tree built by BBDTree::new from a matrix with rows `rows`, `clustering` leaves in (membership, counts, sums)
//   the statistics of ONE assignment of all rows to clusters < k: counts[c] = #{i: membership[i] = c} and, in the real
//   reading of the entries, sums[c][j] = sum of rows[i][j] over the rows with membership[i] = c.
//   NOT assumed: that the assignment is a nearest-centroid assignment, nor anything about the returned distortion.
//   The contract is conditional on `bbd_rows_separated(rows)`: build_node turns every set of rows whose bounding box
//   has half-width < 1E-10 in every coordinate into ONE leaf and uses `first row * count` as its sum, so for
//   distinct rows closer than that the sums are NOT the sums of the rows (see property.json, findings).
// ---------------------------------------------------------------------------------------------
//@struct src/algorithm/neighbour/bbd_tree.rs :: BBDTree
//@struct src/algorithm/neighbour/bbd_tree.rs :: BBDTreeNode

// ASSUME[A-BBD-CLUSTERING] `bbd_built_from(t, rows)`: t is a value BBDTree::new returns for a matrix whose rows are `rows`
// (a relation: the tree stores per-node boxes / sums / counts and an index permutation, not the rows themselves)
pub uninterp spec fn bbd_built_from<T: RealNumber>(t: &BBDTree<T>, rows: Seq<Seq<T>>) -> bool;
// ASSUME[A-BBD-CLUSTERING] `bbd_rows_separated(rows)`: any two rows are identical or differ by at least 2E-10 in some
// coordinate, i.e. no leaf of the tree merges distinct rows (a PRECONDITION of KMeans::fit's contract, not a fact)
pub uninterp spec fn bbd_rows_separated<T: RealNumber>(rows: Seq<Seq<T>>) -> bool;

impl<T: RealNumber> BBDTree<T> {
//@checkdecl src/algorithm/neighbour/bbd_tree.rs :: impl<T: RealNumber> BBDTree<T> :: new :: fn new<M: Matrix<T>>(data: &M) -> BBDTree<T>
    // ASSUME[A-BBD-CLUSTERING] BBDTree::new returns (if it returns) a tree built from the rows of `data`
    #[verifier::external_body]
    fn new<M: Matrix<T>>(data: &M) -> (r: BBDTree<T>)
        requires data.mwf(), data.nrows_spec() >= 1,
        ensures bbd_built_from(&r, mat_rows(data)),
    { unimplemented!() }

//@checkdecl src/algorithm/neighbour/bbd_tree.rs :: impl<T: RealNumber> BBDTree<T> :: clustering :: fn clustering( &self, centroids: &[Vec<T>], sums: &mut Vec<Vec<T>>, counts: &mut Vec<usize>, membership: &mut Vec<usize>, ) -> T
    // ASSUME[A-BBD-CLUSTERING] see the header of this file
    #[verifier::external_body]
    fn clustering(&self, centroids: &[Vec<T>], sums: &mut Vec<Vec<T>>, counts: &mut Vec<usize>, membership: &mut Vec<usize>) -> (r: T)
        requires
            centroids@.len() >= 1,
            old(sums)@.len() == centroids@.len(),
            old(counts)@.len() == centroids@.len(),
            forall|c: int| 0 <= c < centroids@.len() ==> (#[trigger] centroids@[c])@.len() == centroids@[0]@.len(),
            forall|c: int| 0 <= c < centroids@.len() ==> (#[trigger] old(sums)@[c])@.len() == centroids@[0]@.len(),
        ensures
            // shapes are kept
            final(sums)@.len() == old(sums)@.len(),
            forall|c: int| 0 <= c < old(sums)@.len() ==> (#[trigger] final(sums)@[c])@.len() == old(sums)@[c]@.len(),
            final(counts)@.len() == old(counts)@.len(),
            final(membership)@.len() == old(membership)@.len(),
            // the statistics of one assignment of the rows the tree was built from
            forall|rows: Seq<Seq<T>>| #[trigger] bbd_built_from(self, rows) && bbd_rows_separated(rows)
                && rows.len() == old(membership)@.len()
                && (forall|i: int| 0 <= i < rows.len() ==> (#[trigger] rows[i]).len() == centroids@[0]@.len())
                ==> cluster_stats(rows, final(membership)@, deep(final(sums)@), final(counts)@,
                                  centroids@.len() as int, centroids@[0]@.len() as int),
    { unimplemented!() }
}
