// ---------------------------------------------------------------------------------------------
// C12/inc/predict_defs.rs -- vocabulary of "assigns every row to a centroid at minimal Euclidean distance".
// Needs realnumber.rs, order.rs, total_order.rs, basevector.rs, matrix_abs2.rs (row_view), distance_defs.rs (sq_euclid).
// ---------------------------------------------------------------------------------------------
// squared Euclidean distance (the fold of prelude/distance_defs.rs) between row i of x and centroid j
pub open spec fn kd<T: RealNumber, M: Matrix<T>>(x: &M, cents: Seq<Vec<T>>, i: int, j: int) -> T {
    sq_euclid(row_view(x, i), cents[j]@, x.ncols_spec())
}
// all values the nearest-centroid scan of row i compares: its k distances and T::max_value()
pub open spec fn kd_dom<T: RealNumber, M: Matrix<T>>(x: &M, cents: Seq<Vec<T>>, i: int, k: int) -> Set<T> {
    Seq::new(k as nat, |j: int| kd(x, cents, i, j)).to_set().insert(T::max_value_spec())
}
pub proof fn lemma_kd_dom<T: RealNumber, M: Matrix<T>>(x: &M, cents: Seq<Vec<T>>, i: int, k: int, j: int)
    requires 0 <= j < k,
    ensures kd_dom(x, cents, i, k).contains(kd(x, cents, i, j)), kd_dom(x, cents, i, k).contains(T::max_value_spec()),
{
    let s = Seq::new(k as nat, |j: int| kd(x, cents, i, j));
    assert(s[j] == kd(x, cents, i, j));
    assert(s.contains(kd(x, cents, i, j)));
}
// centroid b is a nearest centroid of row i: NO centroid is strictly closer ...
pub open spec fn is_nearest<T: RealNumber, M: Matrix<T>>(x: &M, cents: Seq<Vec<T>>, k: int, i: int, b: int) -> bool {
    0 <= b < k && forall|j: int| 0 <= j < k ==> !lt(#[trigger] kd(x, cents, i, j), kd(x, cents, i, b))
}
// ... and it is the FIRST such centroid: every centroid with a smaller index is strictly farther
pub open spec fn is_first_nearest<T: RealNumber, M: Matrix<T>>(x: &M, cents: Seq<Vec<T>>, k: int, i: int, b: int) -> bool {
    is_nearest(x, cents, k, i, b) && forall|j: int| 0 <= j < b ==> lt(kd(x, cents, i, b), #[trigger] kd(x, cents, i, j))
}
// the label v stored for row i is the conversion T::from(b) of a nearest centroid's index b
pub open spec fn labelled_nearest<T: RealNumber, M: Matrix<T>>(x: &M, cents: Seq<Vec<T>>, k: int, i: int, v: T) -> bool {
    exists|b: int| #[trigger] is_nearest(x, cents, k, i, b) && v == T::from_spec::<usize>(b as usize)
}
pub open spec fn labelled_first_nearest<T: RealNumber, M: Matrix<T>>(x: &M, cents: Seq<Vec<T>>, k: int, i: int, v: T) -> bool {
    exists|b: int| #[trigger] is_first_nearest(x, cents, k, i, b) && v == T::from_spec::<usize>(b as usize)
}

// order facts used by the scan (consequences of total_on, prelude/total_order.rs)
pub proof fn lemma_lt_le_trans<T: PartialOrd>(dom: Set<T>, a: T, b: T, c: T)
    requires total_on(dom), dom.contains(a), dom.contains(b), dom.contains(c), lt(a, b), le(b, c),
    ensures lt(a, c),
{
    lemma_total_not_lt(dom, a, c);
    lemma_total_not_lt(dom, b, a);
    if ge(a, c) {
        assert(le(c, a));
        assert(le(b, c) && le(c, a));
        assert(le(b, a));
    }
}
pub proof fn lemma_irrefl<T: PartialOrd>(dom: Set<T>, a: T)
    requires total_on(dom), dom.contains(a),
    ensures !lt(a, a), le(a, a),
{}
