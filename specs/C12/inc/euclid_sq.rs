// ---------------------------------------------------------------------------------------------
// C12/inc/euclid_sq.rs -- Euclidian::squared_distance, EXTRACTED AND PROVED in every unit that includes this
// file (same contract text as unit C17/euclidian, which owns its vacuity canary): callers in this property
// (KMeans::predict, BBDTree::prune ...) are verified against the contract of the real function text, no stub.
// Needs prelude/realnumber.rs and prelude/distance_defs.rs (sq_euclid).
// ---------------------------------------------------------------------------------------------
//@struct src/math/distance/euclidian.rs :: Euclidian
impl Euclidian {
//@extract src/math/distance/euclidian.rs :: impl Euclidian :: squared_distance :: ret=r
//@spec
        requires
            x@.len() == y@.len(),
        ensures
            r == sq_euclid(x@, y@, x@.len() as int), //# squared-euclid-is-sum-of-squared-differences
//@enter
        proof { T::ops_total(); }
//@loop 1
            invariant
                T::obeys_add_assign_spec(), T::obeys_sub_spec(), T::obeys_mul_spec(),
                forall|a: T, b: T| #[trigger] a.sub_req(b),
                forall|a: T, b: T| #[trigger] a.mul_req(b),
                forall|a: T, b: T| #[trigger] a.add_assign_req(b),
                forall|a: T, b: T| *(#[trigger] a.add_assign_spec(b)) == a.add_spec(b),
                x@.len() == y@.len(),
                sum == sq_euclid(x@, y@, i as int),
//@end
}
