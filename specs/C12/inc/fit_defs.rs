// ---------------------------------------------------------------------------------------------
// C12/inc/fit_defs.rs -- vocabulary of "each centroid with members is the mean of the training rows last assigned
// to it, and the reported cluster sizes are the counts of those assignments and sum to n".
// Needs realnumber.rs, real.rs (only the ghost value `val: T -> real`, no axiom of A-REAL is used), a Matrix trait.
// ---------------------------------------------------------------------------------------------
// the rows of a matrix as sequences
pub open spec fn mat_rows<T: RealNumber, M: Matrix<T>>(m: &M) -> Seq<Seq<T>> {
    Seq::new(m.nrows_spec() as nat, |i: int| Seq::new(m.ncols_spec() as nat, |j: int| m.at(i, j)))
}
// #{ i < n : y[i] == c }
pub open spec fn count_eq(y: Seq<usize>, c: int, n: int) -> int
    decreases n
{
    if n <= 0 { 0 } else { count_eq(y, c, n - 1) + if y[n - 1] == c { 1int } else { 0int } }
}
// sum of column j over the rows assigned to cluster c, in the REAL reading of the entries: sum_{i<n, y[i]==c} val(rows[i][j]).
// (The filtering tree adds the rows of a cluster in tree order, not in index order: under uninterpreted machine
// arithmetic (A-ABS) no particular fold can be claimed for its result, only the value in the real reading.)
pub open spec fn rsum<T: RealNumber>(rows: Seq<Seq<T>>, y: Seq<usize>, c: int, j: int, n: int) -> real
    decreases n
{
    if n <= 0 { 0real } else { rsum(rows, y, c, j, n - 1) + if y[n - 1] == c { val(rows[n - 1][j]) } else { 0real } }
}
// size[0] + ... + size[k-1]
pub open spec fn sum_sizes(size: Seq<usize>, k: int) -> int
    decreases k
{
    if k <= 0 { 0 } else { sum_sizes(size, k - 1) + size[k - 1] }
}
pub open spec fn deep<T>(s: Seq<Vec<T>>) -> Seq<Seq<T>> { Seq::new(s.len(), |c: int| s[c]@) }

// (y, sums, cnt) are the statistics of ONE assignment of the rows to k clusters:
// every row has a cluster < k, cnt[c] is the number of rows of cluster c, sums[c][j] their column sum (real reading)
pub open spec fn cluster_stats<T: RealNumber>(rows: Seq<Seq<T>>, y: Seq<usize>, sums: Seq<Seq<T>>, cnt: Seq<usize>, k: int, d: int) -> bool {
    let n = rows.len() as int;
    &&& y.len() == n
    &&& forall|i: int| 0 <= i < n ==> #[trigger] y[i] < k
    &&& cnt.len() == k
    &&& forall|c: int| 0 <= c < k ==> #[trigger] cnt[c] == count_eq(y, c, n)
    &&& sums.len() == k
    &&& forall|c: int| 0 <= c < k ==> (#[trigger] sums[c]).len() == d
    &&& forall|c: int, j: int| 0 <= c < k && 0 <= j < d ==> val(#[trigger] sums[c][j]) == rsum(rows, y, c, j, n)
}
// the centroids are the per-cluster column sums `sums` of the assignment y, divided (T's division) by the converted
// cluster size, for every cluster that has members
pub open spec fn centroids_are_means<T: RealNumber>(rows: Seq<Seq<T>>, y: Seq<usize>, sums: Seq<Seq<T>>, size: Seq<usize>,
                                                   cents: Seq<Seq<T>>, k: int, d: int) -> bool {
    &&& cluster_stats(rows, y, sums, size, k, d)
    &&& forall|c: int, j: int| 0 <= c < k && 0 <= j < d && size[c] > 0
            ==> #[trigger] cents[c][j] == sums[c][j].div_spec(T::from_spec::<usize>(size[c]))
}

// ---- the sizes of an assignment sum to n ----
pub open spec fn sum_counts(y: Seq<usize>, n: int, k: int) -> int
    decreases k
{
    if k <= 0 { 0 } else { sum_counts(y, n, k - 1) + count_eq(y, k - 1, n) }
}
pub proof fn lemma_sum_counts_step(y: Seq<usize>, n: int, k: int)
    requires n >= 1,
    ensures sum_counts(y, n, k) == sum_counts(y, n - 1, k) + if 0 <= (y[n - 1] as int) < k { 1int } else { 0int },
    decreases k
{
    if k > 0 { lemma_sum_counts_step(y, n, k - 1); }
}
pub proof fn lemma_sum_counts_zero(y: Seq<usize>, k: int)
    ensures sum_counts(y, 0, k) == 0,
    decreases k
{
    if k > 0 { lemma_sum_counts_zero(y, k - 1); }
}
pub proof fn lemma_sum_counts(y: Seq<usize>, n: int, k: int)
    requires 0 <= n <= y.len(), forall|i: int| 0 <= i < n ==> #[trigger] y[i] < k,
    ensures sum_counts(y, n, k) == n,
    decreases n
{
    if n > 0 {
        lemma_sum_counts(y, n - 1, k);
        lemma_sum_counts_step(y, n, k);
    } else {
        lemma_sum_counts_zero(y, k);
    }
}
pub proof fn lemma_sum_sizes(size: Seq<usize>, y: Seq<usize>, n: int, k: int)
    requires 0 <= k <= size.len(), forall|c: int| 0 <= c < k ==> #[trigger] size[c] == count_eq(y, c, n),
    ensures sum_sizes(size, k) == sum_counts(y, n, k),
    decreases k
{
    if k > 0 { lemma_sum_sizes(size, y, n, k - 1); }
}
