//@unit tier=quick
//@include prelude/uses.rs
verus! {
//@include prelude/realnumber.rs
//@include prelude/order.rs
//@include prelude/total_order.rs
//@include prelude/error.rs
//@include prelude/basevector.rs
//@include prelude/matrix_abs2.rs
//@include prelude/distance_defs.rs
//@include C12/inc/euclid_sq.rs
//@include C12/inc/kmeans_struct.rs
//@include C12/inc/predict_defs.rs

// C12, second sentence: "Predicting assigns every row to a centroid at minimal Euclidean distance."
// KMeans::predict is generic over the matrix backend (contract of prelude/matrix_abs2.rs) and calls the extracted and
// proved Euclidian::squared_distance (C12/inc/euclid_sq.rs): the distances compared are exactly kd(x, centroids, i, j).
impl<T: RealNumber> KMeans<T> {
    // loops see the facts of the enclosing code: e.g. the row copy may sit before the scan loop just as well as inside it
    #[verifier::loop_isolation(false)]
//@extract src/cluster/kmeans.rs :: impl<T: RealNumber + Sum> KMeans<T> :: predict :: ret=r
//@spec
        requires
            self.wf(),                        // established by fit (unit C12/fit)
            x.mwf(),
            x.ncols_spec() == self.dim(),     // otherwise squared_distance panics (C17/reject)
            // partial_cmp is a total preorder on the values the scan compares (no NaN distance) ...
            forall|i: int| 0 <= i < x.nrows_spec() ==> total_on(#[trigger] kd_dom(x, self.centroids@, i, self.k as int)),
            // ... and no distance exceeds T::max_value(), the value the scan starts from (no +inf distance)
            forall|i: int, j: int| 0 <= i < x.nrows_spec() && 0 <= j < self.k
                ==> le(#[trigger] kd(x, self.centroids@, i, j), T::max_value_spec()),
        ensures
            r is Ok,
            r->Ok_0.vview().len() == x.nrows_spec(),
            // every row is labelled with (the conversion of) the index of a centroid than which none is strictly closer
            forall|i: int| 0 <= i < x.nrows_spec()
                ==> labelled_nearest(x, self.centroids@, self.k as int, i, #[trigger] r->Ok_0.vview()[i]), //# predict-assigns-a-nearest-centroid
            // tie rule of the code (strict `<`, ascending scan): among the nearest centroids the one with the lowest index
            forall|i: int| 0 <= i < x.nrows_spec()
                ==> labelled_first_nearest(x, self.centroids@, self.k as int, i, #[trigger] r->Ok_0.vview()[i]), //# predict-ties-go-to-the-lowest-index
//@enter
        proof { T::ops_total(); }
        let ghost cs = self.centroids@;
        let ghost kk = self.k as int;
//@loop 1
            invariant
                T::obeys_partial_cmp_spec(),
                self.wf(), x.mwf(), x.ncols_spec() == self.dim(),
                n == x.nrows_spec(), m == x.ncols_spec(),
                forall|a: int| 0 <= a < n ==> total_on(#[trigger] kd_dom(x, cs, a, kk)),
                cs == self.centroids@, kk == self.k,
                forall|i: int, j: int| 0 <= i < n && 0 <= j < kk ==> le(#[trigger] kd(x, cs, i, j), T::max_value_spec()),
                row@.len() == m,
                result.mwf(), result.nrows_spec() == 1, result.ncols_spec() == n,
                forall|a: int| 0 <= a < i ==> labelled_first_nearest(x, cs, kk, a, #[trigger] result.at(0, a)), //# inv-rows-done-are-labelled-with-their-first-nearest-centroid
//@loopbody 1
            let ghost dom = kd_dom(x, cs, i as int, kk);
            let ghost before = result;
            proof { lemma_kd_dom(x, cs, i as int, kk, 0); }
//@loop 2
                invariant
                    T::obeys_partial_cmp_spec(),
                    self.wf(), x.mwf(), x.ncols_spec() == self.dim(),
                    n == x.nrows_spec(), m == x.ncols_spec(), i < n,
                    dom == kd_dom(x, cs, i as int, kk), total_on(dom),
                    cs == self.centroids@, kk == self.k,
                    forall|a: int, b: int| 0 <= a < n && 0 <= b < kk ==> le(#[trigger] kd(x, cs, a, b), T::max_value_spec()),
                    row@.len() == m,
                    // the running minimum is max_value (nothing chosen yet, best_cluster still 0) or the distance of best_cluster
                    dom.contains(min_dist),
                    (min_dist == T::max_value_spec() && best_cluster == 0) || (best_cluster < j && min_dist == kd(x, cs, i as int, best_cluster as int)), //# inv-running-minimum-is-max-value-or-the-distance-of-the-best
                    // no centroid seen so far is strictly closer than the running minimum,
                    forall|b: int| 0 <= b < j ==> !lt(#[trigger] kd(x, cs, i as int, b), min_dist), //# inv-no-seen-centroid-is-strictly-closer-than-the-running-minimum
                    // and the centroids before best_cluster are strictly farther
                    forall|b: int| 0 <= b < best_cluster ==> lt(min_dist, #[trigger] kd(x, cs, i as int, b)), //# inv-centroids-before-the-best-are-strictly-farther
//@loopbody 2
                let ghost min0 = min_dist;      // the running minimum before this centroid is looked at
//@loopend 2
                proof {
                    assert(row@ =~= row_view(x, i as int));
                    assert(dist == kd(x, cs, i as int, j as int));
                    lemma_kd_dom(x, cs, i as int, kk, j as int);
                    lemma_irrefl(dom, dist);
                    if lt(dist, min0) {
                        assert forall|b: int| 0 <= b < j implies lt(dist, #[trigger] kd(x, cs, i as int, b)) by {
                            let e = kd(x, cs, i as int, b);
                            lemma_kd_dom(x, cs, i as int, kk, b);
                            lemma_total_not_lt(dom, e, min0);      // !lt(e, min) ==> ge(e, min) ==> le(min, e)
                            lemma_lt_le_trans(dom, dist, min0, e);
                        }
                        assert forall|b: int| 0 <= b < j + 1 implies !lt(#[trigger] kd(x, cs, i as int, b), dist) by {
                            let e = kd(x, cs, i as int, b);
                            lemma_kd_dom(x, cs, i as int, kk, b);
                            lemma_total_not_lt(dom, e, dist);
                            lemma_total_not_lt(dom, dist, e);
                        }
                    }
                }
//@loopend 1
            proof {
                // the scan has seen all k >= 2 centroids: best_cluster is the first nearest centroid of row i
                let bc = best_cluster as int;
                let db = kd(x, cs, i as int, bc);
                lemma_kd_dom(x, cs, i as int, kk, bc);
                if !(best_cluster < kk && min_dist == db) {
                    // nothing was ever below max_value: every distance equals max_value in the order, centroid 0 is nearest
                    assert forall|b: int| 0 <= b < kk implies !lt(#[trigger] kd(x, cs, i as int, b), db) by {
                        let e = kd(x, cs, i as int, b);
                        lemma_kd_dom(x, cs, i as int, kk, b);
                        lemma_total_not_lt(dom, e, T::max_value_spec());
                        lemma_total_not_lt(dom, db, T::max_value_spec());
                        lemma_total_not_lt(dom, T::max_value_spec(), e);
                        lemma_total_not_lt(dom, e, db);
                        // le(db, max) and le(max, e) ==> le(db, e)
                        assert(le(db, T::max_value_spec()) && le(T::max_value_spec(), e));
                        assert(le(db, e));
                    }
                }
                assert(is_first_nearest(x, cs, kk, i as int, bc)); //# scan-result-is-the-first-nearest-centroid
                assert(labelled_first_nearest(x, cs, kk, i as int, result.at(0, i as int))); //# stored-label-is-the-conversion-of-the-first-nearest-centroid
                assert forall|a: int| 0 <= a < i implies labelled_first_nearest(x, cs, kk, a, #[trigger] result.at(0, a)) by {
                    assert(result.at(0, a) == before.at(0, a));
                }
            }
//@tail
        proof {
            // "first nearest" implies "nearest" (the property-level clause)
            assert forall|a: int| 0 <= a < n implies labelled_nearest(x, cs, kk, a, #[trigger] result.at(0, a)) by {
                assert(labelled_first_nearest(x, cs, kk, a, result.at(0, a)));
                let b = choose|b: int| #[trigger] is_first_nearest(x, cs, kk, a, b) && result.at(0, a) == T::from_spec::<usize>(b as usize);
                assert(is_nearest(x, cs, kk, a, b));
            }
        }
//@end
}
} // verus!
fn main() {}
