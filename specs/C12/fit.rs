//@unit tier=quick
//@include prelude/uses.rs
use vstd::std_specs::iter::IteratorSpec;
verus! {
//@include prelude/realnumber.rs
//@include prelude/real.rs
//@include prelude/error.rs
//@include prelude/basevector.rs
//@include prelude/matrix_abs2.rs
//@include C12/inc/kmeans_struct.rs
//@include C12/inc/fit_defs.rs
//@include C12/inc/bbd_abs.rs

// C12, first sentence: "k-means returns k [finite] centroids such that each centroid with members is the mean of the
// training rows last assigned to it, and the reported cluster sizes are the counts of those assignments and sum to n."
// KMeans::fit is verified RELATIVE to the assumed contracts of its two callees that are outside the Verus subset:
// kmeans_plus_plus (thread_rng) and BBDTree::new / BBDTree::clustering (C12/inc/bbd_abs.rs).
impl<T: RealNumber> KMeans<T> {
//@checkdecl src/cluster/kmeans.rs :: impl<T: RealNumber + Sum> KMeans<T> :: kmeans_plus_plus :: fn kmeans_plus_plus<M: Matrix<T>>(data: &M, k: usize) -> Vec<usize>
    // ASSUME[A-KMEANSPP] k-means++ seeding (draws from rand::thread_rng): whatever the draws, if it returns, it returns
    // one label < k per row.  Nothing is assumed about WHICH labels (every random initialisation is covered).
    #[verifier::external_body]
    fn kmeans_plus_plus<M: Matrix<T>>(data: &M, k: usize) -> (y: Vec<usize>)
        requires data.mwf(), data.nrows_spec() >= 1, k >= 1,
        ensures y@.len() == data.nrows_spec(), forall|i: int| 0 <= i < y@.len() ==> #[trigger] y@[i] < k,
    { unimplemented!() }

//@extract src/cluster/kmeans.rs :: impl<T: RealNumber + Sum> KMeans<T> :: fit :: ret=r
//@spec
        requires
            data.mwf(),
            data.nrows_spec() >= 1,               // BBDTree::new runs before the parameter checks and indexes row 0
            bbd_rows_separated(mat_rows(data)),   // no two distinct rows within the tree's 1E-10 leaf cutoff (see bbd_abs.rs)
        ensures
            // parameter validation
            (parameters.k < 2 || parameters.max_iter == 0) ==> r is Err, //# fit-rejects-k-below-2-and-zero-iterations
            (parameters.k >= 2 && parameters.max_iter >= 1) ==> r is Ok, //# fit-succeeds-on-valid-parameters
            // k centroids, each of the dimension of the data; one size per cluster (wf() is what predict requires)
            r is Ok ==> r->Ok_0.wf() && r->Ok_0.k == parameters.k && r->Ok_0.dim() == data.ncols_spec(), //# fit-returns-k-centroids-of-the-data-dimension
            // the stored assignment gives every training row a cluster
            r is Ok ==> r->Ok_0._y@.len() == data.nrows_spec(), //# fit-assignment-has-one-label-per-row
            r is Ok ==> forall|i: int| 0 <= i < data.nrows_spec() ==> #[trigger] r->Ok_0._y@[i] < parameters.k, //# fit-assigns-every-row-to-a-cluster
            // sizes are the counts of that assignment ...
            r is Ok ==> forall|c: int| 0 <= c < parameters.k
                ==> #[trigger] r->Ok_0.size@[c] == count_eq(r->Ok_0._y@, c, data.nrows_spec()), //# fit-sizes-are-the-counts-of-the-last-assignment
            // ... and sum to n
            r is Ok ==> sum_sizes(r->Ok_0.size@, parameters.k as int) == data.nrows_spec(), //# fit-sizes-sum-to-n
            // every centroid with members is (column sums of the rows of the stored assignment) / (its size);
            // `sums` are those of the LAST clustering call, on the early-exit path as well
            r is Ok ==> exists|sums: Seq<Seq<T>>| #[trigger] centroids_are_means(mat_rows(data), r->Ok_0._y@, sums, r->Ok_0.size@,
                deep(r->Ok_0.centroids@), parameters.k as int, data.ncols_spec()), //# fit-centroid-with-members-is-the-mean-of-its-last-assigned-rows
//@enter
        proof { T::ops_total(); T::from_self_is_identity(); }
        let ghost rows = mat_rows(data);
        let ghost mut done = false;     // set as soon as an iteration of the Lloyd loop (loop 6) has started
        // the sizes of ANY assignment statistics sum to the number of rows (used after the Lloyd loop, for the returned value)
        proof {
            assert forall|rws: Seq<Seq<T>>, yy: Seq<usize>, ss: Seq<Seq<T>>, cnt: Seq<usize>, k: int, dd: int|
                #[trigger] cluster_stats(rws, yy, ss, cnt, k, dd) && k >= 0 implies sum_sizes(cnt, k) == rws.len() by {
                lemma_sum_counts(yy, rws.len() as int, k);
                lemma_sum_sizes(cnt, yy, rws.len() as int, k);
            }
        }
//@loop 1
            invariant
                n == data.nrows_spec(),
                parameters.k >= 2, //# fit-continues-only-with-k-at-least-2
                y@.len() == n, forall|a: int| 0 <= a < n ==> #[trigger] y@[a] < parameters.k,
                size@.len() == parameters.k,
                forall|c: int| 0 <= c < parameters.k ==> #[trigger] size@[c] <= i,
//@loop 2
            invariant
                T::obeys_add_assign_spec(), forall|a: T, b: T| #[trigger] a.add_assign_req(b),
                data.mwf(), n == data.nrows_spec(), d == data.ncols_spec(),
                y@.len() == n, forall|a: int| 0 <= a < n ==> #[trigger] y@[a] < parameters.k,
                centroids@.len() == parameters.k,
                forall|c: int| 0 <= c < parameters.k ==> (#[trigger] centroids@[c])@.len() == d,
//@loop 3
                invariant
                    T::obeys_add_assign_spec(), forall|a: T, b: T| #[trigger] a.add_assign_req(b),
                    data.mwf(), n == data.nrows_spec(), d == data.ncols_spec(), i < n,
                    y@.len() == n, forall|a: int| 0 <= a < n ==> #[trigger] y@[a] < parameters.k,
                    centroids@.len() == parameters.k,
                    forall|c: int| 0 <= c < parameters.k ==> (#[trigger] centroids@[c])@.len() == d,
//@loop 4
            invariant
                T::obeys_div_assign_spec(), forall|a: T, b: T| #[trigger] a.div_assign_req(b),
                size@.len() == parameters.k,
                centroids@.len() == parameters.k,
                forall|c: int| 0 <= c < parameters.k ==> (#[trigger] centroids@[c])@.len() == d,
//@loop 5
                invariant
                    T::obeys_div_assign_spec(), forall|a: T, b: T| #[trigger] a.div_assign_req(b),
                    size@.len() == parameters.k, i < parameters.k,
                    centroids@.len() == parameters.k,
                    forall|c: int| 0 <= c < parameters.k ==> (#[trigger] centroids@[c])@.len() == d,
//@loop 6
            invariant
                T::obeys_div_spec(), forall|a: T, b: T| #[trigger] a.div_req(b), T::obeys_partial_cmp_spec(),
                forall|x: T| #[trigger] T::from_spec::<T>(x) == x,
                data.mwf(), n == data.nrows_spec(), d == data.ncols_spec(), parameters.k >= 2, parameters.max_iter >= 1,
                rows == mat_rows(data), bbd_built_from(&bbd, rows), bbd_rows_separated(rows),
                y@.len() == n, size@.len() == parameters.k,
                sums@.len() == parameters.k,
                forall|c: int| 0 <= c < parameters.k ==> (#[trigger] sums@[c])@.len() == d,
                centroids@.len() == parameters.k,
                forall|c: int| 0 <= c < parameters.k ==> (#[trigger] centroids@[c])@.len() == d,
                // no clustering yet: the iteration range 1..=max_iter is not exhausted
                VERUS_ghost_iter.iter.obeys_prophetic_iter_laws(),
                !done ==> VERUS_ghost_iter.iter.remaining().len() > 0, //# inv-iteration-range-not-exhausted-before-the-first-clustering
                // ... so the loop is not left through the iteration limit before a clustering call
                VERUS_ghost_iter.iter.remaining().len() == 0 ==> done, //# at-least-one-clustering-call-was-made
                // after every (complete or interrupted) iteration: (y, size, sums) are the statistics of the clustering
                // call of THIS iteration and the centroids with members have been recomputed from them
                done ==> centroids_are_means(rows, y@, deep(sums@), size@, deep(centroids@), parameters.k as int, d as int), //# inv-centroids-belong-to-the-last-clustering
            // The loops are not isolated (a loop `ensures` would be ignored): what is returned right after the loop is known per exit.
            // Iteration limit: the two invariants above.  Distortion test (`break`): the exit clause of loop 7 below.
//@loopbody 6
            proof { done = true; }
//@loop 7
                invariant
                    T::obeys_div_spec(), forall|a: T, b: T| #[trigger] a.div_req(b),
                    forall|x: T| #[trigger] T::from_spec::<T>(x) == x,
                    d == data.ncols_spec(), size@.len() == parameters.k,
                    sums@.len() == parameters.k,
                    forall|c: int| 0 <= c < parameters.k ==> (#[trigger] sums@[c])@.len() == d,
                    centroids@.len() == parameters.k,
                    forall|c: int| 0 <= c < parameters.k ==> (#[trigger] centroids@[c])@.len() == d,
                    forall|c: int, j: int| 0 <= c < i && 0 <= j < d && size@[c] > 0
                        ==> #[trigger] centroids@[c]@[j] == sums@[c]@[j].div_spec(T::from_spec::<usize>(size@[c])), //# inv-recomputed-centroids-are-sum-over-size
                    // once every cluster is recomputed (the state in which the distortion test may `break`): the centroids belong to
                    // the assignment of this iteration's clustering call
                    i == parameters.k ==> centroids_are_means(rows, y@, deep(sums@), size@, deep(centroids@), parameters.k as int, d as int), //# returned-centroids-belong-to-the-returned-assignment
//@loop 8
                        invariant
                            T::obeys_div_spec(), forall|a: T, b: T| #[trigger] a.div_req(b),
                            forall|x: T| #[trigger] T::from_spec::<T>(x) == x,
                            d == data.ncols_spec(), size@.len() == parameters.k, i < parameters.k, size@[i as int] > 0,
                            sums@.len() == parameters.k,
                            forall|c: int| 0 <= c < parameters.k ==> (#[trigger] sums@[c])@.len() == d,
                            centroids@.len() == parameters.k,
                            forall|c: int| 0 <= c < parameters.k ==> (#[trigger] centroids@[c])@.len() == d,
                            forall|c: int, j: int| 0 <= c < i && 0 <= j < d && size@[c] > 0
                                ==> #[trigger] centroids@[c]@[j] == sums@[c]@[j].div_spec(T::from_spec::<usize>(size@[c])),
                            forall|b: int| 0 <= b < j
                                ==> #[trigger] centroids@[i as int]@[b] == sums@[i as int]@[b].div_spec(T::from_spec::<usize>(size@[i as int])), //# inv-centroid-entry-is-sum-over-size
//@end
}
} // verus!
fn main() {}
