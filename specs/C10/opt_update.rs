//@unit tier=quick canary_includes=yes
// C10, part B (1): Optimizer::update moves `step` from one dual coefficient to another: whatever pair and step it is
// called with, the sum of the coefficients is unchanged and nothing but the two coefficients (and gradients) changes.
//@include prelude/uses.rs
use std::marker::PhantomData;
use std::collections::{HashMap, HashSet};
verus! {
//@include prelude/realnumber.rs
//@include prelude/order.rs
//@include prelude/basevector.rs
//@include prelude/real.rs
//@include C10/inc/svc_env.rs

impl<'a, T: RealNumber, M: Matrix<T>, K: Kernel<T, M::RowVector>> Optimizer<'a, T, M, K> {
//@include C10/inc/opt_update_fns.rs
}
} // verus!
fn main() {}
