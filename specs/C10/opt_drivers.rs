//@unit tier=quick canary_includes=yes
// C10, part B (4): Optimizer::new starts feasible (no support vectors); reprocess, finish and initialize, which only
// call process / smo / clean, preserve dual feasibility.  `clean` and `permutate` are stand-ins (A-SVC-CLEAN,
// A-SVC-PERMUTATE): initialize is proved for EVERY vector of sample indices permutate may return.
//@include prelude/uses.rs
use std::marker::PhantomData;
use std::collections::{HashMap, HashSet};
verus! {
//@include prelude/realnumber.rs
//@include prelude/order.rs
//@include prelude/basevector.rs
//@include prelude/real.rs
//@include C10/inc/svc_env.rs
//@include C10/inc/sv_new.rs

impl<'a, T: RealNumber, M: Matrix<T>, K: Kernel<T, M::RowVector>> Optimizer<'a, T, M, K> {
//@include C10/inc/opt_update_fns.rs
//@include C10/inc/opt_smo_fns.rs
//@include C10/inc/opt_process_fns.rs
//@include C10/inc/opt_driver_fns.rs
}
} // verus!
fn main() {}
