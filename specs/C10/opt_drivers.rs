//@unit tier=quick canary_includes=yes
// C10, part B (4): Optimizer::new starts feasible (no support vectors); reprocess, finish and initialize, which only
// call process / smo / clean, preserve dual feasibility.  `clean` and `permutate` are stand-ins (A-SVC-CLEAN,
// A-SVC-PERMUTATE): initialize is proved for EVERY vector of sample indices permutate may return.
//@include prelude/uses.rs
use std::marker::PhantomData;
use std::collections::{HashMap, HashSet};
verus! {
//@include prelude/realnumber.rs
//@include prelude/order.rs
//@include prelude/basevector.rs
//@include prelude/real.rs
//@include C10/inc/svc_env.rs
//@include C10/inc/sv_new.rs

// sanity of the assumed contract of `clean` (A-SVC-CLEAN): it admits what Vec::retain can do -- keeping everything,
// and removing any one entry whose coefficient is 0 (so the stand-in is not vacuous and not over-restrictive there)
proof fn lemma_drops_only_zero_refl<T: RealNumber, V: BaseVector<T>>(o: Seq<SupportVector<T, V>>)
    ensures drops_only_zero(o, o),
    decreases o.len()
{
    if o.len() > 0 { lemma_drops_only_zero_refl(o.drop_last()); }
}
proof fn lemma_drops_only_zero_remove<T: RealNumber, V: BaseVector<T>>(o: Seq<SupportVector<T, V>>, i: int)
    requires 0 <= i < o.len(), val(o[i].alpha) == 0real,
    ensures drops_only_zero(o, o.remove(i)),
    decreases o.len()
{
    let o1 = o.drop_last();
    let n = o.remove(i);
    if i == o.len() - 1 {
        assert(n =~= o1);
        lemma_drops_only_zero_refl(o1);
    } else {
        assert(n.last() == o.last());
        assert(n.drop_last() =~= o1.remove(i));
        lemma_drops_only_zero_remove(o1, i);
    }
}

impl<'a, T: RealNumber, M: Matrix<T>, K: Kernel<T, M::RowVector>> Optimizer<'a, T, M, K> {
//@include C10/inc/opt_update_fns.rs
//@include C10/inc/opt_smo_fns.rs
//@include C10/inc/opt_process_fns.rs
//@include C10/inc/opt_driver_fns.rs
}
} // verus!
fn main() {}
