//@unit tier=quick
// C10, part A (2): the closed forms of the built-in kernels (C10/inc/kernel_defs.rs, the spec fns the contracts of
// `apply` in kernels.rs are stated with) are symmetric in their two arguments, arithmetic read as real (A-REAL);
// exp / tanh / powf are only known to be functions of the real value of their argument (A-REAL-EXT).
//@include prelude/uses.rs
verus! {
//@include prelude/realnumber.rs
//@include prelude/order.rs
//@include prelude/clone.rs
//@include prelude/basevector_full.rs
//@include prelude/real.rs
//@include prelude/real_ext.rs
//@include prelude/distance_defs.rs
//@include C10/inc/kernel_defs.rs

proof fn lemma_square_swap(x: real, y: real) ensures (x - y) * (x - y) == (y - x) * (y - x) {
    assert((x - y) * (x - y) == (y - x) * (y - x)) by(nonlinear_arith);
}
proof fn lemma_mul_comm(x: real, y: real) ensures x * y == y * x {
    assert(x * y == y * x) by(nonlinear_arith);
}
// the dot fold is commutative in its arguments
pub proof fn lemma_vdot_symmetric<T: RealNumber>(a: Seq<T>, b: Seq<T>, n: int)
    ensures val(vdot(a, b, n)) == val(vdot(b, a, n)),
    decreases n
{
    axiom_real::<T>();
    if n > 0 {
        lemma_vdot_symmetric(a, b, n - 1);
        lemma_mul_comm(val(a[n - 1]), val(b[n - 1]));
    }
}
// so is the squared-distance fold (same statement as C17/metric_euclid.rs squared-euclid-symmetric)
pub proof fn lemma_sq_euclid_symmetric<T: RealNumber>(a: Seq<T>, b: Seq<T>, n: int)
    ensures val(sq_euclid(a, b, n)) == val(sq_euclid(b, a, n)),
    decreases n
{
    axiom_real::<T>();
    if n > 0 {
        lemma_sq_euclid_symmetric(a, b, n - 1);
        lemma_square_swap(val(a[n - 1]), val(b[n - 1]));
    }
}

pub proof fn lemma_linear_symmetric<T: RealNumber>(a: Seq<T>, b: Seq<T>)
    requires a.len() == b.len(),
    ensures val(k_linear(a, b)) == val(k_linear(b, a)), //# linear-kernel-symmetric
{
    lemma_vdot_symmetric(a, b, a.len() as int);
}
pub proof fn lemma_rbf_symmetric<T: RealNumber>(gamma: T, a: Seq<T>, b: Seq<T>)
    requires a.len() == b.len(),
    ensures val(k_rbf(gamma, a, b)) == val(k_rbf(gamma, b, a)), //# rbf-kernel-symmetric
{
    axiom_real::<T>();
    axiom_real_ext::<T>();
    lemma_sq_euclid_symmetric(a, b, a.len() as int);
    let n = a.len() as int;
    let u = gamma.neg_spec().mul_spec(sq_euclid(a, b, n));
    let w = gamma.neg_spec().mul_spec(sq_euclid(b, a, n));
    assert(val(u) == val(w));
    assert(val(u.exp_spec()) == val(w.exp_spec()));
}
pub proof fn lemma_poly_symmetric<T: RealNumber>(degree: T, gamma: T, coef0: T, a: Seq<T>, b: Seq<T>)
    requires a.len() == b.len(),
    ensures val(k_poly(degree, gamma, coef0, a, b)) == val(k_poly(degree, gamma, coef0, b, a)), //# polynomial-kernel-symmetric
{
    axiom_real::<T>();
    axiom_real_ext::<T>();
    let n = a.len() as int;
    lemma_vdot_symmetric(a, b, n);
    let u = gamma.mul_spec(vdot(a, b, n)).add_spec(coef0);
    let w = gamma.mul_spec(vdot(b, a, n)).add_spec(coef0);
    assert(val(u) == val(w));
    assert(val(u.powf_spec(degree)) == val(w.powf_spec(degree)));
}
pub proof fn lemma_sigmoid_symmetric<T: RealNumber>(gamma: T, coef0: T, a: Seq<T>, b: Seq<T>)
    requires a.len() == b.len(),
    ensures val(k_sigmoid(gamma, coef0, a, b)) == val(k_sigmoid(gamma, coef0, b, a)), //# sigmoid-kernel-symmetric
{
    axiom_real::<T>();
    axiom_real_ext::<T>();
    let n = a.len() as int;
    lemma_vdot_symmetric(a, b, n);
    let u = gamma.mul_spec(vdot(a, b, n)).add_spec(coef0);
    let w = gamma.mul_spec(vdot(b, a, n)).add_spec(coef0);
    assert(val(u) == val(w));
    assert(val(u.tanh_spec()) == val(w.tanh_spec()));
}
} // verus!
fn main() {}
