//@unit tier=quick canary_includes=yes
// C10, part B (3): SupportVector::new creates a coefficient 0 inside the box of the sample's class; Optimizer::process
// (insert at the front, then one smo step against the new entry) preserves dual feasibility whatever sample index it is
// called with.
//@include prelude/uses.rs
use std::marker::PhantomData;
use std::collections::{HashMap, HashSet};
verus! {
//@include prelude/realnumber.rs
//@include prelude/order.rs
//@include prelude/basevector.rs
//@include prelude/real.rs
//@include C10/inc/svc_env.rs
//@include C10/inc/sv_new.rs

impl<'a, T: RealNumber, M: Matrix<T>, K: Kernel<T, M::RowVector>> Optimizer<'a, T, M, K> {
//@include C10/inc/opt_update_fns.rs
//@include C10/inc/opt_smo_fns.rs
//@include C10/inc/opt_process_fns.rs
}
} // verus!
fn main() {}
