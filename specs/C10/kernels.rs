//@unit tier=quick
// C10, part A: the four built-in kernels.  (1) `apply`, extracted verbatim, returns exactly its closed form written
// over the vector views, arithmetic uninterpreted (A-ABS); the vector operations it calls (dot, sub, mul, sum) are
// the BaseVector trait contracts of prelude/basevector_full.rs (verified for Vec<T> in C03/vec_basevector).
// (2) the SAME closed forms are symmetric in their two arguments when arithmetic is read as real (A-REAL, A-REAL-EXT).
//@include prelude/uses.rs
verus! {
//@include prelude/realnumber.rs
//@include prelude/order.rs
//@include prelude/clone.rs
//@include prelude/basevector_full.rs
//@include prelude/real.rs
//@include prelude/real_ext.rs
//@include prelude/distance_defs.rs

// stand-in for crate::svm::Kernel: the contract is carried by `apply_spec` (Verus forbids `requires` on impl methods)
pub trait Kernel<T: RealNumber, V: BaseVector<T>> {
    spec fn apply_spec(&self, x_i: &V, x_j: &V) -> T;
//@checkdecl src/svm/mod.rs :: pub trait Kernel<T: RealNumber, V: BaseVector<T>> :: apply :: fn apply(&self, x_i: &V, x_j: &V) -> T
    fn apply(&self, x_i: &V, x_j: &V) -> (r: T)
        requires x_i.vview().len() == x_j.vview().len(),
        ensures r == self.apply_spec(x_i, x_j); //# kernel-apply-equals-closed-form
}

//@include C10/inc/kernel_defs.rs

// the element-wise square of the difference vector, summed left to right, IS the squared-distance fold
proof fn lemma_vsum_sq_euclid<T: RealNumber>(m: Seq<T>, a: Seq<T>, b: Seq<T>, n: int)
    requires 0 <= n <= m.len(),
        forall|i: int| 0 <= i < n ==> m[i] == a[i].sub_spec(b[i]).mul_spec(a[i].sub_spec(b[i])),
    ensures vsum(m, n) == sq_euclid(a, b, n),
    decreases n
{
    if n > 0 { lemma_vsum_sq_euclid(m, a, b, n - 1); }
}

//@struct src/svm/mod.rs :: LinearKernel
//@struct src/svm/mod.rs :: RBFKernel
//@struct src/svm/mod.rs :: PolynomialKernel
//@struct src/svm/mod.rs :: SigmoidKernel

impl<T: RealNumber, V: BaseVector<T>> Kernel<T, V> for LinearKernel {
    open spec fn apply_spec(&self, x_i: &V, x_j: &V) -> T { k_linear(x_i.vview(), x_j.vview()) }
//@extract src/svm/mod.rs :: impl<T: RealNumber, V: BaseVector<T>> Kernel<T, V> for LinearKernel :: apply :: ret=r
//@end
}

impl<T: RealNumber, V: BaseVector<T>> Kernel<T, V> for RBFKernel<T> {
    open spec fn apply_spec(&self, x_i: &V, x_j: &V) -> T { k_rbf(self.gamma, x_i.vview(), x_j.vview()) }
//@extract src/svm/mod.rs :: impl<T: RealNumber, V: BaseVector<T>> Kernel<T, V> for RBFKernel<T> :: apply :: ret=r
//@enter
        proof { T::ops_total(); }
        proof {
            // whatever vector `v_diff.mul(&v_diff)` returns: its left-to-right sum is the squared-distance fold
            let a = x_i.vview(); let b = x_j.vview(); let n = a.len() as int;
            assert forall|m: Seq<T>| m.len() == n
                && (forall|i: int| 0 <= i < n ==> m[i] == a[i].sub_spec(b[i]).mul_spec(a[i].sub_spec(b[i])))
                implies #[trigger] vsum(m, n) == sq_euclid(a, b, n) by { lemma_vsum_sq_euclid(m, a, b, n); }
        }
//@end
}

impl<T: RealNumber, V: BaseVector<T>> Kernel<T, V> for PolynomialKernel<T> {
    open spec fn apply_spec(&self, x_i: &V, x_j: &V) -> T { k_poly(self.degree, self.gamma, self.coef0, x_i.vview(), x_j.vview()) }
//@extract src/svm/mod.rs :: impl<T: RealNumber, V: BaseVector<T>> Kernel<T, V> for PolynomialKernel<T> :: apply :: ret=r
//@enter
        proof { T::ops_total(); }
//@end
}

impl<T: RealNumber, V: BaseVector<T>> Kernel<T, V> for SigmoidKernel<T> {
    open spec fn apply_spec(&self, x_i: &V, x_j: &V) -> T { k_sigmoid(self.gamma, self.coef0, x_i.vview(), x_j.vview()) }
//@extract src/svm/mod.rs :: impl<T: RealNumber, V: BaseVector<T>> Kernel<T, V> for SigmoidKernel<T> :: apply :: ret=r
//@enter
        proof { T::ops_total(); }
//@end
}
} // verus!
fn main() {}
