//@unit tier=quick canary_includes=yes
// C10, part B (2): Optimizer::smo clips the Newton step against the four box distances of the selected pair, so the
// update keeps both coefficients inside their boxes; with update-preserves-sum this is: smo preserves dual feasibility
// for EVERY pair of support-vector indices (select_pair is an opaque stand-in: nothing about the pair is used).
//@include prelude/uses.rs
use std::marker::PhantomData;
use std::collections::{HashMap, HashSet};
verus! {
//@include prelude/realnumber.rs
//@include prelude/order.rs
//@include prelude/basevector.rs
//@include prelude/real.rs
//@include C10/inc/svc_env.rs

impl<'a, T: RealNumber, M: Matrix<T>, K: Kernel<T, M::RowVector>> Optimizer<'a, T, M, K> {
//@include C10/inc/opt_update_fns.rs
//@include C10/inc/opt_smo_fns.rs
}
} // verus!
fn main() {}
