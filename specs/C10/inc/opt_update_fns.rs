// C10/inc/opt_update_fns.rs -- Optimizer::{find_min_max_gradient, update} under contract (owned by unit opt_update; included,
// and re-verified, by the units whose functions call them).  To be placed inside `impl Optimizer { .. }`.
//@extract src/svm/svc.rs :: impl<'a, T: RealNumber, M: Matrix<T>, K: Kernel<T, M:.:RowVector>> Optimizer<'a, T, M, K> :: find_min_max_gradient
//@spec
        ensures final(self).sv@ == old(self).sv@, final(self).same_problem(old(self)),
//@enter
        proof { T::ops_total(); }
//@loop 1
            invariant self.sv@ == old(self).sv@, self.same_problem(old(self)), T::obeys_partial_cmp_spec(),
//@end

//@extract src/svm/svc.rs :: impl<'a, T: RealNumber, M: Matrix<T>, K: Kernel<T, M:.:RowVector>> Optimizer<'a, T, M, K> :: update
//@spec
        requires v1 < old(self).sv@.len(), v2 < old(self).sv@.len(),
        ensures
            final(self).sv@.len() == old(self).sv@.len(), final(self).same_problem(old(self)),
            // exactly the two coefficients move, by -step and +step; samples and boxes stay
            forall|i: int| 0 <= i < old(self).sv@.len() ==> same_sample_and_box(#[trigger] final(self).sv@[i], old(self).sv@[i])
                && final(self).sv@[i].alpha == alpha_after(old(self).sv@, v1 as int, v2 as int, step, i), //# update-moves-step-from-v1-to-v2
            // whatever pair and step: the sum of the coefficients is unchanged
            sum_alpha(final(self).sv@, final(self).sv@.len() as int) == sum_alpha(old(self).sv@, old(self).sv@.len() as int), //# update-preserves-sum
//@enter
        proof { T::ops_total(); axiom_real::<T>(); }
//@loop 1
            invariant
                T::obeys_sub_assign_spec(), T::obeys_sub_spec(), T::obeys_mul_spec(),
                forall|a: T, b: T| #[trigger] a.sub_req(b),
                forall|a: T, b: T| #[trigger] a.mul_req(b),
                forall|a: T, b: T| #[trigger] a.sub_assign_req(b),
                v1 < self.sv@.len(), v2 < self.sv@.len(), self.sv@.len() == old(self).sv@.len(),
                VERUS_ghost_iter.iter.end == self.sv@.len(),
                self.same_problem(old(self)),
                forall|k: int| 0 <= k < old(self).sv@.len() ==> same_sample_and_box(#[trigger] self.sv@[k], old(self).sv@[k]) //# update-moves-step-from-v1-to-v2
                    && self.sv@[k].alpha == alpha_after(old(self).sv@, v1 as int, v2 as int, step, k),
//@exit
        proof { lemma_sum_move(old(self).sv@, self.sv@, v1 as int, v2 as int, step, self.sv@.len() as int); }
//@end
