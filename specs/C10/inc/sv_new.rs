// C10/inc/sv_new.rs -- SupportVector::new under contract (owned by unit opt_process).
impl<T: RealNumber, V: BaseVector<T>> SupportVector<T, V> {
//@extract src/svm/svc.rs :: impl<T: RealNumber, V: BaseVector<T>> SupportVector<T, V> :: new :: ret=r
//@spec
        ensures
            r.index == i, r.x == x, r.grad == g,
            val(r.alpha) == 0real, //# new-support-vector-has-zero-coefficient
            box_of_class(r, y, c), //# new-support-vector-box-follows-class
            val(c) >= 0real ==> in_box(r), //# new-support-vector-inside-its-box
//@enter
        proof { T::ops_total(); axiom_real::<T>(); }
//@end
}
